#!/bin/sh
# run the repository's pinned suite (guard off) and print the summary line
cd /repo && env -u OPTYX_VERIF /venv/bin/python -m pytest -q -p no:cacheprovider --timeout=900 2>&1 | tail -${1:-3}
