#!/bin/sh
# usage: [SRCROOT=/tmp/wt-out7 K=1] tools/eval_seeded.sh <PROP> <N> [extra props to run...]
# (SRCROOT: where the sub-agents wrote; K: index of the patch there, default N; N: number under /verif/seeded)
# Confirms a sub-agent's seeded defect (/tmp/wt-out/<PROP>/patchN.diff + demoN.py) on a scratch copy of /repo
# (suite passes with it, demo fails with it, demo passes without it), runs the quick check(s) against the copy,
# and files it under /verif/seeded/<PROP>-N/.
PROP=$1; N=$2; shift; shift
SRC=${SRCROOT:-/tmp/wt-out}/$PROP; K=${K:-$N}
DST=/verif/seeded/$PROP-$N
[ -f $SRC/patch$K.diff ] || { echo "no patch $SRC/patch$K.diff"; exit 1; }
SCR=/dev/shm/optyx-seed-$$; rm -rf $SCR; mkdir -p $SCR; rsync -a --exclude .git --exclude __pycache__ /repo/ $SCR/
if ! (cd $SCR && patch -p1 -s < $SRC/patch$K.diff); then echo "$PROP-$N: PATCH DOES NOT APPLY"; rm -rf $SCR; exit 1; fi
suite=$(cd $SCR && PYTHONPATH=$SCR/src /venv/bin/python -m pytest -q -p no:cacheprovider 2>&1 | tail -1 | cut -c1-80)
(cd /tmp && PYTHONPATH=$SCR/src timeout 600 /venv/bin/python $SRC/demo$K.py > /dev/shm/demo_with.$$ 2>&1); rc_with=$?
(cd /tmp && PYTHONPATH=/repo/src timeout 600 /venv/bin/python $SRC/demo$K.py > /dev/shm/demo_without.$$ 2>&1); rc_without=$?
echo "$PROP-$N suite: $suite | demo with patch rc=$rc_with | demo on pristine rc=$rc_without"
results=""
for P in $PROP "$@"; do
  OUT=$(cd /verif && ./check "$P" --tier ${TIER:-quick} --repo "$SCR" --no-evidence 2>&1)
  if echo "$OUT" | grep -q "^VIOLATION property=$P"; then r="CAUGHT by $P: $(echo "$OUT" | grep -m3 'mechanism=' | sed 's/ *mechanism=//' | tr '\n' ';' | cut -c1-220)";
  elif echo "$OUT" | grep -q "^INCONCLUSIVE"; then r="INCONCLUSIVE in $P: $(echo "$OUT" | grep -m1 INCONCLUSIVE | cut -c1-160)";
  else r="MISSED by $P"; fi
  echo "   $r"; results="$results$r\n"
done
mkdir -p $DST; cp $SRC/patch$K.diff $DST/patch.diff; cp $SRC/demo$K.py $DST/demo.py
printf '%s\n' "suite: $suite" "demo_with_patch_rc: $rc_with" "demo_pristine_rc: $rc_without" > $DST/confirm.txt
printf "$results" >> $DST/confirm.txt
rm -rf $SCR /dev/shm/demo_with.$$ /dev/shm/demo_without.$$
