#!/venv/bin/python
"""Regenerate MANIFEST.json from the per-property table below (keeps it valid)."""
import json
import os

HERE = os.path.dirname(os.path.dirname(os.path.abspath(__file__)))

TB = "Trusted base: CPython 3.12, NumPy/SciPy/HiGHS as arithmetic and solver substrate, and the independent reference interpreter in vmon/recipes/ref.py (validated by ./check selftest against finite differences)."

P = {
    "C01": dict(
        level="exploration",
        technique="runtime monitoring: reference-model comparator over generated expression programs (6 evaluation routes)",
        text="Every generated scalar expression (all public node kinds x 4 variable-list relations, plus seeded random grammar) is evaluated through evaluate / compile_expression (cold, cached, iterative builder) / compile_to_dict_function / CompiledExpression and after Parameter.set(), and each observation is compared with an independent float64 interpreter of the same recipe. Held-on-observed only: a finite sample of an infinite program space.",
        ref="3/C01",
    ),
    "C02": dict(
        level="exploration",
        technique="runtime monitoring: symbolic gradients of generated programs evaluated against an independent forward-mode (jet) reference",
        text="For every generated scalar expression and every variable of a superset of its variables (occurring and non-occurring), gradient(e, v) from the recursive and from the iterative traversal is evaluated at 3 regular points and compared with own forward-mode Taylor arithmetic on the recipe; absent variables must give exactly 0. Held-on-observed only.",
        ref="3/C02",
    ),
    "C03": dict(
        level="exploration",
        technique="runtime monitoring: compiled Jacobian/gradient callables vs jet reference across variable-list relations; fast-path names recorded",
        text="compile_jacobian (m=1,2,4 rows), compile_gradient and CompiledExpression.gradient are called on generated expression lists under exact / permuted / superset / superset+permuted variable lists and every entry is compared with the jet reference; which shortcut served each case is read from the callable's __name__ and reported. Held-on-observed only.",
        ref="3/C03",
    ),
    "C04": dict(
        level="exploration",
        technique="runtime monitoring: semantic degree oracle (finite differences of the reference along random rational lines, exact in Fractions)",
        text="Every finite degree / linear / quadratic verdict reported through Expression.degree (fresh and cached), compute_degree, is_linear, is_quadratic, the iterative traversal and Problem._is_linear_problem on generated expressions is tested against the (d+1)-th finite difference of an independent interpreter of the same formula along random rational lines; only under-reporting is judged. Probabilistic (Schwartz-Zippel) and sample-based.",
        ref="3/C04",
    ),
    "C11": dict(
        level="exploration",
        technique="runtime monitoring: construction recipes interpreted by NumPy-semantics reference; enumerated operand-kind/shape-mismatch matrix; view name checks",
        text="An enumerated matrix of operation x operand kind x operand order (incl. every shape mismatch) for vectors and matrices, a table of view recipes (slices, rows, columns, diagonals, transposes, symmetric sharing) and seeded random construction recipes are built through the public operators and evaluated; values and shapes must equal the reference interpreter's and mismatched operands must raise. The operand matrix is enumerated completely; the random part is a sample.",
        ref="3/C11",
    ),
    "C17": dict(
        level="exploration",
        technique="runtime monitoring: symbolic and compiled Hessians vs second-order jet reference; symmetry assertion; shortcut names recorded",
        text="All n^2 entries of compute_hessian and the output of compile_hessian are compared with own second-order Taylor arithmetic on the recipe at regular points, under the four variable-list relations, and H = H^T is asserted on every observed matrix; the diagonal shortcuts are driven by the directed vectorised-sum families. Held-on-observed only.",
        ref="3/C17",
    ),
    "C19": dict(
        level="exploration",
        technique="runtime monitoring: derivative callables probed exactly on singular sets; finiteness / expected-class / unchanged-regular-entry / path-agreement assertions",
        text="Separable sums of singular atoms (17 scalar, 7 vectorised, L2 norm) with coefficients of both signs are evaluated with some coordinates exactly on the singular set through compile_gradient, compile_jacobian (1 and 3 rows) and compile_hessian under four variable-list relations; every entry must be finite, singular first-derivative entries must equal the hand-specified class (0 / +-1e16), regular entries must equal the jet reference, and the vectorised and element-wise spellings must agree. Composite 0*inf forms are judged for finiteness only.",
        ref="3/C19",
    ),
    "C05": dict(
        level="exploration",
        technique="runtime monitoring: data-first LP generator; extracted LP compared with reference interpreter at n+1 affinely independent points per model",
        text="Linear models are drawn as data and written in random mixes of API syntax; for each, LinearProgramExtractor's cost vector (+ constant), every A_ub/A_eq row and right-hand side (with >= negation and block order), column names, bounds, and the public extract_linear_coefficient / extract_constant_term are compared with the reference interpreter's value of the written expressions at 0, e_1..e_n and a random point (which determines an affine map: exhaustive per model). A self-check that recipe == data guards the oracle.",
        ref="3/C05",
    ),
    "C06": dict(
        level="exploration",
        technique="runtime monitoring: postcondition OPTIMAL=>feasible checked by reference evaluation on real solves and on an enumerated stubbed-solver result matrix (minimize / linprog seams)",
        text="(A) feasible, infeasible-by-construction and boundary problems are solved with every documented method plus COBYLA/Powell/TNC/CG under hostile options; (B) the minimize and linprog seams are stubbed with an enumerated matrix of scripted results (success x termination messages x kinds of returned point x sense x tol x method; linprog statuses 0-4), driving every branch of both status mappings. Every OPTIMAL solution's constraints and bounds are re-evaluated by the independent interpreter.",
        ref="3/C06",
    ),
    "C07": dict(
        level="exploration",
        technique="runtime monitoring: Solution postconditions (objective value == reference objective at returned values; keys == problem variables) + handle-retrieval table",
        text="Every solve of generated LP/NLP problems (all statuses, both orientations, constant-only objectives, objectives over a subset of the constraint variables, 10 methods) is observed by an oracle that recomputes the objective with the reference interpreter at the returned values and compares key sets; 23 handle kinds (slices, reversed slices, rows, columns, transposes, sub-matrices, symmetric) are retrieved from solved models with pairwise distinct optimal values.",
        ref="3/C07",
    ),
    "C08": dict(
        level="exploration",
        technique="runtime monitoring: differential solve against scipy.optimize.linprog on the canonical matrix form of the drawn data; linprog seam recorder on repeated solves",
        text="Optimal, infeasible (Farkas pair) and unbounded linear models written in random syntax are solved through optyx with auto/linprog/highs/highs-ds/highs-ipm, min and max, three times per problem object (cold, cached LP data, after an unrelated model); status and objective are compared with a direct HiGHS call on the canonical form of the data, and the arrays at the linprog seam must equal that form on every solve.",
        ref="3/C08",
    ),
    "C09": dict(
        level="exploration",
        technique="runtime monitoring: online checker of every callable evaluation at the minimize seam (jet reference) + differential run against raw SciPy on manufactured-optimum convex problems",
        text="Strictly convex problems with a manufactured KKT point (5 families, equality/inequality/bounds active or not, min and max of the negation) are solved with auto, SLSQP, trust-constr, L-BFGS-B, BFGS; every fun/jac/hess/constraint evaluation the solver makes is compared online with the jet reference, handed bounds/x0/method are checked, and the result is compared with raw scipy.optimize.minimize given reference callables and the same start.",
        ref="3/C09",
    ),
    "C10": dict(
        level="exploration",
        technique="runtime monitoring: enumerated operand-kind matrix of relations; Constraint.violation/is_satisfied and the SciPy constraint dicts captured at the minimize seam probed against reference values and jet gradients",
        text="7 lhs kinds x rhs kinds x {<=,>=,==} x direct/reflected spelling (incl. every shape mismatch) and random relations are built; count, type and pairing of element constraints, violation and is_satisfied off the boundary, and - via a stubbed solve - the fun/jac of every SciPy constraint dict are compared with reference lhs-rhs values and their jet gradients.",
        ref="3/C10",
    ),
    "C12": dict(
        level="exploration",
        technique="runtime monitoring: offline checker over recorded operation histories (set/solve/evaluate/compiled calls) against a reference interpreter with current parameter values and a twin-process fresh model",
        text="Random histories interleave Parameter/VectorParameter/MatrixParameter updates with solves (auto, SLSQP, trust-constr), tree evaluation and calls of value/gradient/Jacobian/Hessian callables compiled at earlier moments, on 9 model families with parameters in every position the property names. Evaluation-type observations are compared with the reference at the current values; solves with a twin process that builds the model afresh with fresh Parameter objects (tight) and with Constants (objective only).",
        ref="3/C12",
    ),
    "C13": dict(
        level="exploration",
        technique="runtime monitoring: small-scope exhaustive operation sequences checked against a sequential reference model + twin-process fresh Problem; private-cache coherence probe for localisation",
        text="All operation sequences up to a length bound over a 13-operation alphabet (set/replace objective, flip sense, add linear / nonlinear / list-with-new-variable constraints, tighten and change bounds, solve with 4 methods, read variables) on 3 base models, the complete 'objective;[constraint];solve;edit;observe' crossing family and long random histories are executed on one Problem object; the final observation of each is compared with a twin process that constructs Problem(current state) from scratch.",
        ref="3/C13",
    ),
    "C16": dict(
        level="exploration",
        technique="runtime monitoring: Problem.variables / bounds / domains vs recipe-level syntactic variable set and an independent natural sort; shortcut and near-miss models with shared view objects",
        text="Directed single-vector-shortcut models (11 kinds of source view x 6 objective forms) and 5 near-misses of each, name-stress models and random problems are built; Problem.variables, n_variables, get_bounds and the variables' domains are compared with the variables syntactically occurring in the recipe, an independent numeric-aware sort (ties between equal keys accepted in any order) and the declarations.",
        ref="3/C16",
    ),
    "C18": dict(
        level="exploration",
        technique="runtime monitoring: seam call counters + warning capture + twin-process relaxation over an enumerated route x domain x shape x method matrix",
        text="For 16 declaration routes x {integer, binary} x 3 model shapes x 11 methods x {linear, nonlinear}: strict=True must raise IntegerVariableError naming exactly the discrete problem variables before either SciPy seam is entered; the non-strict solve must warn with exactly those names and equal the twin's solve of the continuous relaxation; every binary element must have bounds (0,1) and every view must keep the domain.",
        ref="3/C18",
    ),
    "C15": dict(
        level="exploration",
        technique="runtime monitoring: differential observation of left-deep / balanced / vectorised builds of one term list vs an iteratively folded reference, at and beyond the real switch thresholds and with thresholds lowered",
        text="For 35 base-term kinds x {+,-,*,/} and chain lengths around the real switch threshold (399/400/401), 450, 900 and (sums, differences) 5000 / 20000, the left-deep accumulation and the balanced tree are observed through variable discovery, compute_degree, symbolic gradient value, evaluate, compile_expression, compile_gradient / compile_jacobian and solve, and compared with the reference algebra folded iteratively and with each other; every exception on a deep build is an event (RecursionError classified by stage, operator, build and length). All four thresholds are lowered to 2 on random grammar recipes. Known finding: derivative trees of left-deep product / quotient chains overflow the recursive evaluator.",
        ref="3/C15",
    ),
    "C14": dict(
        level="exploration",
        technique="runtime monitoring: observations after colliding model prefixes (beyond LRU capacities) vs fresh-process twin; cache_info deltas as evidence",
        text="(prefix, M) pairs: M is an expression with its compiled value / gradient / Jacobian / Hessian / degree, or an LP / convex NLP to solve; the prefix builds, compiles, differentiates and solves 1 to 1100 (5000 in thorough) models that collide with M (same variable names with other bounds, domains and positions, same parameter names with other values, structurally identical rebuilt expressions, bare-leaf expressions compiled against M's own variable list). M is observed after the prefix and in the order M, prefix, M again (rebuilt and the same objects) and compared with a twin started as a fresh interpreter for that M.",
        ref="3/C14",
    ),
    "C20": dict(
        level="fault_enumeration",
        technique="runtime monitoring with fault injection: sys.monitoring PY_START failpoints inside solver callbacks and cache-construction calls, raising seam stubs at solver entry and in the retry; process-state and re-solve postconditions",
        text="For 5 problems covering SLSQP, trust-constr (lazy Hessian), L-BFGS-B, auto/maximise and linprog, every callback kind (objective, gradient, Hessian, constraint fun/jac) and every cache-construction call is failed at entry index k (all k in thorough; 1, 2, K/2, K-1, K in quick) with 5 exception classes; also the solver entry after j evaluations, the SLSQP->trust-constr retry and raising bodies of increased_recursion_limit. After each fault the outcome must be FAILED-returned or propagated, warnings.showwarning / filters / recursion limit / np.geterr must be as before, and two unarmed re-solves must equal an undisturbed baseline.",
        ref="3/C20",
    ),
}

PENDING = "check under construction in this round (see DESIGN.md section 3 for the planned monitor)"


def workload_rule(pid):
    """the check's own description of its workload (info(tier)['rule']), so that the manifest never lags behind the code"""
    import importlib
    import sys

    for d in (HERE, "/repo/src", os.path.join(HERE, ".deps")):
        if d not in sys.path:
            sys.path.insert(0, d)
    try:
        mod = importlib.import_module(f"vmon.props.{pid.lower()}")
        return " Workload as built (the check's own rule, quick tier): " + " ".join(str(mod.info("quick")["rule"]).split())
    except Exception as ex:  # the manifest must stay valid even if a module cannot be imported here
        return ""


def main():
    checks = []
    na = []
    for i in range(1, 21):
        pid = "C%02d" % i
        if os.path.exists(os.path.join(HERE, "vmon", "props", pid.lower() + ".py")) and pid in P:
            p = P[pid]
            checks.append(
                {
                    "property_id": pid,
                    "quick_cmd": f"./check {pid} --tier quick",
                    "thorough_cmd": f"./check {pid} --tier thorough",
                    "evidence_file": f"/verif/evidence/{pid}.json",
                    "replay_cmd_template": f"./check {pid} --replay {{path}}",
                    "engine": "vmon",
                    "level_claimed": {"category": p["level"], "text": p["text"] + workload_rule(pid), "design_ref": "DESIGN.md section " + p["ref"]},
                    "level_note": p.get("note", TB),
                    "technique": p["technique"],
                }
            )
        else:
            na.append({"property_id": pid, "reason": PENDING})
    m = {
        "version": 1,
        "setup_cmd": "/venv/bin/pip install -q --no-index --find-links /opt/veriftools/wheels --target /verif/.deps icontract deal mpmath && touch /verif/.deps/.ok",
        "hooks": {
            "guard": "OPTYX_VERIF",
            "enable": "no source hooks are needed: every observation point is reachable from outside (module globals, class attributes, code objects, sys.monitoring); checks import /repo/src directly via PYTHONPATH",
            "baseline_off_cmd": "cd /repo && env -u OPTYX_VERIF /venv/bin/python -m pytest -ra -q -p no:cacheprovider --timeout=900 --continue-on-collection-errors",
            "source_commits": [],
            "add_only": True,
        },
        "engines": [
            {
                "name": "vmon",
                "path": "/verif/vmon",
                "serves_properties": [c["property_id"] for c in checks],
                "kind_free_text": "runtime monitors: recipe generator + public-API builder + independent reference interpreter (float / jet / rational), SciPy seam recorders and stubs, contracts on Problem.solve, twin-process oracle, sys.monitoring failpoints",
            }
        ],
        "checks": checks,
        "not_applicable": na,
        "notes": "All checks: ./check <ID> --tier quick|thorough (honours VERIF_SEED, VERIF_TIER). Exit 0 held-on-observed (KNOWN-FINDING lines possible), 1 VIOLATION, 2 INCONCLUSIVE. Known findings: /verif/known_findings.json.",
    }
    with open(os.path.join(HERE, "MANIFEST.json"), "w") as f:
        json.dump(m, f, indent=1)
    print("claimed", len(checks), "pending", len(na))


if __name__ == "__main__":
    main()
