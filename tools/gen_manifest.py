#!/venv/bin/python
"""Regenerate MANIFEST.json from the per-property table below (keeps it valid)."""
import json
import os

HERE = os.path.dirname(os.path.dirname(os.path.abspath(__file__)))

TB = "Trusted base: CPython 3.12, NumPy/SciPy/HiGHS as arithmetic and solver substrate, and the independent reference interpreter in vmon/recipes/ref.py (validated by ./check selftest against finite differences)."

P = {
    "C01": dict(
        level="exploration",
        technique="runtime monitoring: reference-model comparator over generated expression programs (6 evaluation routes)",
        text="Every generated scalar expression (all public node kinds x 4 variable-list relations, plus seeded random grammar) is evaluated through evaluate / compile_expression (cold, cached, iterative builder) / compile_to_dict_function / CompiledExpression and after Parameter.set(), and each observation is compared with an independent float64 interpreter of the same recipe. Held-on-observed only: a finite sample of an infinite program space.",
        ref="3/C01",
    ),
}

PENDING = "check under construction in this round (see DESIGN.md section 3 for the planned monitor)"


def main():
    checks = []
    na = []
    for i in range(1, 21):
        pid = "C%02d" % i
        if os.path.exists(os.path.join(HERE, "vmon", "props", pid.lower() + ".py")) and pid in P:
            p = P[pid]
            checks.append(
                {
                    "property_id": pid,
                    "quick_cmd": f"./check {pid} --tier quick",
                    "thorough_cmd": f"./check {pid} --tier thorough",
                    "evidence_file": f"/verif/evidence/{pid}.json",
                    "replay_cmd_template": f"./check {pid} --replay {{path}}",
                    "engine": "vmon",
                    "level_claimed": {"category": p["level"], "text": p["text"], "design_ref": "DESIGN.md section " + p["ref"]},
                    "level_note": p.get("note", TB),
                    "technique": p["technique"],
                }
            )
        else:
            na.append({"property_id": pid, "reason": PENDING})
    m = {
        "version": 1,
        "setup_cmd": "/venv/bin/pip install -q --no-index --find-links /opt/veriftools/wheels --target /verif/.deps icontract deal mpmath && touch /verif/.deps/.ok",
        "hooks": {
            "guard": "OPTYX_VERIF",
            "enable": "no source hooks are needed: every observation point is reachable from outside (module globals, class attributes, code objects, sys.monitoring); checks import /repo/src directly via PYTHONPATH",
            "baseline_off_cmd": "cd /repo && env -u OPTYX_VERIF /venv/bin/python -m pytest -ra -q -p no:cacheprovider --timeout=900 --continue-on-collection-errors",
            "source_commits": [],
            "add_only": True,
        },
        "engines": [
            {
                "name": "vmon",
                "path": "/verif/vmon",
                "serves_properties": [c["property_id"] for c in checks],
                "kind_free_text": "runtime monitors: recipe generator + public-API builder + independent reference interpreter (float / jet / rational), SciPy seam recorders and stubs, contracts on Problem.solve, twin-process oracle, sys.monitoring failpoints",
            }
        ],
        "checks": checks,
        "not_applicable": na,
        "notes": "All checks: ./check <ID> --tier quick|thorough (honours VERIF_SEED, VERIF_TIER). Exit 0 held-on-observed (KNOWN-FINDING lines possible), 1 VIOLATION, 2 INCONCLUSIVE. Known findings: /verif/known_findings.json.",
    }
    with open(os.path.join(HERE, "MANIFEST.json"), "w") as f:
        json.dump(m, f, indent=1)
    print("claimed", len(checks), "pending", len(na))


if __name__ == "__main__":
    main()
