#!/venv/bin/python
"""Reach report: which executable source lines of /repo/src/optyx were executed by the checks (VMON_COVER=<dir> ./check ...).

usage: tools/reach.py <dir> [--missing] [--by-prop]
Lines executed only at import time are reached by every worker; what matters is the list of *functions with unexecuted lines*,
the places where a change could hide from every monitor.
"""
import ast
import glob
import json
import os
import sys

SRC = os.path.realpath("/repo/src")
d = sys.argv[1]
hit = {}
for f in glob.glob(os.path.join(d, "*.json")):
    prop = os.path.basename(f).split("-")[0]
    for fn, ln in json.load(open(f)):
        hit.setdefault((fn, ln), set()).add(prop)


def exec_lines(path):
    code = compile(open(path).read(), path, "exec")
    out = set()
    stack = [code]
    while stack:
        c = stack.pop()
        if c.co_flags & 0x1:  # CO_OPTIMIZED: function bodies only (module and class bodies run at import, before the recorder starts)
            first = c.co_firstlineno
            for _, _, ln in c.co_lines():
                if ln is not None and ln != first:
                    out.add(ln)
        stack.extend(k for k in c.co_consts if hasattr(k, "co_lines"))
    return out


def functions(path):
    t = ast.parse(open(path).read())
    out = []
    for n in ast.walk(t):
        if isinstance(n, (ast.FunctionDef, ast.AsyncFunctionDef)):
            out.append((n.lineno, n.end_lineno, n.name))
    return out


tot = cov = 0
rows = []
for path in sorted(glob.glob(SRC + "/optyx/**/*.py", recursive=True)):
    rel = os.path.relpath(path, SRC)
    ex = exec_lines(path)
    # docstring-only / def lines count as executed at import; keep them
    h = {ln for ln in ex if (rel, ln) in hit}
    tot += len(ex)
    cov += len(h)
    rows.append((rel, len(h), len(ex)))
    if "--missing" in sys.argv:
        miss = sorted(ex - h)
        fns = functions(path)
        by = {}
        for ln in miss:
            inner = [f for f in fns if f[0] <= ln <= f[1]]
            name = max(inner, key=lambda f: f[0])[2] if inner else "<module>"
            by.setdefault(name, []).append(ln)
        for name, lns in sorted(by.items(), key=lambda kv: kv[1][0]):
            print(f"  {rel}:{name}: {len(lns)} lines not reached: {lns[:12]}{'...' if len(lns) > 12 else ''}")
for rel, h, e in rows:
    print(f"{rel:40s} {h:5d}/{e:5d}  {100.0 * h / max(e, 1):5.1f}%")
print(f"{'total':40s} {cov:5d}/{tot:5d}  {100.0 * cov / max(tot, 1):5.1f}%")
