#!/venv/bin/python
"""Writes /verif/seeded/<id>/meta.json for the round-2 seeded changes (descriptions: seeded/round2_descriptions.json, summarised from
the sub-agents' own NOTES.md) and refreshes "checks_run" / "caught_now" of every meta.json from seeded/RESULTS.md (tools/kill_matrix.sh)."""
import json
import os
import re

ROOT = os.path.dirname(os.path.dirname(os.path.abspath(__file__)))
S = os.path.join(ROOT, "seeded")
desc = json.load(open(os.path.join(S, "round2_descriptions.json")))
for extra in sorted(os.listdir(S)):
    if re.fullmatch(r"round\d+_descriptions\.json", extra) and extra != "round2_descriptions.json":
        desc.update(json.load(open(os.path.join(S, extra))))
INITIALLY_MISSED = set("""C01-2 C03-1 C06-1 C06-2 C07-1 C07-2 C08-1 C12-2 C13-2 C14-1 C14-2 C15-1 C16-1 C16-2 C17-2 C18-2 C19-1 C19-2 C20-2
C01-4 C02-3 C03-3 C04-4 C05-4 C06-3 C09-3 C09-4 C10-3 C10-4 C11-3 C11-4 C13-3 C14-3 C14-4 C15-3 C15-4 C16-3 C16-4 C17-3 C18-4 C19-3 C20-3 C20-4
C01-11 C02-11 C03-11 C05-11 C05-12 C06-11 C07-12 C08-11 C09-11 C10-11 C10-12 C11-11 C11-12 C12-12 C13-11 C13-12 C14-11 C14-12 C15-11 C15-12 C16-11 C16-12 C18-11 C18-12 C19-11 C19-12 C20-12
C02-10 C03-10 C05-10 C06-9 C06-10 C07-10 C08-9 C09-10 C10-10 C11-9 C12-9 C12-10 C13-10 C14-9 C14-10 C15-9 C15-10 C16-10 C18-10 C19-9
C01-7 C02-7 C05-7 C06-8 C07-7 C08-7 C09-7 C09-8 C11-7 C12-7 C12-8 C14-7 C14-8 C15-8 C16-7 C16-8 C17-7 C18-7 C18-8 C19-7 C19-8 C20-7
C01-13 C02-14 C03-13 C03-14 C04-13 C04-14 C05-13 C05-14 C06-13 C06-14 C07-14 C08-13 C09-13 C09-14 C10-13 C11-14 C12-14 C13-14 C14-13 C14-14 C15-13 C16-13 C16-14 C17-14 C18-13 C18-14 C19-13 C19-14
C01-5 C01-6 C02-5 C02-6 C03-5 C05-5 C06-5 C07-5 C08-5 C09-5 C09-6 C10-5 C11-5 C11-6 C12-5 C12-6 C13-5 C14-6 C16-5 C17-6 C18-5 C18-6 C20-6
C04-15 C12-15 C16-15 C20-15""".split())
results = {}
rp = os.path.join(S, "RESULTS.md")
if os.path.exists(rp):
    for line in open(rp):
        m = re.match(r"\| (C\d\d-\d+) \| (.*?) \| (.*?) \| (.*?) \|", line)
        if m:
            results[m.group(1)] = {"suite": m.group(2), "demo": m.group(3), "check": m.group(4)}
for d in sorted(os.listdir(S)):
    p = os.path.join(S, d)
    if not re.fullmatch(r"C\d\d-\d+", d) or not os.path.isdir(p):
        continue
    mp = os.path.join(p, "meta.json")
    if os.path.exists(mp):
        meta = json.load(open(mp))
    else:
        conf = dict(l.strip().split(": ", 1) for l in open(os.path.join(p, "confirm.txt")) if ": " in l and not l.startswith(" "))
        meta = {
            "id": d, "property": d[:3], "round": (int(d.split("-")[1]) + 1) // 2,
            "origin": "independent sub-agent given only the property text, one-line descriptions of the changes delivered for the same "
                      "property in earlier rounds (to avoid repeats) and a scratch worktree of /repo",
            "change": desc[d]["change"], "needs_to_manifest": desc[d]["needs_to_manifest"],
            "confirmed": {"repository_suite_with_patch": conf.get("suite"), "demo_with_patch_exit": int(conf.get("demo_with_patch_rc", -1)),
                          "demo_on_pristine_exit": int(conf.get("demo_pristine_rc", -1)),
                          "how": "tools/eval_seeded.sh: rsync /repo to /dev/shm scratch, patch -p1 < patch.diff, pytest there, demo.py against scratch and "
                                 "against /repo, ./check <ID> --tier quick --repo <scratch>; scratch removed"},
        }
    if d in desc:
        meta.setdefault("change", desc[d]["change"])
        meta.setdefault("needs_to_manifest", desc[d]["needs_to_manifest"])
    meta.setdefault("round", 1)
    meta["initially_missed"] = d in INITIALLY_MISSED
    if d in results:
        meta["checks_run"] = [f"final kill matrix (tools/kill_matrix.sh, quick tier): {results[d]['check']}"]
        meta["caught_now"] = results[d]["check"].startswith("caught")
    json.dump(meta, open(mp, "w"), indent=1)
    open(mp, "a").write("\n")
print("meta.json written for", len([d for d in os.listdir(S) if os.path.exists(os.path.join(S, d, "meta.json"))]), "seeded changes")
