#!/venv/bin/python
"""Set up one round of independent seeded changes (DESIGN section 9).

usage: [PROPS="C02 C06"] tools/seed_round.py <round>

For every property: a scratch git worktree of /repo at /tmp/wt/<ID> (outside /repo and /verif), an output directory
/tmp/wt-out<round>/<ID>/ and the self-contained PROMPT.txt a fresh sub-agent is pointed at.  The prompt contains only the
text of the property (id, title, statement, quantification) and one-line descriptions of the changes already delivered for
it - nothing from /verif.  The worktrees are removed after the round (git -C /repo worktree remove --force <dir>).
"""
import glob
import json
import os
import subprocess
import sys

HERE = os.path.dirname(os.path.dirname(os.path.abspath(__file__)))
rnd = int(sys.argv[1])
OUT = f"/tmp/wt-out{rnd}"
tmpl = open(os.path.join(HERE, "tools", "seed_prompt.tmpl")).read().replace("/tmp/wt-out/", OUT + "/")
HEAD = subprocess.check_output(["git", "-C", "/repo", "rev-parse", "--short", "HEAD"], text=True).strip()

HINT = (
    "Previous contributors already delivered the following defects for this property. Do NOT repeat them or close variants of them, and do not "
    "reuse their trigger kinds. Pick different code sites AND a different kind of trigger. The obvious places are taken; read the source files end to "
    "end (src/optyx/*.py, src/optyx/core/*.py, src/optyx/solvers/*.py) and look for behaviour that the property depends on but that nobody has touched "
    "yet - including the less travelled modules (constraints.py, solution.py, core/errors.py, core/functions.py, core/parameters.py, core/optimizer.py, "
    "core/verification.py, the __init__ re-exports), helper functions with several callers, class attributes and module-level constants, thresholds "
    "and size cut-offs, the order of isinstance checks, operator overloads reached only in reflected form, what happens with zero / one / many "
    "constraints, with scalar vs vector vs matrix variables mixed in one model, with objects created in one order and used in another, with a second "
    "Problem sharing variables or expressions with the first, with Python bool / int / numpy scalar operands, with empty or length-1 containers, "
    "with very long names or names containing brackets and digits:\n"
)

for line in open(os.path.join(HERE, "properties.jsonl")):
    p = json.loads(line)
    ID = p["id"]
    if os.environ.get("PROPS") and ID not in os.environ["PROPS"].split():
        continue
    wt = f"/tmp/wt/{ID}"
    if not os.path.isdir(wt):
        os.makedirs("/tmp/wt", exist_ok=True)
        subprocess.run(["git", "-C", "/repo", "worktree", "add", "-q", "--detach", wt, "HEAD"], check=True)
    else:
        subprocess.run(["git", "-C", wt, "checkout", "-q", "--detach", HEAD], check=True)
        subprocess.run(["git", "-C", wt, "checkout", "--", "."], check=True)
    os.makedirs(f"{OUT}/{ID}", exist_ok=True)
    prop = f"{ID}: {p['title']}\n\nStatement: {p['statement']}\n\nQuantification: {p['quantifier']['text']}\n"
    prior = []
    for d in sorted(glob.glob(os.path.join(HERE, "seeded", ID + "-*")), key=lambda s: int(s.rsplit("-", 1)[1])):
        try:
            m = json.load(open(os.path.join(d, "meta.json")))
        except Exception:
            continue
        prior.append(f"  - {m.get('change', '')[:200]} (needs: {m.get('needs_to_manifest', '')[:220]})")
    t = tmpl.replace("@ID@", ID).replace("@PROPERTY@", prop)
    if prior:
        a = t.index("Deliver TWO different seeded defects")
        t = t[:a] + HINT + "\n".join(prior) + "\n\n\n" + t[a:]
    open(f"{OUT}/{ID}/PROMPT.txt", "w").write(t)
print("round", rnd, "HEAD", HEAD, "prompts:", sorted(os.listdir(OUT)))
