#!/bin/sh
# seeds sweep of the quick (or $TIER) checks; prints one verdict line per (seed, property)
cd "$(dirname "$0")/.."
for s in ${SEEDS:-1 2 3 4 5}; do
  for p in ${PROPS:-C01 C02 C03 C04 C05 C06 C07 C08 C09 C10 C11 C12 C13 C14 C15 C16 C17 C18 C19 C20}; do
    out=$(VERIF_SEED=$s PYTHONHASHSEED=0 ./check $p --tier ${TIER:-quick} --no-evidence 2>&1)
    rc=$?
    echo "seed=$s $p rc=$rc $(echo "$out" | grep -m1 '^\[')"
    [ $rc -ne 0 ] && echo "$out" | grep -v '^\[' | cut -c1-600 | head -12
  done
done
