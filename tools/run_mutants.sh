#!/bin/sh
# Kill matrix of the own seeded breaks: for each mutants/<PROP>__<name>.diff, (1) the repository's own suite on the
# mutant (a valid seeded break must pass it), (2) the quick check of the targeted property against the mutant.
cd "$(dirname "$0")/.."
OUT=mutants/RESULTS.md
echo "| mutant | targeted property | repository suite on the mutant | quick check of the property |" > $OUT
echo "|---|---|---|---|" >> $OUT
for f in ${1:-mutants/*.diff}; do
  base=$(basename $f .diff); prop=${base%%__*}; name=${base#*__}
  SCR=/dev/shm/optyx-mutm-$$; rm -rf $SCR; mkdir -p $SCR; rsync -a --exclude .git --exclude __pycache__ /repo/ $SCR/
  (cd $SCR && patch -p1 -s < /verif/$f) || { echo "| $name | $prop | PATCH FAILED | |" >> $OUT; continue; }
  suite=$(cd $SCR && PYTHONPATH=$SCR/src /venv/bin/python -m pytest -q -p no:cacheprovider -x 2>&1 | tail -1 | cut -c1-60)
  res=$(./check $prop --tier quick --repo $SCR --no-evidence 2>&1)
  if echo "$res" | grep -q "^VIOLATION property=$prop"; then v="CAUGHT: $(echo "$res" | grep -m2 'mechanism=' | sed 's/ *mechanism=//' | tr '\n' ';' | cut -c1-160)";
  elif echo "$res" | grep -q "^INCONCLUSIVE"; then v="INCONCLUSIVE: $(echo "$res" | grep -m1 INCONCLUSIVE | cut -c1-140)";
  else v="MISSED"; fi
  echo "| $name | $prop | $suite | $v |" >> $OUT
  rm -rf $SCR
done
[ -z "$1" ] && [ -f mutants/NOTES.md ] && cat mutants/NOTES.md >> $OUT
echo done >> $OUT.log
