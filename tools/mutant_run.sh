#!/bin/sh
# usage: tools/mutant_run.sh <patch.diff | -R:<commit>> <PROP> [more props...]
# Applies a seeded break to a scratch copy of /repo (never to /repo itself), runs the quick checks against it
# (VMON_REPO), and removes the copy.  Prints one line per property: CAUGHT / MISSED.
set -e
PATCH="$1"; shift
SCR="/dev/shm/optyx-mut-$$"
rm -rf "$SCR"; mkdir -p "$SCR"
rsync -a --exclude .git --exclude __pycache__ /repo/ "$SCR"/
case "$PATCH" in
  -R:*) git -C /repo show "${PATCH#-R:}" | (cd "$SCR" && patch -R -p1 -s) ;;
  *) (cd "$SCR" && patch -p1 -s < "$PATCH") ;;
esac
for P in "$@"; do
  OUT=$(cd /verif && ./check "$P" --tier "${TIER:-quick}" --repo "$SCR" --no-evidence 2>&1 || true)
  if echo "$OUT" | grep -q "^VIOLATION property=$P"; then
    echo "CAUGHT $P: $(echo "$OUT" | grep -m3 'mechanism=' | tr '\n' ' ' | cut -c1-300)"
  else
    echo "MISSED $P: $(echo "$OUT" | tail -2 | tr '\n' ' ' | cut -c1-200)"
  fi
done
rm -rf "$SCR"
