#!/bin/sh
# usage: tools/kill_matrix.sh [DIRS...]   (default: every /verif/seeded/<PROP>-<N>)
# Re-confirms every kept seeded defect from its committed patch.diff / demo.py on a scratch copy of /repo (never /repo itself):
# suite passes with it, demo fails with it and passes without, and the quick check of its property reports a violation.
# Writes /verif/seeded/RESULTS.md.
cd /verif
FINAL=seeded/RESULTS.md; [ -n "$1" ] && FINAL=/dev/shm/RESULTS.partial.md
DIRS="$@"; [ -z "$DIRS" ] && DIRS=$(ls -d seeded/C??-* | sort -V)
OUT=/dev/shm/RESULTS.md.new.$$
echo "| seeded change | suite with patch | demo with / without | quick check of its property |" > $OUT
echo "|---|---|---|---|" >> $OUT
for d in $DIRS; do
  id=$(basename $d); P=${id%%-*}
  if grep -q '"void"' /verif/$d/meta.json 2>/dev/null; then echo "| $id | - | - | void: neutralised by a later repair of /repo (see meta.json) |" >> $OUT; echo "$id: void"; continue; fi
  SCR=/dev/shm/optyx-km-$$; rm -rf $SCR; mkdir -p $SCR; rsync -a --exclude .git --exclude __pycache__ /repo/ $SCR/
  if ! (cd $SCR && patch -p1 -s < /verif/$d/patch.diff); then echo "| $id | PATCH DOES NOT APPLY | | |" >> $OUT; rm -rf $SCR; continue; fi
  suite=$(cd $SCR && PYTHONPATH=$SCR/src /venv/bin/python -m pytest -q -p no:cacheprovider 2>&1 | tail -1 | cut -c1-40)
  (cd /dev/shm && PYTHONPATH=$SCR/src timeout 900 /venv/bin/python /verif/$d/demo.py >/dev/null 2>&1); a=$?
  (cd /dev/shm && PYTHONPATH=/repo/src timeout 900 /venv/bin/python /verif/$d/demo.py >/dev/null 2>&1); b=$?
  R=$(./check $P --tier quick --repo $SCR --no-evidence 2>&1)
  if echo "$R" | grep -q "^VIOLATION property=$P"; then r="caught: $(echo "$R" | grep -m2 'mechanism=' | sed 's/ *mechanism=//;s/ count=.*//' | tr '\n' ' ' | cut -c1-150)";
  elif echo "$R" | grep -q "^INCONCLUSIVE"; then r="INCONCLUSIVE"; else r="MISSED"; fi
  echo "| $id | $suite | rc=$a / rc=$b | $r |" >> $OUT
  echo "$id: $r"
  rm -rf $SCR
done
mv $OUT $FINAL
