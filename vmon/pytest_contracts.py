"""pytest plugin: the repository's own tests as a free workload for the Problem.solve contracts.

    cd /repo && PYTHONPATH=/repo/src:/verif:/verif/.deps VMON_CONTRACTS_OUT=<file> \
        /venv/bin/python -m pytest -q -p no:cacheprovider -p vmon.pytest_contracts

icontract postconditions (named condition functions that *record and return True*, so the suite's own outcome is never
changed) are applied to the real Problem.solve:
  * OPTIMAL => every constraint and bound holds at the returned values        (C06, secondary channel)
  * objective_value == objective.evaluate(values); keys == problem variables  (C07, secondary channel)
  * warnings.showwarning / recursion limit as at entry                         (C20, normal exits only)
Secondary channel: there is no recipe for a hand-written test, so constraint / objective values come from optyx's own
evaluate(); the verdict-bearing comparisons of the checks use the independent reference interpreter instead.
"""
from __future__ import annotations

import collections
import json
import math
import os
import sys
import warnings

EVENTS = collections.Counter()
WITNESSES = []


def _witness(kind, **kw):
    EVENTS["fired:" + kind] += 1
    if len(WITNESSES) < 40:
        test = os.environ.get("PYTEST_CURRENT_TEST", "?")
        WITNESSES.append({"contract": kind, "test": test, **{k: (v if isinstance(v, (int, float, str, bool, type(None))) else repr(v)[:300]) for k, v in kw.items()}})


def optimal_implies_feasible(self, result) -> bool:
    EVENTS["evaluated:optimal_implies_feasible"] += 1
    try:
        if result.status.value != "optimal" or not result.values:
            return True
        worst = 0.0
        for c in self.constraints:
            v = float(c.violation(result.values))
            scale = max(1.0, abs(float(c.evaluate(result.values))))
            worst = max(worst, v / scale)
        for var in self.variables:
            x = result.values.get(var.name)
            if x is None:
                continue
            if var.lb is not None:
                worst = max(worst, (var.lb - x) / max(1.0, abs(x)))
            if var.ub is not None:
                worst = max(worst, (x - var.ub) / max(1.0, abs(x)))
        if worst > 1e-5 or worst != worst:
            _witness("optimal_implies_feasible", worst_scaled_violation=worst, values=result.values)
    except Exception as ex:  # a contract must never change the suite's outcome
        EVENTS["contract-error:" + type(ex).__name__] += 1
    return True


def objective_and_keys_consistent(self, result) -> bool:
    EVENTS["evaluated:objective_and_keys_consistent"] += 1
    try:
        if not result.values or result.objective_value is None:
            return True
        names = [v.name for v in self.variables]
        if sorted(names) != sorted(result.values):
            _witness("keys_are_problem_variables", keys=sorted(result.values), variables=sorted(names))
            return True
        if not all(isinstance(v, float) and math.isfinite(v) for v in result.values.values()):
            return True
        import numpy as np

        want = float(np.asarray(self.objective.evaluate(result.values)).reshape(-1)[0])
        if math.isfinite(want) and abs(want - result.objective_value) > 1e-7 * max(1.0, abs(want)):
            _witness("objective_value_consistent", reported=result.objective_value, evaluated=want, status=result.status.value)
    except Exception as ex:
        EVENTS["contract-error:" + type(ex).__name__] += 1
    return True


def hook_at_entry(self):
    return (warnings.showwarning, sys.getrecursionlimit())


def process_state_restored(self, result, OLD) -> bool:
    EVENTS["evaluated:process_state_restored"] += 1
    if warnings.showwarning is not OLD.state[0] or sys.getrecursionlimit() != OLD.state[1]:
        _witness("process_state_restored", showwarning_same=warnings.showwarning is OLD.state[0], reclimit=sys.getrecursionlimit())
    return True


class ContractBroken(Exception):
    pass


def install():
    import icontract

    from optyx.problem import Problem

    if getattr(Problem.solve, "_vmon_contracts", False):
        return
    f = Problem.solve
    f = icontract.ensure(optimal_implies_feasible, error=ContractBroken)(f)
    f = icontract.ensure(objective_and_keys_consistent, error=ContractBroken)(f)
    f = icontract.ensure(process_state_restored, error=ContractBroken)(f)
    f = icontract.snapshot(hook_at_entry, name="state")(f)
    f._vmon_contracts = True
    Problem.solve = f
    EVENTS["installed"] += 1


def pytest_configure(config):
    install()


def pytest_sessionfinish(session, exitstatus):
    out = os.environ.get("VMON_CONTRACTS_OUT")
    if out:
        with open(out, "w") as fh:
            json.dump({"events": dict(EVENTS), "witnesses": WITNESSES, "pytest_exitstatus": int(exitstatus)}, fh, indent=1)
