"""Shared harness: recorder used by every property module inside a worker,
merging of shard results, known-findings classification, evidence writing."""
from __future__ import annotations

import collections
import json
import math
import os
import time

from .recipes import ast as A

NSHARDS = 16  # fixed: sharding (hence the explored cases) must not depend on the machine

VERIF = os.path.dirname(os.path.dirname(os.path.abspath(__file__)))


class Rec:
    """Per-worker recorder of what the monitors observed."""

    MAX_VIOL = 40

    def __init__(self, prop, tier, seed, shard):
        self.prop, self.tier, self.seed, self.shard = prop, tier, seed, shard
        self.evaluations = 0  # oracle comparisons made
        self.hashes = set()  # distinct non-trivial case ids
        self.cells = collections.Counter()  # input-side cells -> oracle comparisons
        self.paths = collections.Counter()  # implementation-side observations (reported only)
        self.events = collections.Counter()
        self.noncomp = collections.Counter()
        self.maxdisc = {}
        self.violations = []
        self.n_violations = 0
        self.samples = []
        self.inconclusive = []
        self.t0 = time.time()
        self.deadline = None

    # -- counting -------------------------------------------------------
    def case(self, case_obj, nontrivial=True):
        if nontrivial:
            self.hashes.add(A.sha(case_obj))

    def cmp(self, n=1, cell=None):
        """n oracle comparisons made (optionally attributed to an input cell)."""
        self.evaluations += n
        if cell is not None:
            self.cells[cell] += n

    def disc(self, name, d):
        if d == d and d != math.inf and d > self.maxdisc.get(name, 0.0):
            self.maxdisc[name] = float(d)

    def sample(self, obj, cap=4):
        if len(self.samples) < cap:
            self.samples.append(obj)

    def out_of_time(self):
        return self.deadline is not None and time.time() > self.deadline

    # -- verdicts -------------------------------------------------------
    def violation(self, mechanism, witness):
        """Record a violation.  `mechanism` is a structural class of the
        witness (never a hash / random value); known findings match on it."""
        self.n_violations += 1
        per = sum(1 for v in self.violations if v["mechanism"] == mechanism)
        if len(self.violations) < self.MAX_VIOL and per < 3:
            self.violations.append({"mechanism": mechanism, "witness": witness})
        self.events["violation:" + mechanism] += 1

    def dump(self):
        return {
            "prop": self.prop,
            "shard": self.shard,
            "evaluations": self.evaluations,
            "hashes": sorted(self.hashes),
            "cells": dict(self.cells),
            "paths": dict(self.paths),
            "events": dict(self.events),
            "noncomp": dict(self.noncomp),
            "maxdisc": self.maxdisc,
            "violations": self.violations,
            "n_violations": self.n_violations,
            "samples": self.samples,
            "inconclusive": self.inconclusive,
            "wall_s": time.time() - self.t0,
        }


LP_TIME_LIMIT_S = 20.0
LP_TIME_LIMITED = [0]


def install_lp_time_limit():
    """HiGHS' interior point method can loop for ever on a degenerate LP (seen once in a thorough run: ipx::IPM::Driver spinning for
    80 CPU-minutes inside scipy.optimize.linprog, GIL released).  A hang is neither a pass nor a violation, so every linprog call made
    in a worker or twin process - optyx's and the reference's alike - gets HiGHS' own `time_limit` option unless the caller set one.
    A call that hits the limit returns status 1; the checks count those as non-comparable (LP_TIME_LIMITED)."""
    import scipy.optimize as SO

    if getattr(SO.linprog, "_vmon_time_limit", False):
        return
    orig = SO.linprog

    def linprog(*args, **kwargs):
        opts = dict(kwargs.get("options") or {})
        if "time_limit" not in opts:
            opts["time_limit"] = LP_TIME_LIMIT_S
            kwargs["options"] = opts
        res = orig(*args, **kwargs)
        try:
            if getattr(res, "status", 0) == 1 and "time" in str(getattr(res, "message", "")).lower():
                LP_TIME_LIMITED[0] += 1
        except Exception:
            pass
        return res

    linprog._vmon_time_limit = True
    linprog.__wrapped__ = orig
    SO.linprog = linprog


# Observation rescaling for "numerically special" workloads: a case whose data were multiplied by an exact power of two s (tiny
# coefficient arrays, a tiny constant factor) sets SCALE_INV[0] = 1/s; observed and reference values are both multiplied by it before
# the comparison, so that the absolute floor of the tolerance (max(1, |ref|)) does not hide a dropped tiny term.  Multiplication by a
# power of two is exact in IEEE arithmetic, so a correct implementation is unaffected.
SCALE_INV = [1.0]


def close(got, ref, rtol, mag=0.0):
    """|got-ref| <= rtol*max(1,|ref|) + 1e-13*mag ; returns (ok, discrepancy)."""
    try:
        got = float(got)
    except (TypeError, ValueError):
        return False, math.inf
    if SCALE_INV[0] != 1.0:
        got, ref = got * SCALE_INV[0], float(ref) * SCALE_INV[0]
    if got != got or ref != ref:
        return (got != got and ref != ref), math.inf
    if math.isinf(got) or math.isinf(ref):
        return got == ref, (0.0 if got == ref else math.inf)
    d = abs(got - ref)
    scale = max(1.0, abs(ref))
    return d <= rtol * scale + 1e-13 * mag, d / scale


def merge(results):
    m = {
        "evaluations": 0,
        "hashes": set(),
        "cells": collections.Counter(),
        "paths": collections.Counter(),
        "events": collections.Counter(),
        "noncomp": collections.Counter(),
        "maxdisc": {},
        "violations": [],
        "n_violations": 0,
        "samples": [],
        "inconclusive": [],
    }
    for r in results:
        m["evaluations"] += r["evaluations"]
        m["hashes"].update(r["hashes"])
        for k in ("cells", "paths", "events", "noncomp"):
            m[k].update(r[k])
        for k, v in r["maxdisc"].items():
            m["maxdisc"][k] = max(m["maxdisc"].get(k, 0.0), v)
        m["violations"].extend(r["violations"])
        m["n_violations"] += r["n_violations"]
        m["samples"].extend(r["samples"][:2])
        m["inconclusive"].extend(r["inconclusive"])
    return m


def load_known():
    p = os.path.join(VERIF, "known_findings.json")
    if not os.path.exists(p):
        return []
    with open(p) as f:
        return json.load(f).get("findings", [])


def write_json(path, obj):
    os.makedirs(os.path.dirname(path), exist_ok=True)
    tmp = path + ".tmp%d" % os.getpid()
    with open(tmp, "w") as f:
        json.dump(obj, f, indent=1, sort_keys=True, default=A._default)
    os.replace(tmp, path)
