"""One shard of one property check (subprocess of cli.py)."""
from __future__ import annotations

import argparse
import importlib
import json
import os
import random
import sys
import time
import traceback
import warnings


def main():
    ap = argparse.ArgumentParser()
    ap.add_argument("prop")
    ap.add_argument("--tier", default="quick")
    ap.add_argument("--seed", type=int, default=0)
    ap.add_argument("--shard", type=int, default=0)
    ap.add_argument("--out", required=True)
    ap.add_argument("--replay")
    a = ap.parse_args()

    import numpy as np

    import optyx

    repo = os.environ.get("VMON_REPO", "/repo")
    src = os.path.realpath(os.path.join(repo, "src"))
    if not os.path.realpath(optyx.__file__).startswith(src + os.sep):
        print(f"optyx imported from {optyx.__file__}, expected under {src}", file=sys.stderr)
        sys.exit(3)

    from vmon import harness as H

    H.install_lp_time_limit()

    prop = a.prop
    modname = "vmon.selftest" if prop == "selftest" else f"vmon.props.{prop.lower()}"
    mod = importlib.import_module(modname)
    rec = H.Rec(prop, a.tier, a.seed, a.shard)
    rec.deadline = time.time() + mod.BUDGET_S[a.tier]

    unraisable = []
    sys.unraisablehook = lambda u: (unraisable.append(repr(u.exc_value)[:200]), rec.events.update(["unraisable"]))
    np.seterr(all="ignore")
    warnings.simplefilter("ignore")

    class Ctx:
        tier = a.tier
        seed = a.seed
        shard = a.shard
        nshards = H.NSHARDS
        rng = random.Random(f"{prop}/{a.seed}/{a.shard}")

        @staticmethod
        def mine(i):
            """True if directed item number i belongs to this shard."""
            return i % H.NSHARDS == a.shard

    cover_dir = os.environ.get("VMON_COVER")
    covered = set()
    if cover_dir:
        # reach report (tools/reach.sh): which source lines of optyx a check executes at all.  LINE events of sys.monitoring, each
        # location disabled after its first hit, so the cost is one callback per line; tool id COVERAGE is not the failpoints' id.
        mon = sys.monitoring

        def _line(code, lineno):
            fn = code.co_filename
            if fn.startswith(src):
                covered.add((fn[len(src) + 1:], lineno))
            return mon.DISABLE

        mon.use_tool_id(mon.COVERAGE_ID, "vmon-reach")
        mon.register_callback(mon.COVERAGE_ID, mon.events.LINE, _line)
        mon.set_events(mon.COVERAGE_ID, mon.events.LINE)

    try:
        if a.replay:
            with open(a.replay) as f:
                rp = json.load(f)
            mod.replay(rp["witness"], rec)
        else:
            mod.run(Ctx, rec)
    except Exception:
        rec.inconclusive.append("worker exception: " + traceback.format_exc()[-1500:])
    if H.LP_TIME_LIMITED[0]:
        rec.noncomp["linprog-hit-the-harness-time-limit"] += H.LP_TIME_LIMITED[0]
    if cover_dir:
        sys.monitoring.set_events(sys.monitoring.COVERAGE_ID, 0)
        os.makedirs(cover_dir, exist_ok=True)
        with open(os.path.join(cover_dir, f"{prop}-{a.tier}-{a.seed}-{a.shard}.json"), "w") as f:
            json.dump(sorted(covered), f)
    out = rec.dump()
    out["info"] = mod.info(a.tier)
    out["unraisable"] = unraisable[:5]
    with open(a.out, "w") as f:
        json.dump(out, f, default=H.A._default)


if __name__ == "__main__":
    main()
