"""Implementation-side observations (reported as evidence, never verdict-bearing)."""
from __future__ import annotations

import types


def closure_sites(fn, limit=5000):
    """(co_name, co_firstlineno) of every function reachable from a compiled
    callable through __defaults__ / __closure__ (lists included): tells which
    builder branches produced it."""
    seen = set()
    sites = set()
    stack = [fn]
    while stack and len(seen) < limit:
        f = stack.pop()
        if id(f) in seen:
            continue
        seen.add(id(f))
        if isinstance(f, (list, tuple)):
            stack.extend(f)
            continue
        if isinstance(f, types.MethodType):
            f = f.__func__
        if not isinstance(f, types.FunctionType):
            continue
        sites.add((f.__code__.co_name, f.__code__.co_firstlineno))
        for d in f.__defaults__ or ():
            if isinstance(d, (types.FunctionType, list, tuple, types.MethodType)):
                stack.append(d)
        for c in f.__closure__ or ():
            try:
                v = c.cell_contents
            except ValueError:
                continue
            if isinstance(v, (types.FunctionType, list, tuple, types.MethodType)):
                stack.append(v)
    return sites
