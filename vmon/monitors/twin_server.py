"""Twin process: builds a problem recipe *from scratch* (empty process-wide
caches, fresh objects) and solves / observes it.  JSON lines on stdin/stdout."""
from __future__ import annotations

import json
import sys
import warnings

import numpy as np


def clear_caches():
    """Empty the process-wide caches; False if that is not possible on this tree (the client then uses one process per job)."""
    import importlib

    ok = True

    for modname, attr in (("optyx.core.compiler", "_compile_cached"), ("optyx.core.autodiff", "_gradient_cached"), ("optyx.analysis", "_compute_degree_cached")):
        try:
            getattr(importlib.import_module(modname), attr).cache_clear()
        except Exception:
            ok = False
    return ok


def do_solve(job):
    from vmon.recipes import build as B

    prob = job["prob"]
    b = B.Builder(prob["decls"])
    # domains / bounds overrides (C13, C18)
    for nm, (lb, ub) in (job.get("bounds_override") or {}).items():
        v = b.variables([nm])[0]
        v.lb, v.ub = lb, ub
    for nm, dom in (job.get("domain_override") or {}).items():
        b.variables([nm])[0].domain = dom
    P = b.problem(prob)
    if job.get("method") == "__read__":
        return {"variables": [v.name for v in P.variables], "bounds": [[lb, ub] for lb, ub in P.get_bounds()]}
    kw = dict(job.get("kwargs") or {})
    if "x0" in kw and kw["x0"] is not None:
        kw["x0"] = np.array(kw["x0"], dtype=float)
    with warnings.catch_warnings(record=True) as wlist:
        warnings.simplefilter("always")
        sol = P.solve(method=job.get("method", "auto"), **kw)
    return {
        "status": sol.status.value,
        "objective": sol.objective_value,
        "values": sol.values,
        "variables": [v.name for v in P.variables],
        "bounds": [[lb, ub] for lb, ub in P.get_bounds()],
        "message": sol.message[:200],
        "warnings": [str(w.message)[:300] for w in wlist],
    }


def do_observe(job):
    """Evaluate / differentiate an expression recipe in a fresh model."""
    from optyx.core import autodiff as AD
    from optyx.core import compiler as C
    from vmon.recipes import build as B

    b = B.Builder(job["decls"])
    e = b.S(job["node"])
    V = job["V"]
    Vobjs = b.variables(V)
    x = np.array([job["point"][n] for n in V], dtype=float)
    out = {}
    out["evaluate"] = float(np.asarray(e.evaluate(dict(job["point"]))).reshape(-1)[0])
    out["compiled"] = float(np.asarray(C.compile_expression(e, Vobjs)(x)).reshape(-1)[0])
    out["gradient"] = np.asarray(C.compile_gradient(e, Vobjs)(x), dtype=float).reshape(-1).tolist()
    out["jacobian"] = np.asarray(AD.compile_jacobian([e], Vobjs)(x), dtype=float).reshape(-1).tolist()
    if job.get("hessian"):
        out["hessian"] = np.asarray(AD.compile_hessian(e, Vobjs)(x), dtype=float).tolist()
    try:
        out["degree"] = e.degree
    except Exception as ex:  # noqa: BLE001
        out["degree"] = "raises:" + type(ex).__name__
    return out


def main():
    np.seterr(all="ignore")
    try:
        from vmon import harness as H

        H.install_lp_time_limit()
    except Exception:
        pass
    for line in sys.stdin:
        line = line.strip()
        if not line:
            continue
        job = json.loads(line)
        if job.get("op") == "quit":
            break
        cleared = True
        try:
            if not job.get("keep_caches"):
                cleared = clear_caches()
            if job["op"] == "solve":
                res = do_solve(job)
            elif job["op"] == "observe":
                res = do_observe(job)
            else:
                res = {"error": "unknown op"}
        except BaseException as ex:  # noqa: BLE001
            res = {"error": type(ex).__name__ + ": " + str(ex)[:300]}
        if not cleared:
            res["one_shot"] = True
        sys.stdout.write(json.dumps(res) + "\n")
        sys.stdout.flush()
        if not cleared:
            break  # caches could not be emptied: this process served its single job


if __name__ == "__main__":
    main()
