"""Source-free failpoints with sys.monitoring (PEP 669): PY_START events on chosen
code objects; the callback counts entries per kind and raises the chosen
exception inside the k-th entered frame."""
from __future__ import annotations

import sys
import types


class FailpointError(Exception):
    pass


class Failpoints:
    def __init__(self):
        self.mon = sys.monitoring
        self.tool = self.mon.PROFILER_ID
        self.kinds = {}  # code object -> kind
        self.counts = {}
        self.armed = None  # (kind, k, exception factory)
        self.fired = 0
        self.active = False

    # -- discovery ---------------------------------------------------------
    @staticmethod
    def inner_codes(fn):
        """code objects nested in fn's code (closures / lambdas), in source order"""
        out = []
        for c in fn.__code__.co_consts:
            if isinstance(c, types.CodeType):
                out.append(c)
        return out

    def discover(self):
        import optyx.solvers.scipy_solver as SS
        from optyx.core import autodiff as AD
        from optyx.core import compiler as C

        found = {}
        for c in self.inner_codes(SS.solve_scipy):
            if c.co_name == "objective":
                found[c] = "fun"
            elif c.co_name == "gradient":
                found[c] = "jac"
            elif c.co_name == "_hess_fn":
                found[c] = "hess"
        lambdas = [c for c in self.inner_codes(SS._build_solver_cache) if c.co_name == "<lambda>"]
        # the dict literals list "fun" before "jac" for each of the three senses
        for i, c in enumerate(lambdas):
            found[c] = "cfun" if i % 2 == 0 else "cjac"
        # frames below the wrappers: every closure produced by the compilers (the compiled objective / gradient / Jacobian /
        # Hessian callables themselves); a fault raised there passes through the wrappers' own exception handling
        self.inner_kinds = set()

        def nested(code, top, depth=0):
            for c in code.co_consts:
                if isinstance(c, types.CodeType):
                    if c not in found:
                        found[c] = "inner:" + top
                        self.inner_kinds.add("inner:" + top)
                    if depth < 6:
                        nested(c, top, depth + 1)

        for mod in (AD, C):
            for nm, fn in sorted(vars(mod).items()):
                if isinstance(fn, types.FunctionType) and fn.__module__ == mod.__name__ and (nm.startswith("compile_") or nm.startswith("_compile") or nm.startswith("_build")):
                    nested(fn.__code__, nm)
        # the analysis / LP-extraction functions and the Problem's own methods entered during a solve
        import optyx.analysis as AN
        from optyx.problem import Problem

        for nm in ("extract_all_linear_coefficients", "extract_constant_term", "extract_linear_coefficient", "classify_constraints", "is_simple_bound",
                   "compute_degree", "is_linear", "is_quadratic"):
            fn = getattr(AN, nm, None)
            if isinstance(fn, types.FunctionType) and fn.__code__ not in found:
                found[fn.__code__] = "analysis:" + nm
        ext = getattr(AN, "LinearProgramExtractor", None)
        for nm, fn in sorted(vars(ext).items()) if ext is not None else []:
            if isinstance(fn, types.FunctionType) and fn.__code__ not in found:
                found[fn.__code__] = "analysis:LinearProgramExtractor." + nm
        for nm, fn in sorted(vars(Problem).items()):
            if isinstance(fn, property):
                fn = fn.fget
            if isinstance(fn, types.FunctionType) and nm not in ("solve", "__init__") and fn.__code__ not in found:
                found[fn.__code__] = "problem:" + nm
        found[C.compile_expression.__code__] = "build:compile_expression"
        found[AD.compile_jacobian.__code__] = "build:compile_jacobian"
        found[AD.compile_hessian.__code__] = "build:compile_hessian"
        need = {"fun", "jac", "hess", "cfun", "cjac", "build:compile_expression", "build:compile_jacobian", "build:compile_hessian"}
        missing = need - set(found.values())
        if missing or len(lambdas) != 6:
            raise FailpointError(f"callback code objects not found: missing={sorted(missing)} lambdas={len(lambdas)}")
        self.kinds = found
        return self

    # -- life cycle ----------------------------------------------------------
    def install(self):
        m = self.mon
        if m.get_tool(self.tool) is not None:
            raise FailpointError("sys.monitoring PROFILER tool id already in use")
        m.use_tool_id(self.tool, "vmon-failpoints")
        m.register_callback(self.tool, m.events.PY_START, self._on_start)
        for code in self.kinds:
            m.set_local_events(self.tool, code, m.events.PY_START)
        self.active = True
        return self

    def uninstall(self):
        if self.active:
            m = self.mon
            for code in self.kinds:
                m.set_local_events(self.tool, code, 0)
            m.register_callback(self.tool, m.events.PY_START, None)
            m.free_tool_id(self.tool)
            self.active = False

    def reset(self):
        self.counts = {}
        self.armed = None
        self.fired = 0

    def arm(self, kind, k, make_exc):
        self.counts = {}
        self.fired = 0
        self.armed = (kind, k, make_exc)

    def disarm(self):
        self.armed = None

    def _on_start(self, code, offset):
        kind = self.kinds.get(code)
        if kind is None:
            return
        n = self.counts.get(kind, 0) + 1
        self.counts[kind] = n
        a = self.armed
        if a is not None and a[0] == kind and a[1] == n:
            self.fired += 1
            self.armed = None
            raise a[2]()
