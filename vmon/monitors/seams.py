"""Seams between optyx and SciPy, wrapped from outside (no repository change):
`optyx.solvers.scipy_solver.minimize` (module global) and
`scipy.optimize.linprog` (looked up by solve_lp at call time).

The shims record every call, can wrap the callables handed to SciPy so that
every point the solver evaluates is observed, and can replace the solver by a
stub (scripted OptimizeResult or an exception)."""
from __future__ import annotations

import copy

import numpy as np


class Seams:
    def __init__(self):
        self.lp_calls = []
        self.min_calls = []
        self.lp_stub = None  # callable(**kwargs) -> OptimizeResult (or raises)
        self.min_stub = None  # callable(call_record) -> OptimizeResult (or raises)
        self.wrap_callables = None  # callable(kind, fn, call_record) -> fn
        self.installed = False

    # ------------------------------------------------------------------
    def install(self):
        import scipy.optimize as SO

        import optyx.solvers.scipy_solver as SS

        if not hasattr(SS, "minimize") or not hasattr(SO, "linprog"):
            raise RuntimeError("seam not found: optyx.solvers.scipy_solver.minimize / scipy.optimize.linprog")
        self._SO, self._SS = SO, SS
        self.orig_linprog = SO.linprog
        self.orig_minimize = SS.minimize
        SO.linprog = self._linprog
        SS.minimize = self._minimize
        self.installed = True
        return self

    def uninstall(self):
        if self.installed:
            self._SO.linprog = self.orig_linprog
            self._SS.minimize = self.orig_minimize
            self.installed = False

    def __enter__(self):
        return self.install()

    def __exit__(self, *a):
        self.uninstall()

    def reset(self):
        self.lp_calls.clear()
        self.min_calls.clear()

    @property
    def n_calls(self):
        return len(self.lp_calls) + len(self.min_calls)

    # ------------------------------------------------------------------
    def _linprog(self, *args, **kwargs):
        rec = {"args": args, "kwargs": {k: (np.array(v, dtype=float, copy=True) if k in ("c", "A_ub", "b_ub", "A_eq", "b_eq") and v is not None else copy.copy(v)) for k, v in kwargs.items()}}
        self.lp_calls.append(rec)
        if self.lp_stub is not None:
            return self.lp_stub(**kwargs)
        return self.orig_linprog(*args, **kwargs)

    def _minimize(self, fun=None, x0=None, *args, **kwargs):
        rec = {
            "method": kwargs.get("method"),
            "x0": None if x0 is None else np.array(x0, dtype=float, copy=True),
            "bounds": copy.deepcopy(kwargs.get("bounds")),
            "has_jac": kwargs.get("jac") is not None,
            "has_hess": kwargs.get("hess") is not None,
            "constraints": kwargs.get("constraints"),
            "tol": kwargs.get("tol"),
            "options": kwargs.get("options"),
            "fun": fun,
            "jac": kwargs.get("jac"),
            "hess": kwargs.get("hess"),
            "evals": {"fun": 0, "jac": 0, "hess": 0, "cfun": 0, "cjac": 0},
        }
        self.min_calls.append(rec)
        if self.wrap_callables is not None:
            w = self.wrap_callables
            fun = w("fun", fun, rec)
            if kwargs.get("jac") is not None and callable(kwargs["jac"]):
                kwargs["jac"] = w("jac", kwargs["jac"], rec)
            if kwargs.get("hess") is not None and callable(kwargs["hess"]):
                kwargs["hess"] = w("hess", kwargs["hess"], rec)
            cons = kwargs.get("constraints")
            if cons:
                newc = []
                for i, c in enumerate(cons):
                    c2 = dict(c)
                    c2["fun"] = w(("cfun", i), c["fun"], rec)
                    if "jac" in c and callable(c["jac"]):
                        c2["jac"] = w(("cjac", i), c["jac"], rec)
                    newc.append(c2)
                kwargs["constraints"] = newc
        if self.min_stub is not None:
            return self.min_stub(rec)
        return self.orig_minimize(fun, x0, *args, **kwargs)
