"""Client side of the twin process (oracle for 'equals a freshly built model')."""
from __future__ import annotations

import copy
import json
import os
import select
import subprocess
import sys


class TwinError(Exception):
    pass


class Twin:
    def __init__(self, timeout=120.0):
        self.timeout = timeout
        self.proc = None
        self.jobs = 0

    def start(self):
        env = dict(os.environ)
        self.proc = subprocess.Popen([sys.executable, "-B", "-m", "vmon.monitors.twin_server"], stdin=subprocess.PIPE,
                                     stdout=subprocess.PIPE, stderr=subprocess.DEVNULL, env=env, text=True, bufsize=1)
        return self

    def call(self, job):
        if self.proc is None or self.proc.poll() is not None:
            self.start()
        self.jobs += 1
        self.proc.stdin.write(json.dumps(job, default=_dflt) + "\n")
        self.proc.stdin.flush()
        r, _, _ = select.select([self.proc.stdout], [], [], self.timeout)
        if not r:
            self.close(kill=True)
            raise TwinError("twin watchdog")
        line = self.proc.stdout.readline()
        if not line:
            self.close(kill=True)
            raise TwinError("twin died")
        res = json.loads(line)
        if res.get("one_shot"):
            self.close(kill=True)
        return res

    def fresh_process_call(self, job):
        """One job in a brand-new process (true 'fresh process' oracle)."""
        t = Twin(self.timeout).start()
        try:
            return t.call(job)
        finally:
            t.close()

    def close(self, kill=False):
        if self.proc is not None:
            try:
                if not kill and self.proc.poll() is None:
                    self.proc.stdin.write('{"op":"quit"}\n')
                    self.proc.stdin.flush()
                    self.proc.wait(timeout=5)
            except Exception:
                pass
            if self.proc.poll() is None:
                self.proc.kill()
            self.proc = None

    def __enter__(self):
        return self.start()

    def __exit__(self, *a):
        self.close()


def _dflt(o):
    import numpy as np

    if isinstance(o, np.generic):
        return o.item()
    if isinstance(o, np.ndarray):
        return o.tolist()
    raise TypeError(type(o))


def with_params(decls, pvals=None, vpvals=None, mpvals=None):
    """decls with the parameters' *current* values baked in (fresh-Parameter twin)."""
    out = copy.deepcopy(decls)
    for d in out:
        if d["k"] == "par" and pvals and d["name"] in pvals:
            d["val"] = pvals[d["name"]]
        elif d["k"] == "vpar" and vpvals and d["name"] in vpvals:
            d["vals"] = list(vpvals[d["name"]])
        elif d["k"] == "mpar" and mpvals and d["name"] in mpvals:
            d["vals"] = [list(r) for r in mpvals[d["name"]]]
    return out


def literalize(node, decls):
    """Replace every parameter by a Constant holding the value recorded in decls."""
    by = {d["name"]: d for d in decls}

    def go(n):
        if not isinstance(n, list) or not n or not isinstance(n[0], str):
            return n
        k = n[0]
        if k == "par":
            return ["const", float(by[n[1]]["val"]), "float"]
        if k == "pel":
            return ["const", float(by[n[1]]["vals"][n[2]]), "float"]
        if k == "vparv":
            return ["arr", [float(v) for v in by[n[1]]["vals"]]]
        if k == "dotP":
            return ["dotQ", go(n[1]), [list(map(float, r)) for r in by[n[2]]["vals"]], go(n[3])]
        return [k] + [go(x) if isinstance(x, list) and x and isinstance(x[0], str) else ([go(y) for y in x] if k == "velems" and isinstance(x, list) else x) for x in n[1:]]

    return go(node)
