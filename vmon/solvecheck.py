"""Oracles over a returned Solution, independent of optyx's own evaluation:
feasibility (C06) and self-consistency (C07)."""
from __future__ import annotations

import math

import numpy as np

from .recipes import ast as A
from .recipes import lpgen as L
from .recipes import ref as R


def elem_pairs(D, rel, alg):
    """reference (lhs_k, rhs_k) per element of a relation (NumPy shape rule)."""
    it = R.Interp(D, alg)

    def side(n):
        if n[0] in A.MATRIX_KINDS:
            m = it.M(n)
            return ("M", (len(m), len(m[0])), [v for row in m for v in row])
        if n[0] in A.VECTOR_KINDS:
            v = it.V(n)
            return ("V", (len(v),), list(v))
        return ("S", (), [it.S(n)])

    lk, lshape, Lh = side(rel[2])
    rk, rshape, Rh = side(rel[3])
    if lk != "S" and rk != "S" and lshape != rshape:
        raise R.ShapeError(f"{lshape} vs {rshape}")
    if rk == "S":
        Rh = Rh * len(Lh)
    if lk == "S" and rk != "S":
        Lh = Lh * len(Rh)
    return list(zip(Lh, Rh))


def feasibility(prob, values, tol_factor=1e-5):
    """Worst scaled violation of constraints and bounds at `values` by the
    reference interpreter.  Returns (ok, worst dict)."""
    D = R.Decls(prob["decls"])
    pt = dict(values)
    for nm in D.all_var_names():
        pt.setdefault(nm, 0.0)
    worst = {"excess": 0.0}
    ok = True
    for k, rel in enumerate(prob.get("constraints", [])):
        alg = R.FloatAlg(pt, D.param_values())
        with np.errstate(all="ignore"):
            pairs = elem_pairs(D, rel, alg)
        for e, (l, r) in enumerate(pairs):
            l, r = float(l), float(r)
            d = l - r
            s = rel[1]
            viol = max(0.0, d) if s == "<=" else (max(0.0, -d) if s == ">=" else abs(d))
            if viol != viol:
                viol = math.inf
            scale = max(1.0, abs(l) + abs(r))
            ex = viol - tol_factor * scale
            if ex > worst["excess"]:
                worst = {"excess": ex, "kind": "constraint", "index": k, "element": e, "relation": A.render(rel), "lhs": l, "rhs": r, "violation": viol}
                ok = False
    info = D.var_info()
    edits = prob.get("bound_edits") or {}
    for nm, v in values.items():
        if nm not in info:
            continue
        lb, ub, _ = info[nm]
        if nm in edits:
            lb, ub = edits[nm]
        scale = max(1.0, abs(v))
        for bound, viol in ((lb, None if lb is None else lb - v), (ub, None if ub is None else v - ub)):
            if viol is None:
                continue
            ex = viol - tol_factor * scale
            if ex > worst["excess"]:
                worst = {"excess": ex, "kind": "bound", "variable": nm, "value": v, "lb": lb, "ub": ub, "violation": viol}
                ok = False
    return ok, worst


def mentioned(prob):
    return L.mentioned_names({"decls": prob["decls"], "objective": prob["objective"], "constraints": prob.get("constraints", [])})


def consistency(prob, P, sol, rec, bad):
    """C07 oracle: objective value and values self-consistent; keys == problem variables."""
    D = R.Decls(prob["decls"])
    names = mentioned(prob)
    if not sol.values or sol.objective_value is None:
        rec.events["no-values-or-no-objective:" + sol.status.value] += 1
        return
    rec.cmp(1, "keys")
    if sorted(sol.values) != sorted(names):
        bad("values-keys-are-not-the-problem-variables", got=sorted(sol.values), want=sorted(names))
        return
    pv = [v.name for v in P.variables]
    if pv != names:
        bad("problem-variables-not-the-mentioned-variables-in-natural-order", got=pv, want=names)
    if not all(isinstance(v, float) and math.isfinite(v) for v in sol.values.values()):
        rec.noncomp["non-finite-values"] += 1
        return
    # every scalar handle (the Variable object, its name) retrieves the returned value through [] and through get(), with and without
    # a default - also a value that is exactly 0.0 (an LP vertex, an active zero bound)
    rec.cmp(1, "handle:scalar-get")
    for v in P.variables:
        val = sol.values[v.name]
        try:
            got = (sol[v], sol[v.name], sol.get(v), sol.get(v.name), sol.get(v, -12345.0), sol.get(v.name, "dflt"))
        except Exception as ex:
            bad("scalar-handle-raises:" + type(ex).__name__, name=v.name, error=repr(ex)[:200])
            break
        rec.events["scalar-handle-reads" + (":value-exactly-zero" if val == 0.0 else "")] += 1
        if any(not (isinstance(g, float) and g == val) for g in got):
            bad("scalar-handle-does-not-retrieve-the-returned-value", name=v.name, value=val, got=[repr(g) for g in got])
            break
    pt = dict(sol.values)
    for nm in D.all_var_names():
        pt.setdefault(nm, 0.0)
    want, t = R.ref_value(D, prob["objective"], pt)
    rec.cmp(1, "objective:" + sol.status.value)
    if not math.isfinite(want) or not t.regular(1e-9, 1e12):
        rec.noncomp["objective-irregular-at-returned-point"] += 1
        return
    d = abs(sol.objective_value - want)
    scale = max(1.0, abs(want), 1e-6 * t.mag)
    if d > 1e-7 * scale:
        # is the objective computable to that accuracy at this point at all?  The reference itself is re-evaluated with every
        # coordinate moved by about one unit in the last place (x (1 +- 2^-50)): where that alone moves the value by more than a
        # tenth of the tolerance (a diverged iterate of size 1e10 under an exponential: cancellation inside the exponent), no
        # evaluation order is "the" value and the comparison is not made
        spread = 0.0
        for sg in (1.0, -1.0):
            try:
                w2, _ = R.ref_value(D, prob["objective"], {k_: v_ * (1.0 + sg * 2.0 ** -50) for k_, v_ in pt.items()})
                spread = max(spread, abs(w2 - want)) if math.isfinite(w2) else float("inf")
            except Exception:
                spread = float("inf")
        if spread > 0.1 * 1e-7 * scale:
            rec.noncomp["objective-ill-conditioned-at-returned-point"] += 1
            return
    rec.disc("objective", d / scale)
    if d > 1e-7 * scale:
        what = "objective-value-inconsistent"
        if abs(sol.objective_value + want) <= 1e-7 * scale and abs(want) > 1e-6:
            what = "objective-value-has-the-wrong-orientation"
        bad(what, got=sol.objective_value, want=want, status=sol.status.value)
