"""vmon - runtime monitors for daggbt/optyx (see /verif/DESIGN.md)."""
