"""./check selftest - validation of the oracle itself (not a property check).

 * every grammar production: reference float value vs 50-digit mpmath evaluation
   of the same recipe (own mpmath algebra);
 * first-order jets vs Richardson-extrapolated central differences of the
   reference value; second-order jets vs central differences of first-order jets;
 * naming model vs the builder (names of every view), natural sort vs a brute
   force comparison;
 * generator determinism per seed.
Never touches optyx semantics except for reading variable names of built views.
"""
from __future__ import annotations

import random

import numpy as np

from . import exprcase as X
from .harness import close
from .recipes import ast as A
from .recipes import build as B
from .recipes import gen as G
from .recipes import ref as R

LEVEL = "other"
BUDGET_S = {"quick": 120, "thorough": 900}
N = {"quick": 120, "thorough": 3000}


def info(tier):
    return {"level": "other", "rule": "self-validation of the reference interpreter", "required_cells": [], "assumptions": []}


class MpAlg:
    """50-digit evaluation (mpmath) of the same algebra interface."""

    def __init__(self, point, params):
        import mpmath

        self.mp = mpmath
        mpmath.mp.dps = 50
        self.point, self.params = point, params

    def const(self, v):
        return self.mp.mpf(float(v))

    def var(self, n):
        return self.mp.mpf(float(self.point[n]))

    def par(self, n):
        return self.mp.mpf(float(self.params[n]))

    def isconst(self, a):
        return False

    def add(self, a, b):
        return a + b

    def sub(self, a, b):
        return a - b

    def mul(self, a, b):
        return a * b

    def div(self, a, b):
        return a / b

    def neg(self, a):
        return -a

    def powc(self, a, c):
        return self.mp.power(a, self.mp.mpf(float(c)))

    def pow(self, a, b):
        return self.mp.power(a, b)

    def fn(self, name, a):
        mp = self.mp
        t = {"sin": mp.sin, "cos": mp.cos, "tan": mp.tan, "exp": mp.exp, "log": mp.log, "log2": lambda z: mp.log(z, 2),
             "log10": mp.log10, "sqrt": mp.sqrt, "abs": abs, "tanh": mp.tanh, "sinh": mp.sinh, "cosh": mp.cosh, "asin": mp.asin,
             "acos": mp.acos, "atan": mp.atan, "asinh": mp.asinh, "acosh": mp.acosh, "atanh": mp.atanh}
        return t[name](a)


def fd_grad(D, node, V, pt, h=1e-4):
    """Richardson-extrapolated central differences of the reference value."""
    g = []
    for nm in V:
        def f(t):
            p = dict(pt)
            p[nm] = pt[nm] + t
            return R.ref_value(D, node, p)[0]

        d1 = (f(h) - f(-h)) / (2 * h)
        d2 = (f(h / 2) - f(-h / 2)) / h
        g.append((4 * d2 - d1) / 3)
    return np.array(g)


def run(ctx, rec):
    rng = ctx.rng
    have_mp = True
    try:
        import mpmath  # noqa: F401
    except Exception:
        have_mp = False
        rec.events["mpmath-missing"] += 1
    cases = list(X.directed_cases(rng, ctx.mine, vrels=["exact"], n_points=1))
    n = 0
    while n < N[ctx.tier]:
        n += 1
        c = X.random_case(rng, n_points=1, margin=0.05, params=(n % 3 == 0))
        if c is not None:
            cases.append(c)
    for c in cases:
        D = R.Decls(c["decls"])
        node, V, pt = c["node"], c["V"], c["points"][0]
        rec.case({"n": node, "d": c["decls"]})
        v, t = R.ref_value(D, node, pt)
        if not t.regular(0.05, 1e4):
            continue
        if have_mp:
            try:
                mv = R.Interp(D, MpAlg(pt, D.param_values())).S(node)
                rec.cmp(1, None)
                if not close(float(mv.real if hasattr(mv, "real") else mv), v, 1e-11, t.mag)[0]:
                    rec.violation("reference-value-differs-from-mpmath", {"show": X.show(c), "float": v, "mp": str(mv)})
            except Exception as ex:
                rec.events["mp-eval-skipped:" + type(ex).__name__] += 1
        j1, _ = R.ref_jet(D, node, V, pt, order=1)
        j2, _ = R.ref_jet(D, node, V, pt, order=2)
        g = fd_grad(D, node, V, pt)
        rec.cmp(len(V), None)
        scale = max(1.0, float(np.max(np.abs(j1.g))) if len(V) else 1.0, t.mag)
        if np.max(np.abs(g - j1.g)) > 2e-6 * scale:
            rec.violation("jet-gradient-differs-from-finite-differences", {"show": X.show(c), "jet": j1.g.tolist(), "fd": g.tolist()})
        if not np.allclose(j1.g, j2.g, rtol=1e-12, atol=1e-12) or abs(float(j1.v) - v) > 1e-12 * max(1, abs(v)):
            rec.violation("order-1-and-order-2-jets-disagree", {"show": X.show(c)})
        if len(V) <= 6:
            h = 1e-5
            H = np.zeros((len(V), len(V)))
            for i, nm in enumerate(V):
                pp, pm = dict(pt), dict(pt)
                pp[nm] += h
                pm[nm] -= h
                gp, _ = R.ref_jet(D, node, V, pp, order=1)
                gm, _ = R.ref_jet(D, node, V, pm, order=1)
                H[i] = (gp.g - gm.g) / (2 * h)
            rec.cmp(len(V) ** 2, None)
            hs = max(1.0, float(np.max(np.abs(j2.H))))
            if np.max(np.abs(H - j2.H)) > 1e-4 * hs:
                rec.violation("jet-hessian-differs-from-differenced-gradients", {"show": X.show(c), "jet": j2.H.tolist(), "fd": H.tolist()})
            if not np.allclose(j2.H, j2.H.T, rtol=1e-10, atol=1e-12):
                rec.violation("jet-hessian-asymmetric", {"show": X.show(c)})
    # naming model vs builder
    from .props.c11 import DV, view_recipes

    D = R.Decls(DV)
    b = B.Builder(DV)
    it = R.Interp(D, R.SetAlg())
    for cell, kind, node in view_recipes():
        obj = b.any(node)
        want = it.vnames(node) if kind == "V" else it.mnames(node)
        got = [v.name for v in obj] if kind == "V" else [[obj[i, j].name for j in range(obj.cols)] for i in range(obj.rows)]
        rec.cmp(1, None)
        if got != want:
            rec.events["naming-model-differs-from-builder:" + cell] += 1  # would be a C11 finding, reported there
    # natural sort: adjacent keys ordered, equal to brute force on small pools
    pool = ["x[10]", "x[2]", "x[1]", "A[1,10]", "A[1,2]", "A[0,11]", "x1", "x10", "x2", "x_2", "a", "b0", "10z", "2z", "z9", "z10"]
    for _ in range(50):
        s = rng.sample(pool, rng.randint(2, len(pool)))
        srt = R.natural_sorted(s)
        rec.cmp(1, None)
        keys = [R.natural_key(x) for x in srt]
        if any(keys[i] > keys[i + 1] for i in range(len(keys) - 1)) or sorted(srt) != sorted(s):
            rec.violation("natural-sort-self-check", {"in": s, "out": srt})
    if R.natural_sorted(["x[10]", "x[9]", "x[1]"]) != ["x[1]", "x[9]", "x[10]"] or R.natural_sorted(["A[1,10]", "A[1,2]", "A[0,3]"]) != ["A[0,3]", "A[1,2]", "A[1,10]"]:
        rec.violation("natural-sort-fixed-examples", {})
    # generator determinism
    a = [A.canon(G.Gen(random.Random(7)).scalar()) for _ in range(3)]
    b2 = [A.canon(G.Gen(random.Random(7)).scalar()) for _ in range(3)]
    rec.cmp(1, None)
    if a != b2:
        rec.violation("generator-not-deterministic", {})
    rec.sample({"selftest": "ok"})


def replay(w, rec):
    rec.inconclusive.append("selftest has no replay")
