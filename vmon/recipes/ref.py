"""Independent reference interpreter for recipes.

Never touches an optyx object.  A recipe (see recipes/ast.py for the grammar)
is evaluated over a pluggable *algebra*:

  FloatAlg  - IEEE float64 values (+ regularity tracking)
  JetAlg    - value, gradient and (optionally) Hessian by forward-mode Taylor
              arithmetic (own implementation)
  FracAlg   - exact rational arithmetic (polynomial identity tests)
  SetAlg    - the set of variable names syntactically occurring
"""
from __future__ import annotations

import math
from fractions import Fraction

import numpy as np

from .ast import MATRIX_KINDS, SCALAR_KINDS, VECTOR_KINDS

# ---------------------------------------------------------------------------
# regularity tracking
# ---------------------------------------------------------------------------


class Track:
    """Minimum distance to a singular set / largest magnitude met."""

    __slots__ = ("margin", "mag", "bad", "dmag")

    def __init__(self):
        self.reset()

    def reset(self):
        self.margin = math.inf
        self.mag = 0.0
        self.dmag = 0.0  # largest derivative magnitude met (jet algebras)
        self.bad = False  # outside the domain (nan produced / negative log...)

    def m(self, v):
        v = float(v)
        if v != v:
            self.bad = True
            self.margin = 0.0
        elif v < self.margin:
            self.margin = v

    def g(self, v):
        v = abs(float(v))
        if v != v or v == math.inf:
            self.bad = True
        elif v > self.mag:
            self.mag = v

    def regular(self, margin=1e-2, mag=1e6):
        return (not self.bad) and self.margin >= margin and self.mag <= mag


class NotRational(Exception):
    pass


class OutOfModel(Exception):
    """The recipe uses something the reference model does not define."""


# ---------------------------------------------------------------------------
# elementary function table: name -> (f, f', f'', margin(a))
# ---------------------------------------------------------------------------

_LN2 = math.log(2.0)
_LN10 = math.log(10.0)


def _t(a):
    return np.tanh(a)


FUNCS = {
    "sin": (np.sin, np.cos, lambda a: -np.sin(a), None),
    "cos": (np.cos, lambda a: -np.sin(a), lambda a: -np.cos(a), None),
    "tan": (
        np.tan,
        lambda a: 1.0 / np.cos(a) ** 2,
        lambda a: 2.0 * np.tan(a) / np.cos(a) ** 2,
        lambda a: abs(np.cos(a)),
    ),
    "exp": (np.exp, np.exp, np.exp, None),
    "log": (np.log, lambda a: 1.0 / a, lambda a: -1.0 / (a * a), lambda a: a),
    "log2": (
        np.log2,
        lambda a: 1.0 / (a * _LN2),
        lambda a: -1.0 / (a * a * _LN2),
        lambda a: a,
    ),
    "log10": (
        np.log10,
        lambda a: 1.0 / (a * _LN10),
        lambda a: -1.0 / (a * a * _LN10),
        lambda a: a,
    ),
    "sqrt": (
        np.sqrt,
        lambda a: 0.5 / np.sqrt(a),
        lambda a: -0.25 / (a * np.sqrt(a)),
        lambda a: a,
    ),
    "abs": (np.abs, np.sign, lambda a: 0.0 * a, lambda a: abs(a)),
    "tanh": (
        np.tanh,
        lambda a: 1.0 - _t(a) ** 2,
        lambda a: -2.0 * _t(a) * (1.0 - _t(a) ** 2),
        None,
    ),
    "sinh": (np.sinh, np.cosh, np.sinh, None),
    "cosh": (np.cosh, np.sinh, np.cosh, None),
    "asin": (
        np.arcsin,
        lambda a: 1.0 / np.sqrt(1.0 - a * a),
        lambda a: a / (1.0 - a * a) ** 1.5,
        lambda a: 1.0 - abs(a),
    ),
    "acos": (
        np.arccos,
        lambda a: -1.0 / np.sqrt(1.0 - a * a),
        lambda a: -a / (1.0 - a * a) ** 1.5,
        lambda a: 1.0 - abs(a),
    ),
    "atan": (
        np.arctan,
        lambda a: 1.0 / (1.0 + a * a),
        lambda a: -2.0 * a / (1.0 + a * a) ** 2,
        None,
    ),
    "asinh": (
        np.arcsinh,
        lambda a: 1.0 / np.sqrt(1.0 + a * a),
        lambda a: -a / (1.0 + a * a) ** 1.5,
        None,
    ),
    "acosh": (
        np.arccosh,
        lambda a: 1.0 / np.sqrt(a * a - 1.0),
        lambda a: -a / (a * a - 1.0) ** 1.5,
        lambda a: a - 1.0,
    ),
    "atanh": (
        np.arctanh,
        lambda a: 1.0 / (1.0 - a * a),
        lambda a: 2.0 * a / (1.0 - a * a) ** 2,
        lambda a: 1.0 - abs(a),
    ),
}

FUNC_NAMES = list(FUNCS)  # the 19 elementary functions minus "neg" (18) + neg handled apart
# functions that the vectorised node kinds (ElementwiseUnary / VectorUnarySum) accept
VEC_FUNCS = ["sin", "cos", "tan", "exp", "log", "abs", "sqrt", "sinh", "cosh", "tanh"]
# API spelling of each function in optyx
API_NAME = {n: n for n in FUNCS}
API_NAME["abs"] = "abs_"


def _is_intlike(c):
    try:
        return float(c) == int(float(c))
    except (OverflowError, ValueError):
        return False


# ---------------------------------------------------------------------------
# Float algebra
# ---------------------------------------------------------------------------


class FloatAlg:
    """float64 evaluation with IEEE semantics and regularity tracking."""

    name = "float"

    def __init__(self, point, params=None, track=None):
        self.point = point
        self.params = params or {}
        self.t = track if track is not None else Track()

    # leaves
    def const(self, v):
        return np.float64(v)

    def var(self, name):
        return np.float64(self.point[name])

    def par(self, name):
        return np.float64(self.params[name])

    def isconst(self, a):
        return False

    # arithmetic
    def add(self, a, b):
        r = a + b
        self.t.g(r)
        return r

    def sub(self, a, b):
        r = a - b
        self.t.g(r)
        return r

    def mul(self, a, b):
        r = a * b
        self.t.g(r)
        return r

    def div(self, a, b):
        self.t.m(abs(b))
        r = np.float64(a) / np.float64(b)
        self.t.g(r)
        return r

    def neg(self, a):
        return -a

    def powc(self, a, c):
        """a ** c with a statically constant exponent c (python number)."""
        c = float(c)
        if not _is_intlike(c):
            self.t.m(a)  # fractional power: needs a > 0 (derivative singular at 0)
        elif c < 0:
            self.t.m(abs(a))
        r = np.power(np.float64(a), np.float64(c))
        self.t.g(r)
        return r

    def pow(self, a, b):
        # general a ** b: defined (with derivatives) for a > 0
        self.t.m(a)
        r = np.power(np.float64(a), np.float64(b))
        self.t.g(r)
        return r

    def fn(self, name, a):
        f, _, _, marg = FUNCS[name]
        if marg is not None:
            self.t.m(marg(a))
        r = f(np.float64(a))
        self.t.g(r)
        return r


# ---------------------------------------------------------------------------
# Jet algebra (value, gradient, Hessian)
# ---------------------------------------------------------------------------


class Jet:
    __slots__ = ("v", "g", "H")

    def __init__(self, v, g, H):
        self.v = v
        self.g = g
        self.H = H


class JetAlg:
    """Forward-mode first/second order Taylor arithmetic w.r.t. ordered names."""

    name = "jet"

    def __init__(self, order, names, point, params=None, track=None):
        assert order in (1, 2)
        self.order = order
        self.names = list(names)
        self.idx = {n: i for i, n in enumerate(self.names)}
        self.n = len(self.names)
        self.point = point
        self.params = params or {}
        self.t = track if track is not None else Track()
        self._zg = np.zeros(self.n)
        self._zH = np.zeros((self.n, self.n)) if order == 2 else None

    def _mk(self, v, g, H):
        self.t.g(v)
        if self.n:
            gm = float(np.max(np.abs(g)))
            if gm == gm and gm != math.inf and gm > self.t.dmag:
                self.t.dmag = gm
            if H is not None:
                hm = float(np.max(np.abs(H)))
                if hm == hm and hm != math.inf and hm > self.t.dmag:
                    self.t.dmag = hm
        return Jet(np.float64(v), g, H)

    def const(self, v):
        return Jet(np.float64(v), self._zg, self._zH)

    def par(self, name):
        return Jet(np.float64(self.params[name]), self._zg, self._zH)

    def var(self, name):
        g = self._zg
        if name in self.idx:
            g = np.zeros(self.n)
            g[self.idx[name]] = 1.0
        return Jet(np.float64(self.point[name]), g, self._zH)

    def isconst(self, a):
        return a.g is self._zg and (a.H is self._zH)

    def add(self, a, b):
        return self._mk(a.v + b.v, a.g + b.g, None if self.order == 1 else a.H + b.H)

    def sub(self, a, b):
        return self._mk(a.v - b.v, a.g - b.g, None if self.order == 1 else a.H - b.H)

    def neg(self, a):
        return Jet(-a.v, -a.g, None if self.order == 1 else -a.H)

    def mul(self, a, b):
        H = None
        if self.order == 2:
            o = np.outer(a.g, b.g)
            H = a.v * b.H + b.v * a.H + o + o.T
        return self._mk(a.v * b.v, a.v * b.g + b.v * a.g, H)

    def _chain(self, a, f0, f1, f2):
        H = None
        if self.order == 2:
            H = f2 * np.outer(a.g, a.g) + f1 * a.H
        return self._mk(f0, f1 * a.g, H)

    def div(self, a, b):
        self.t.m(abs(b.v))
        with np.errstate(all="ignore"):
            r = self._chain(b, 1.0 / b.v, -1.0 / (b.v * b.v), 2.0 / (b.v**3))
        return self.mul(a, r)

    def powc(self, a, c):
        c = float(c)
        if c == 0.0:
            return self.const(1.0)
        if c == 1.0:
            return a
        if not _is_intlike(c):
            self.t.m(a.v)
        elif c < 0:
            self.t.m(abs(a.v))
        with np.errstate(all="ignore"):
            v = np.float64(a.v)
            f0 = np.power(v, c)
            f1 = c * np.power(v, c - 1.0)
            f2 = c * (c - 1.0) * np.power(v, c - 2.0) if c != 2.0 else np.float64(2.0)
        return self._chain(a, f0, f1, f2)

    def pow(self, a, b):
        if self.isconst(b):
            return self.powc(a, b.v)
        # a ** b = exp(b * log a), a > 0
        self.t.m(a.v)
        return self.fn("exp", self.mul(b, self.fn("log", a)))

    def fn(self, name, a):
        f, f1, f2, marg = FUNCS[name]
        if marg is not None:
            self.t.m(marg(a.v))
        with np.errstate(all="ignore"):
            v = np.float64(a.v)
            return self._chain(a, f(v), f1(v), f2(v) if self.order == 2 else 0.0)


# ---------------------------------------------------------------------------
# exact rational algebra
# ---------------------------------------------------------------------------


class FracAlg:
    name = "frac"

    def __init__(self, point, params=None):
        self.point = point
        self.params = params or {}

    @staticmethod
    def _fr(v):
        if isinstance(v, Fraction):
            return v
        f = float(v)
        return Fraction(f)  # exact value of the float

    def const(self, v):
        return self._fr(v)

    def var(self, name):
        return self._fr(self.point[name])

    def par(self, name):
        return self._fr(self.params[name])

    def isconst(self, a):
        return False

    def add(self, a, b):
        return a + b

    def sub(self, a, b):
        return a - b

    def mul(self, a, b):
        return a * b

    def div(self, a, b):
        if b == 0:
            raise NotRational("division by zero")
        return a / b

    def neg(self, a):
        return -a

    def powc(self, a, c):
        if not _is_intlike(c):
            raise NotRational("fractional power")
        c = int(float(c))
        if c < 0 and a == 0:
            raise NotRational("0 ** negative")
        if abs(c) > 64:
            raise NotRational("huge power")
        return a**c

    def pow(self, a, b):
        raise NotRational("variable exponent")

    def fn(self, name, a):
        if name == "abs":
            return abs(a)
        raise NotRational(name)


# ---------------------------------------------------------------------------
# syntactic variable set algebra
# ---------------------------------------------------------------------------

_EMPTY = frozenset()


class SetAlg:
    name = "set"

    def __init__(self):
        pass

    def const(self, v):
        return _EMPTY

    def par(self, name):
        return _EMPTY

    def var(self, name):
        return frozenset((name,))

    def isconst(self, a):
        return False

    def add(self, a, b):
        return a | b

    sub = mul = div = pow = add

    def neg(self, a):
        return a

    def powc(self, a, c):
        return a

    def fn(self, name, a):
        return a


# ---------------------------------------------------------------------------
# naming model (independent of optyx)
# ---------------------------------------------------------------------------


def natural_key(name):
    """Numeric-aware sort key: digit runs compare as integers."""
    out = []
    cur = ""
    isd = None
    for ch in name:
        d = ch.isdigit()
        if isd is None or d == isd:
            cur += ch
        else:
            out.append(cur)
            cur = ch
        isd = d
    out.append(cur)
    # mirror of "split on digit runs": text, number, text, number ...
    key = []
    if name and name[0].isdigit():
        key.append("")
    for p in out:
        key.append(int(p) if p.isdigit() else p)
    if name and name[-1].isdigit():
        key.append("")
    return tuple(key)


def natural_sorted(names):
    return sorted(names, key=natural_key)


class Decls:
    """Declared symbols of a recipe: scalar / vector / matrix variables, parameters."""

    def __init__(self, decls):
        self.decls = list(decls)
        self.by_name = {d["name"]: d for d in self.decls}

    def vec_names(self, name):
        d = self.by_name[name]
        return [f"{name}[{i}]" for i in range(d["n"])]

    def mat_names(self, name):
        d = self.by_name[name]
        r, c = d["r"], d["c"]
        sym = d.get("sym", False)
        rows = []
        for i in range(r):
            row = []
            for j in range(c):
                if sym and j < i:
                    row.append(f"{name}[{j},{i}]")
                else:
                    row.append(f"{name}[{i},{j}]")
            rows.append(row)
        return rows

    def all_var_names(self):
        """Every scalar variable name the declarations create (decl order)."""
        out = []
        for d in self.decls:
            k = d["k"]
            if k == "var":
                out.append(d["name"])
            elif k == "vec":
                out.extend(self.vec_names(d["name"]))
            elif k == "mat":
                for row in self.mat_names(d["name"]):
                    for nm in row:
                        if nm not in out:
                            out.append(nm)
        return out

    def var_info(self):
        """name -> (lb, ub, domain) as declared (binary => [0,1])."""
        info = {}
        for d in self.decls:
            k = d["k"]
            if k not in ("var", "vec", "mat"):
                continue
            lb, ub, dom = d.get("lb"), d.get("ub"), d.get("dom", "continuous")
            if dom == "binary":
                lb, ub = 0.0, 1.0
            if k == "var":
                names = [d["name"]]
            elif k == "vec":
                names = self.vec_names(d["name"])
            else:
                names = [n for row in self.mat_names(d["name"]) for n in row]
            for n in names:
                info[n] = (lb, ub, dom)
        return info

    def param_values(self):
        out = {}
        for d in self.decls:
            if d["k"] == "par":
                out[d["name"]] = float(d["val"])
            elif d["k"] == "vpar":
                for i, v in enumerate(d["vals"]):
                    out[f"{d['name']}[{i}]"] = float(v)
        return out


# ---------------------------------------------------------------------------
# the interpreter
# ---------------------------------------------------------------------------


def _rawval(node):
    """Numeric payload of a raw / const / arr node as python / numpy data."""
    return node[1]


class Interp:
    """Evaluate recipe nodes over an algebra.

    Scalars -> algebra values; vectors -> list of algebra values; matrices ->
    list of lists.  Shape errors raise ShapeError (the reference is NumPy's
    rule: equal shapes, or a scalar operand).
    """

    def __init__(self, decls: Decls, alg, mpars=None):
        self.d = decls
        self.a = alg
        self.mpars = {
            d["name"]: np.asarray(d["vals"], dtype=float)
            for d in decls.decls
            if d["k"] == "mpar"
        }
        if mpars:
            self.mpars.update({k: np.asarray(v, dtype=float) for k, v in mpars.items()})

    # -- scalars -----------------------------------------------------------
    def S(self, n):
        a = self.a
        k = n[0]
        if k == "var":
            return a.var(n[1])
        if k in ("const", "raw"):
            return a.const(float(n[1]))
        if k == "par":
            return a.par(n[1])
        if k == "pel":
            return a.par(f"{n[1]}[{n[2]}]")
        if k == "el":
            nm = self.vnames(n[1])
            if nm is not None:
                return a.var(nm[n[2]])
            v = self.V(n[1])
            return v[n[2]]
        if k == "mel":
            nm = self.mnames(n[1])
            if nm is not None:
                return a.var(nm[n[2]][n[3]])
            m = self.M(n[1])
            return m[n[2]][n[3]]
        if k == "bin":
            op = n[1]
            if op == "**":
                base = self.S(n[2])
                e = n[3]
                if e[0] in ("const", "raw"):
                    return a.powc(base, float(e[1]))
                return a.pow(base, self.S(e))
            x, y = self.S(n[2]), self.S(n[3])
            return self._bin(op, x, y)
        if k == "neg":
            return a.neg(self.S(n[1]))
        if k == "pos":
            return self.S(n[1])
        if k == "fn":
            return a.fn(n[1], self.S(n[2]))
        if k == "sum":
            return self._sum(self.V(n[1]))
        if k in ("dot", "matmul"):
            v, w = self.V(n[1]), self.V(n[2])
            self._same(len(v), len(w), "dot")
            return self._sum([a.mul(x, y) for x, y in zip(v, w)])
        if k == "norm":
            v = self.V(n[1])
            if n[2] == 2:
                return a.fn("sqrt", self._sum([a.mul(x, x) for x in v]))
            if n[2] == 1:
                return self._sum([a.fn("abs", x) for x in v])
            raise OutOfModel("norm order")
        if k == "qf":  # v' Q v
            v = self.V(n[1])
            Q = np.asarray(n[2], dtype=float)
            return self._bilinear(v, Q, v)
        if k == "dotQ":  # v . (Q @ w)
            v, w = self.V(n[1]), self.V(n[3])
            Q = np.asarray(n[2], dtype=float)
            return self._bilinear(v, Q, w)
        if k == "dotP":  # v . (MatrixParameter @ w) with the parameter's *current* value
            v, w = self.V(n[1]), self.V(n[3])
            Q = self.cur_mpar(n[2])
            return self._bilinear(v, Q, w)
        if k == "msum":
            m = self.M(n[1])
            return self._sum([x for row in m for x in row])
        if k == "fro":
            m = self.M(n[1])
            return a.fn("sqrt", self._sum([a.mul(x, x) for row in m for x in row]))
        if k == "trace":
            m = self.M(n[1])
            self._same(len(m), len(m[0]), "trace")
            return self._sum([m[i][i] for i in range(len(m))])
        raise OutOfModel(f"scalar node {k}")

    def cur_mpar(self, name):
        return self.mpars[name]

    def _bilinear(self, v, Q, w):
        a = self.a
        if Q.ndim != 2 or Q.shape[0] != len(v) or Q.shape[1] != len(w):
            raise ShapeError("bilinear form")
        terms = []
        for i in range(len(v)):
            for j in range(len(w)):
                terms.append(a.mul(a.mul(a.const(Q[i, j]), v[i]), w[j]))
        return self._sum(terms) if terms else a.const(0.0)

    def _bin(self, op, x, y):
        a = self.a
        if op == "+":
            return a.add(x, y)
        if op == "-":
            return a.sub(x, y)
        if op == "*":
            return a.mul(x, y)
        if op == "/":
            return a.div(x, y)
        if op == "**":
            return a.pow(x, y)
        raise OutOfModel(op)

    def _sum(self, xs):
        a = self.a
        if not xs:
            return a.const(0.0)
        r = xs[0]
        for x in xs[1:]:
            r = a.add(r, x)
        return r

    @staticmethod
    def _same(m, n, what):
        if m != n:
            raise ShapeError(f"{what}: {m} vs {n}")

    # -- views: names only (lazy: touching x[1] must not need x[0]) --------
    def vnames(self, n):
        """Variable names of a pure view of declared variables, else None."""
        k = n[0]
        if k == "vec":
            return self.d.vec_names(n[1])
        if k == "slice":
            b = self.vnames(n[1])
            if b is None:
                return None
            r = b[slice(n[2], n[3], n[4])]
            if not r:
                raise ShapeError("empty slice")
            return r
        if k in ("row", "col", "rows", "cols", "diag", "diagf"):
            m = self.mnames(n[1])
            if m is None:
                return None
            if k == "row":
                return list(m[n[2]])
            if k == "col":
                return [row[n[2]] for row in m]
            if k in ("rows", "cols"):
                full = list(m[n[2]]) if k == "rows" else [row[n[2]] for row in m]
                r = full[slice(n[3], n[4], n[5])]
                if not r:
                    raise ShapeError("empty slice")
                return r
            self._same(len(m), len(m[0]), "diag")
            return [m[i][i] for i in range(len(m))]
        return None

    def mnames(self, n):
        k = n[0]
        if k == "mat":
            return self.d.mat_names(n[1])
        if k == "T":
            m = self.mnames(n[1])
            if m is None:
                return None
            return [[m[i][j] for i in range(len(m))] for j in range(len(m[0]))]
        if k == "sub":
            m = self.mnames(n[1])
            if m is None:
                return None
            out = [r[slice(n[4], n[5])] for r in m[slice(n[2], n[3])]]
            if not out or not out[0]:
                raise ShapeError("empty submatrix")
            return out
        if k == "dmat":
            v = self.vnames(n[1])
            if v is None or n[1][0] != "vec":
                return None
            vname = n[1][1]
            nn = len(v)
            return [[v[i] if i == j else f"_diag_{vname}[{i},{j}]" for j in range(nn)] for i in range(nn)]
        return None

    # -- vectors -----------------------------------------------------------
    def V(self, n):
        a = self.a
        k = n[0]
        nm = self.vnames(n)
        if nm is not None:
            return [a.var(x) for x in nm]
        if k == "vparv":
            d = self.d.by_name[n[1]]
            return [a.par(f"{n[1]}[{i}]") for i in range(len(d["vals"]))]
        if k == "slice":
            v = self.V(n[1])
            r = v[slice(n[2], n[3], n[4])]
            if not r:
                raise ShapeError("empty slice")
            return r
        if k == "row":
            return list(self.M(n[1])[n[2]])
        if k == "col":
            return [row[n[2]] for row in self.M(n[1])]
        if k in ("diag", "diagf"):
            m = self.M(n[1])
            self._same(len(m), len(m[0]), "diag")
            return [m[i][i] for i in range(len(m))]
        if k in ("arr", "list", "tuple"):
            return [a.const(float(x)) for x in n[1]]
        if k == "vbin":
            v = self.V(n[2])
            return self._vop(n[1], v, n[3], False)
        if k == "vrbin":
            v = self.V(n[3])
            return self._vop(n[1], v, n[2], True)
        if k == "vneg":
            return [a.neg(x) for x in self.V(n[1])]
        if k == "vpow":
            return [a.powc(x, float(n[2])) for x in self.V(n[1])]
        if k == "vfn":
            return [a.fn(n[1], x) for x in self.V(n[2])]
        if k == "mv":  # constant matrix @ vector
            Q = np.asarray(n[1], dtype=float)
            v = self.V(n[2])
            if Q.ndim != 2 or Q.shape[1] != len(v):
                raise ShapeError("matrix @ vector")
            return [
                self._sum([a.mul(a.const(Q[i, j]), v[j]) for j in range(len(v))])
                for i in range(Q.shape[0])
            ]
        if k == "vM":  # vector @ constant 2-D array: NumPy's x @ M = M.T @ x
            Q = np.asarray(n[2], dtype=float)
            v = self.V(n[1])
            if Q.ndim != 2 or Q.shape[0] != len(v):
                raise ShapeError("vector @ matrix")
            return [
                self._sum([a.mul(a.const(Q[i, j]), v[i]) for i in range(len(v))])
                for j in range(Q.shape[1])
            ]
        if k == "Mv":  # matrix variable @ vector
            m = self.M(n[1])
            v = self.V(n[2])
            self._same(len(m[0]), len(v), "matrix @ vector")
            return [
                self._sum([a.mul(m[i][j], v[j]) for j in range(len(v))])
                for i in range(len(m))
            ]
        if k == "velems":  # explicit list of scalar nodes
            return [self.S(e) for e in n[1]]
        raise OutOfModel(f"vector node {k}")

    def _vop(self, op, v, other, reflected):
        """elementwise v (op) other, or other (op) v when reflected."""
        a = self.a
        ok = other[0]
        if ok in SCALAR_KINDS:
            s = self.S(other)
            ws = [s] * len(v)
        else:
            if ok in MATRIX_KINDS:
                raise ShapeError(f"vector {op} 2-D operand")
            ws = self.V(other)
            if len(ws) != len(v):
                if len(ws) == 1:
                    ws = ws * len(v)
                elif len(v) == 1:
                    v = v * len(ws)
                else:
                    raise ShapeError(f"vector {op}: {len(v)} vs {len(ws)}")
        out = []
        for x, y in zip(v, ws):
            if reflected:
                x, y = y, x
            if op == "**" and not reflected and other[0] in ("raw", "const"):
                out.append(a.powc(x, float(other[1])))
            else:
                out.append(self._bin(op, x, y))
        return out

    # -- matrices ----------------------------------------------------------
    def M(self, n):
        a = self.a
        k = n[0]
        nm = self.mnames(n)
        if nm is not None:
            return [[a.var(x) for x in row] for row in nm]
        if k in ("T", "MT"):
            m = self.M(n[1])
            return [[m[i][j] for i in range(len(m))] for j in range(len(m[0]))]
        if k == "sub":
            m = self.M(n[1])
            rows = m[slice(n[2], n[3])]
            out = [r[slice(n[4], n[5])] for r in rows]
            if not out or not out[0]:
                raise ShapeError("empty submatrix")
            return out
        if k == "dmat":
            vname = n[1][1]
            v = self.V(n[1])
            nn = len(v)
            return [
                [v[i] if i == j else a.var(f"_diag_{vname}[{i},{j}]") for j in range(nn)]
                for i in range(nn)
            ]
        if k in ("arr2", "list2"):
            return [[a.const(float(x)) for x in row] for row in n[1]]
        if k == "mbin":
            m = self.M(n[2])
            return self._mop(n[1], m, n[3], False)
        if k == "mrbin":
            m = self.M(n[3])
            return self._mop(n[1], m, n[2], True)
        if k == "mneg":
            return [[a.neg(x) for x in row] for row in self.M(n[1])]
        raise OutOfModel(f"matrix node {k}")

    def _mop(self, op, m, other, reflected):
        a = self.a
        r, c = len(m), len(m[0])
        ok = other[0]
        if ok in ("raw", "const"):
            s = a.const(float(other[1]))
            w = [[s] * c for _ in range(r)]
        else:
            if ok in VECTOR_KINDS:
                raise ShapeError(f"matrix {op} 1-D operand")
            w = self.M(other)
            if (len(w), len(w[0])) != (r, c):
                raise ShapeError(f"matrix {op}: {(r, c)} vs {(len(w), len(w[0]))}")
        out = []
        for i in range(r):
            row = []
            for j in range(c):
                x, y = m[i][j], w[i][j]
                if reflected:
                    x, y = y, x
                if op == "**" and not reflected and ok in ("raw", "const"):
                    row.append(a.powc(x, float(other[1])))
                else:
                    row.append(self._bin(op, x, y))
            out.append(row)
        return out


class ShapeError(Exception):
    pass


# ---------------------------------------------------------------------------
# convenience front-ends
# ---------------------------------------------------------------------------


def ref_value(decls, node, point, params=None, track=None, mpars=None):
    d = decls if isinstance(decls, Decls) else Decls(decls)
    p = d.param_values()
    if params:
        p.update(params)
    alg = FloatAlg(point, p, track)
    with np.errstate(all="ignore"):
        return float(Interp(d, alg, mpars).S(node)), alg.t


def ref_jet(decls, node, names, point, order=1, params=None, track=None, mpars=None):
    d = decls if isinstance(decls, Decls) else Decls(decls)
    p = d.param_values()
    if params:
        p.update(params)
    alg = JetAlg(order, names, point, p, track)
    with np.errstate(all="ignore"):
        j = Interp(d, alg, mpars).S(node)
    return j, alg.t


def ref_vars(decls, node, kind="S"):
    d = decls if isinstance(decls, Decls) else Decls(decls)
    it = Interp(d, SetAlg())
    if kind == "S":
        return set(it.S(node))
    if kind == "V":
        out = set()
        for x in it.V(node):
            out |= x
        return out
    out = set()
    for row in it.M(node):
        for x in row:
            out |= x
    return out


def ref_frac(decls, node, point, params=None):
    d = decls if isinstance(decls, Decls) else Decls(decls)
    p = d.param_values()
    if params:
        p.update(params)
    return Interp(d, FracAlg(point, p)).S(node)


def default_start(lb, ub):
    """The documented default starting point of the nonlinear solver path
    (solve_scipy docstring / _compute_initial_point docstring), re-implemented."""
    flb = lb is not None and math.isfinite(lb)
    fub = ub is not None and math.isfinite(ub)
    if flb and fub:
        eps = max(1e-4, 0.01 * (ub - lb))
        return min(lb + eps, (lb + ub) / 2.0)
    if flb:
        return lb + 1e-4
    if fub:
        return ub - 1.0
    return 0.0
