"""Recipe grammar: JSON-able ASTs in the *user's* vocabulary.

A recipe is {"decls": [...], ...payload...}.  Declarations:

  {"k":"var","name":"x","lb":None,"ub":None,"dom":"continuous"}
  {"k":"vec","name":"x","n":4, lb, ub, dom}
  {"k":"mat","name":"A","r":2,"c":3,"sym":False, lb, ub, dom}
  {"k":"par","name":"p","val":1.5}
  {"k":"vpar","name":"q","vals":[...]}
  {"k":"mpar","name":"P","vals":[[...]],"sym":False}

Scalar nodes (S):
  ["var",name] ["const",v,kind] ["raw",v,kind] ["par",name] ["pel",vpar,i]
  ["el",V,i] ["mel",M,i,j]
  ["bin",op,a,b]   a or b may be ["raw",v,kind] (plain Python / NumPy operand)
  ["neg",a] ["pos",a] ["fn",name,a]
  ["sum",V] ["dot",V,W] ["matmul",V,W] ["norm",V,ord]
  ["qf",V,Q] ["dotQ",V,Q,W] ["dotP",V,mparname,W]
  ["msum",M] ["fro",M] ["trace",M]
Vector nodes (V):
  ["vec",name] ["slice",V,a,b,c] ["row",M,i] ["col",M,j] ["diag",M] ["diagf",M]
  ["arr",[..]] ["list",[..]] ["vparv",name]
  ["vbin",op,V,other] ["vrbin",op,other,V] ["vneg",V] ["vpow",V,k] ["vfn",f,V]
  ["mv",Q,V] ["Mv",M,V] ["velems",[S..]] ["vM",V,Q,form]  (vector @ constant 2-D array)
Matrix nodes (M):
  ["mat",name] ["T",M] ["MT",M] ["sub",M,r0,r1,c0,c1] ["dmat",V]
  ["arr2",[[..]]] ["list2",[[..]]]
  ["mbin",op,M,other] ["mrbin",op,other,M] ["mneg",M]
Constraint: ["rel", sense, lhs, rhs, form]  sense in <=,>=,==; form "direct"|"reflected"
"""
from __future__ import annotations

import hashlib
import json

SCALAR_KINDS = {
    "var", "const", "raw", "par", "pel", "el", "mel", "bin", "neg", "pos", "fn",
    "sum", "dot", "matmul", "norm", "qf", "dotQ", "dotP", "msum", "fro", "trace",
}
VECTOR_KINDS = {
    "vec", "slice", "row", "col", "rows", "cols", "diag", "diagf", "arr", "list", "tuple", "vparv", "vbin",
    "vrbin", "vneg", "vpow", "vfn", "mv", "Mv", "velems", "vM",
}
MATRIX_KINDS = {"mat", "T", "MT", "sub", "dmat", "arr2", "list2", "mbin", "mrbin", "mneg"}

LEAF_KINDS = {"var", "const", "raw", "par", "pel", "vec", "mat", "arr", "list", "tuple", "arr2", "list2", "vparv"}


def canon(obj) -> str:
    return json.dumps(obj, sort_keys=True, separators=(",", ":"), default=_default)


def _default(o):
    import numpy as np

    if isinstance(o, np.generic):
        return o.item()
    if isinstance(o, np.ndarray):
        return o.tolist()
    raise TypeError(type(o))


def sha(obj) -> str:
    return hashlib.sha1(canon(obj).encode()).hexdigest()[:16]


def children(n):
    """Child recipe nodes of a node (lists whose first item is a kind string)."""
    out = []
    for x in n[1:]:
        if isinstance(x, list) and x and isinstance(x[0], str) and (
            x[0] in SCALAR_KINDS or x[0] in VECTOR_KINDS or x[0] in MATRIX_KINDS or x[0] == "rel"
        ):
            out.append(x)
        elif isinstance(x, list) and n[0] == "velems":
            out.extend(x)
    return out


def walk(n):
    stack = [n]
    while stack:
        x = stack.pop()
        yield x
        stack.extend(children(x))


def n_ops(n) -> int:
    """Number of operator (non-leaf) nodes: the non-triviality measure."""
    return sum(1 for x in walk(n) if x[0] not in LEAF_KINDS)


def kinds(n) -> set:
    return {x[0] + (":" + x[1] if x[0] in ("bin", "fn", "vbin", "vrbin", "vfn", "mbin", "mrbin") else "") for x in walk(n)}


# ---------------------------------------------------------------------------
# rendering as the Python a user would type (for evidence samples / replays)
# ---------------------------------------------------------------------------


def _lit(v, kind=None):
    if kind in (None, "int", "float", "bool"):
        return repr(v)
    if kind == "npf64":
        return f"np.float64({v!r})"
    if kind == "npi64":
        return f"np.int64({v!r})"
    if kind == "npf32":
        return f"np.float32({v!r})"
    if kind == "arr0d":
        return f"np.array({v!r})"
    if kind in ("npf16", "npu8", "npi8", "npi16", "npu16"):
        return f"np.{ {'npf16': 'float16', 'npu8': 'uint8', 'npi8': 'int8', 'npi16': 'int16', 'npu16': 'uint16'}[kind] }({v!r})"
    return repr(v)


def render(n) -> str:
    k = n[0]
    if k in ("var", "vec", "mat", "par", "vparv"):
        return n[1]
    if k == "const":
        return f"Constant({_lit(n[1], n[2] if len(n) > 2 else None)})"
    if k == "raw":
        return _lit(n[1], n[2] if len(n) > 2 else None)
    if k == "pel":
        return f"{n[1]}[{n[2]}]"
    if k == "el":
        return f"{render(n[1])}[{n[2]}]"
    if k == "mel":
        return f"{render(n[1])}[{n[2]},{n[3]}]"
    if k == "bin":
        return f"({render(n[2])} {n[1]} {render(n[3])})"
    if k == "neg":
        return f"(-{render(n[1])})"
    if k == "pos":
        return f"(+{render(n[1])})"
    if k in ("fn", "vfn"):
        f = "abs_" if n[1] == "abs" else n[1]
        return f"{f}({render(n[2])})"
    if k == "sum":
        return f"{render(n[1])}.sum()"
    if k == "dot":
        return f"{render(n[1])}.dot({render(n[2])})"
    if k == "matmul":
        return f"({render(n[1])} @ {render(n[2])})"
    if k == "norm":
        return f"norm({render(n[1])}, {n[2]})"
    if k == "qf":
        return f"quadratic_form({render(n[1])}, np.array({n[2]}))"
    if k == "dotQ":
        return f"{render(n[1])}.dot(np.array({n[2]}) @ {render(n[3])})"
    if k == "dotP":
        if len(n) > 4 and n[4] == "quadratic_form":
            return f"quadratic_form({render(n[1])}, {n[2]})"
        if len(n) > 4 and n[4] == "matmul":
            return f"{render(n[1])}.dot(matmul({n[2]}, {render(n[3])}))"
        return f"{render(n[1])}.dot({n[2]} @ {render(n[3])})"
    if k == "msum":
        return f"{render(n[1])}.sum()"
    if k == "fro":
        return f"frobenius_norm({render(n[1])})"
    if k == "trace":
        return f"trace({render(n[1])})"
    if k == "slice":
        a, b, c = n[2], n[3], n[4]
        s = f"{'' if a is None else a}:{'' if b is None else b}"
        if c is not None:
            s += f":{c}"
        return f"{render(n[1])}[{s}]"
    if k == "row":
        return f"{render(n[1])}[{n[2]},:]"
    if k == "col":
        return f"{render(n[1])}[:,{n[2]}]"
    if k in ("rows", "cols"):
        a, b, c = n[3], n[4], n[5]
        sl = f"{'' if a is None else a}:{'' if b is None else b}" + (f":{c}" if c is not None else "")
        return f"{render(n[1])}[{n[2]},{sl}]" if k == "rows" else f"{render(n[1])}[{sl},{n[2]}]"
    if k == "diag":
        return f"{render(n[1])}.diagonal()"
    if k == "diagf":
        return f"diag({render(n[1])})"
    if k in ("arr", "arr2"):
        form = n[2] if len(n) > 2 else None
        if form in (None, "C"):
            return f"np.array({n[1]})"
        if form in ("F", "T", "flipud", "fliplr", "strided"):
            return f"np.array({n[1]})<{form}-layout>"
        return f"np.array({n[1]}, dtype=np.{form})"
    if k in ("list", "list2"):
        return repr(n[1])
    if k == "tuple":
        return repr(tuple(n[1]))
    if k in ("vbin", "mbin"):
        return f"({render(n[2])} {n[1]} {render(n[3])})"
    if k in ("vrbin", "mrbin"):
        return f"({render(n[2])} {n[1]} {render(n[3])})"
    if k in ("vneg", "mneg"):
        return f"(-{render(n[1])})"
    if k == "vpow":
        return f"({render(n[1])} ** {n[2]!r})"
    if k == "mv":
        return f"(np.array({n[1]}) @ {render(n[2])})"
    if k == "Mv":
        return f"({render(n[1])} @ {render(n[2])})"
    if k == "vM":
        if len(n) > 3 and n[3] == "dot":
            return f"{render(n[1])}.dot(np.array({n[2]}))"
        return f"({render(n[1])} @ {'np.array(' + str(n[2]) + ')' if not (len(n) > 3 and n[3] == 'list') else n[2]})"
    if k == "velems":
        return "[" + ", ".join(render(e) for e in n[1]) + "]"
    if k in ("T", "MT"):
        return f"{render(n[1])}.T"
    if k == "sub":
        return f"{render(n[1])}[{n[2]}:{n[3]},{n[4]}:{n[5]}]"
    if k == "dmat":
        return f"diag_matrix({render(n[1])})"
    if k == "rel":
        s, l, r = n[1], n[2], n[3]
        if s == "==":
            return f"{render(l)}.eq({render(r)})"
        if len(n) > 4 and n[4] == "reflected":
            flip = {"<=": ">=", ">=": "<="}[s]
            return f"({render(r)} {flip} {render(l)})"
        return f"({render(l)} {s} {render(r)})"
    return repr(n)


def render_decls(decls) -> str:
    out = []
    for d in decls:
        k = d["k"]
        extra = ""
        for key in ("lb", "ub"):
            if d.get(key) is not None:
                extra += f", {key}={d[key]!r}"
        if d.get("dom", "continuous") != "continuous":
            extra += f", domain={d['dom']!r}"
        if k == "var":
            out.append(f"{d['name']} = Variable({d['name']!r}{extra})")
        elif k == "vec":
            out.append(f"{d['name']} = VectorVariable({d['name']!r}, {d['n']}{extra})")
        elif k == "mat":
            sym = ", symmetric=True" if d.get("sym") else ""
            out.append(f"{d['name']} = MatrixVariable({d['name']!r}, {d['r']}, {d['c']}{extra}{sym})")
        elif k == "par":
            out.append(f"{d['name']} = Parameter({d['name']!r}, {d['val']!r})")
        elif k == "vpar":
            out.append(f"{d['name']} = VectorParameter({d['name']!r}, {len(d['vals'])}, {d['vals']!r})")
        elif k == "mpar":
            out.append(f"{d['name']} = MatrixParameter({d['name']!r}, {d['vals']!r})")
    return "; ".join(out)
