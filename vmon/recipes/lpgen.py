"""Linear models drawn as *data* first and then *written* in a random mix of API
syntaxes.  Ground truth = the drawn data (c, c0, rows, senses, rhs, bounds);
a harness self-check confirms that the written recipe equals the data.

All coefficients are multiples of 1/4 so float arithmetic on them is exact.
"""
from __future__ import annotations

import random
from fractions import Fraction

from . import ref as R

LAYOUTS = ["single-vector", "vector+scalars", "two-vectors", "matrix+vector", "scalars", "big-vector"]


def q(rng, lo=-3, hi=3, nz=False):
    while True:
        v = rng.randint(lo * 4, hi * 4) / 4
        if not nz or v != 0:
            return v


def draw_decls(rng, layout, bounds_mode="mixed"):
    def bnd():
        if bounds_mode == "free":
            return {}
        r = rng.random()
        if bounds_mode == "boxed":
            lb = q(rng, -2, 1)
            return {"lb": lb, "ub": lb + 0.5 + abs(q(rng, 0, 3))}
        if r < 0.3:
            return {}
        if r < 0.55:
            return {"lb": q(rng, -2, 1)}
        if r < 0.7:
            return {"ub": q(rng, 0, 4)}
        if r < 0.76:
            v = q(rng, -1, 2)
            return {"lb": v, "ub": v}
        lb = q(rng, -2, 1)
        return {"lb": lb, "ub": lb + 0.5 + abs(q(rng, 0, 3))}

    d = []

    def dom():
        r = rng.random()
        return {"dom": "binary"} if r < 0.12 else ({"dom": "integer"} if r < 0.2 else {})

    if layout == "single-vector":
        d.append({"k": "vec", "name": "x", "n": rng.randint(2, 5), **bnd()})
    elif layout == "big-vector":
        d.append({"k": "vec", "name": "x", "n": rng.randint(11, 13), **bnd()})
    elif layout == "vector+scalars":
        d.append({"k": "var", "name": rng.choice(["z", "x10", "a"]), **bnd(), **dom()})
        d.append({"k": "vec", "name": "x", "n": rng.randint(2, 4), **bnd(), **dom()})
        if rng.random() < 0.5:
            d.append({"k": "var", "name": rng.choice(["x2", "b", "y_1"]), **bnd()})
    elif layout == "two-vectors":
        d.append({"k": "vec", "name": "y", "n": rng.randint(1, 3), **bnd()})
        d.append({"k": "vec", "name": "x", "n": rng.randint(2, 3), **bnd()})
    elif layout == "matrix+vector":
        d.append({"k": "vec", "name": "w", "n": 2, **bnd()})
        d.append({"k": "mat", "name": "A", "r": 2, "c": rng.randint(2, 3), **bnd()})
    else:
        for nm in rng.sample(["x1", "x10", "x2", "b", "a", "z9", "z10"], rng.randint(2, 4)):
            d.append({"k": "var", "name": nm, **bnd(), **dom()})
    return d


class Writer:
    """Writes affine functions (dict name->coef, const) as recipe nodes."""

    def __init__(self, rng, decls, risky=True):
        self.rng = rng
        self.decls = decls
        self.D = R.Decls(decls)
        self.risky = risky  # include the syntaxes known to stress the extractor
        self.elem = {}  # scalar name -> recipe node denoting that variable
        self.groups = {}  # container name -> [(scalar name, index)]
        for d in decls:
            if d["k"] == "var":
                self.elem[d["name"]] = ["var", d["name"]]
            elif d["k"] == "vec":
                for i, nm in enumerate(self.D.vec_names(d["name"])):
                    self.elem[nm] = ["el", ["vec", d["name"]], i]
            elif d["k"] == "mat":
                for i, row in enumerate(self.D.mat_names(d["name"])):
                    for j, nm in enumerate(row):
                        self.elem[nm] = ["mel", ["mat", d["name"]], i, j]
        self.names = list(self.elem)

    # -- single scalar term c * v ------------------------------------------
    def term(self, name, c):
        """(node, const_contribution) denoting c*v + const_contribution."""
        rng = self.rng
        v = self.elem[name]
        kinds = ["int", "float", "npf64"]

        def lit(val):
            k = rng.choice(kinds)
            if k == "int" and float(val).is_integer():
                return ["raw", int(val), "int"]
            return ["raw", float(val), "float" if k == "int" else k]

        forms = ["c*v", "v*c", "c*v"]
        if c == 1:
            forms += ["v", "v", "v**1"]
        if c == -1:
            forms += ["-v", "-v"]
        if c != 0 and (1 / c) * 4 == int((1 / c) * 4):
            forms += ["v/d"]
        if self.risky:
            forms += ["(c1+c2)*v", "c1*v+c2*v", "c*(v+k)", "(v+k)**1*c", "-(c*v)", "Const*v", "c*v**1"]
            if c > 0 and (c ** 0.5 * 4).is_integer():
                forms += ["(C1+C2)**2*v", "(C1+C2)**2*v"]
        f = rng.choice(forms)
        if f == "c*v":
            return ["bin", "*", lit(c), v], 0.0
        if f == "v*c":
            return ["bin", "*", v, lit(c)], 0.0
        if f == "v":
            return v, 0.0
        if f == "v**1":
            return ["bin", "**", v, ["raw", 1, "int"]], 0.0
        if f == "-v":
            return ["neg", v], 0.0
        if f == "v/d":
            return ["bin", "/", v, lit(1 / c)], 0.0
        if f == "(c1+c2)*v":
            c1 = q(rng, -2, 2)
            return ["bin", "*", ["bin", "+", ["const", c1, "float"], ["const", c - c1, "float"]], v], 0.0
        if f == "c1*v+c2*v":
            c1 = q(rng, -2, 2)
            return ["bin", "+", ["bin", "*", lit(c1), v], ["bin", "*", v, lit(c - c1)]], 0.0
        if f == "(C1+C2)**2*v":
            r_ = c ** 0.5 * rng.choice([1.0, -1.0])
            c1 = q(rng, -2, 2)
            node = ["bin", "**", ["bin", "+", ["const", c1, "float"], ["const", r_ - c1, "float"]], ["raw", 2, "int"]]
            return (["bin", "*", node, v] if rng.random() < 0.5 else ["bin", "*", v, node]), 0.0
        if f == "c*(v+k)":
            k = q(rng, -2, 2)
            return ["bin", "*", lit(c), ["bin", "+", v, lit(k)]], c * k
        if f == "(v+k)**1*c":
            k = q(rng, -2, 2)
            return ["bin", "*", ["bin", "**", ["bin", "+", v, lit(k)], ["raw", 1, "int"]], lit(c)], c * k
        if f == "-(c*v)":
            return ["neg", ["bin", "*", lit(-c), v]], 0.0
        if f == "Const*v":
            return ["bin", "*", ["const", c, "float"], v], 0.0
        if f == "c*v**1":
            return ["bin", "*", lit(c), ["bin", "**", v, ["raw", 1.0, "float"]]], 0.0
        raise AssertionError(f)

    # -- a whole vector / row group -----------------------------------------
    def vector_piece(self, vecnode, names, coefs):
        """Write sum_i coefs[names[i]] * names[i] using vector syntax over the view
        `vecnode` whose element names are `names`.  Returns (node, const)."""
        rng = self.rng
        cs = [coefs.get(nm, 0.0) for nm in names]
        n = len(names)
        forms = ["arr@v", "v@arr", "list@", "mv-el"]
        if len(set(cs)) == 1 and cs[0] != 0:
            forms += ["c*sum", "sum*c", "sum/d"] if cs[0] != 1 else ["sum", "sum", "sum"]
        if self.risky:
            forms += ["arr@(v+b)", "arr@(k*v)", "(v*k)@arr", "consts.dot(v)", "v.dot(consts)", "(v+b).dot(consts)"]
            if len(set(cs)) == 1 and cs[0] != 0:
                forms += ["c*(v**1).sum()", "c*(v*1).sum()"]
            # a number / an array on the LEFT of '-' with a vector *expression* on the right (reflected subtraction), and weights applied
            # to shifted vector expressions through a constant matrix
            forms += ["arr@(b-k*v)", "(b0-k*v)@arr", "(b-M@v)[i]", "(M@(v-s))[i]", "(b-(v+t)).dot(consts)"]
        f = rng.choice(forms)
        if getattr(self, "force", None) in forms:
            f = self.force
        arr = ["arr", cs]
        if all(float(c).is_integer() and 0 <= c < 200 for c in cs) and rng.random() < 0.6:
            # the user's data as an unsigned / narrow integer array (prices, counts): same numbers, another dtype
            arr = ["arr", [int(c) for c in cs], rng.choice(["uint8", "uint16", "uint32", "int8", "int64", "bool_"] if all(c in (0, 1) for c in cs) else ["uint8", "uint16", "uint32", "uint64", "int8", "int16", "int64"])]
        elif all(float(c).is_integer() and abs(c) < 100 for c in cs) and rng.random() < 0.3:
            arr = ["arr", [int(c) for c in cs], rng.choice(["int8", "int16", "int32"])]
        if f == "arr@v":
            return ["matmul", arr, vecnode], 0.0
        if f == "v@arr":
            return ["matmul", vecnode, arr], 0.0
        if f == "list@":
            return ["matmul", vecnode, ["list", cs]], 0.0
        if f == "sum":
            return ["sum", vecnode], 0.0
        if f == "c*sum":
            return ["bin", "*", ["raw", cs[0], "float"], ["sum", vecnode]], 0.0
        if f == "sum*c":
            return ["bin", "*", ["sum", vecnode], ["raw", cs[0], "float"]], 0.0
        if f == "sum/d":
            if (1 / cs[0]) * 4 == int((1 / cs[0]) * 4):
                return ["bin", "/", ["sum", vecnode], ["raw", 1 / cs[0], "float"]], 0.0
            return ["bin", "*", ["raw", cs[0], "float"], ["sum", vecnode]], 0.0
        if f == "c*(v**1).sum()":
            return ["bin", "*", ["raw", cs[0], "float"], ["sum", ["vpow", vecnode, 1]]], 0.0
        if f == "c*(v*1).sum()":
            return ["bin", "*", ["raw", cs[0], "float"], ["sum", ["vbin", "*", vecnode, ["raw", 1.0, "float"]]]], 0.0
        if f == "mv-el":
            rows = rng.randint(1, 3)
            i = rng.randrange(rows)
            M = [[q(rng, -2, 2) for _ in range(n)] for _ in range(rows)]
            M[i] = list(cs)
            if rng.random() < 0.35:
                return ["el", ["mv", M, vecnode, rng.choice(["F", "T", "flipud", "strided"])], i], 0.0
            return ["el", ["mv", M, vecnode], i], 0.0
        if f == "arr@(v+b)":
            if rng.random() < 0.5:
                b = q(rng, -2, 2)
                return ["matmul", arr, ["vbin", "+", vecnode, ["raw", b, "float"]]], sum(cs) * b
            bs = [q(rng, -2, 2) for _ in range(n)]
            return ["matmul", arr, ["vbin", "-", vecnode, ["arr", bs]]], -sum(c * b for c, b in zip(cs, bs))
        if f == "arr@(k*v)":
            k = rng.choice([2.0, 0.5, -1.0, 4.0])
            return ["matmul", ["arr", [c / k for c in cs]], ["vrbin", "*", ["raw", k, "float"], vecnode]], 0.0
        if f == "(v*k)@arr":
            k = rng.choice([2.0, 0.5, -1.0, 4.0])
            return ["matmul", ["vbin", "*", vecnode, ["raw", k, "float"]], ["arr", [c / k for c in cs]]], 0.0
        if f == "arr@(b-k*v)":
            k = rng.choice([2.0, 0.5, -1.0, 4.0])
            bs = [q(rng, -2, 2) for _ in range(n)]
            # (-c/k) . (b - k v) = c.v - (c.b)/k
            return ["matmul", ["arr", [-c / k for c in cs]], ["vrbin", "-", ["arr", bs], ["vbin", "*", vecnode, ["raw", k, "float"]]]], -sum(c * b for c, b in zip(cs, bs)) / k
        if f == "(b0-k*v)@arr":
            k = rng.choice([2.0, 0.5, -1.0, 4.0])
            b0 = q(rng, -2, 2, nz=True)
            return ["matmul", ["vrbin", "-", ["raw", b0, "float"], ["vrbin", "*", ["raw", k, "float"], vecnode]], ["arr", [-c / k for c in cs]]], -sum(cs) * b0 / k
        if f == "(b-M@v)[i]":
            rows = rng.randint(1, 3)
            i = rng.randrange(rows)
            M = [[q(rng, -2, 2) for _ in range(n)] for _ in range(rows)]
            M[i] = [-c for c in cs]
            bs = [q(rng, -2, 2, nz=True) for _ in range(rows)]
            return ["el", ["vrbin", "-", [rng.choice(["arr", "list"]), bs], ["mv", M, vecnode]], i], bs[i]
        if f == "(M@(v-s))[i]":
            rows = rng.randint(1, 3)
            i = rng.randrange(rows)
            M = [[q(rng, -2, 2) for _ in range(n)] for _ in range(rows)]
            M[i] = list(cs)
            ss = [q(rng, -2, 2) for _ in range(n)]
            return ["el", ["mv", M, ["vbin", "-", vecnode, ["arr", ss]]], i], -sum(c * t for c, t in zip(cs, ss))
        consts = ["velems", [["const", float(c), "float"] for c in cs]]
        if f == "(b-(v+t)).dot(consts)":
            b0 = q(rng, -2, 2, nz=True)
            t = q(rng, -2, 2)
            # (b0 - (v + t)) . (-c) = c.v + (t - b0) sum(c)
            return ["dot", ["vrbin", "-", ["raw", b0, "float"], ["vbin", "+", vecnode, ["raw", t, "float"]]], ["velems", [["const", float(-c), "float"] for c in cs]]], (t - b0) * sum(cs)
        if f == "consts.dot(v)":
            return ["dot", consts, vecnode], 0.0
        if f == "v.dot(consts)":
            return ["dot", vecnode, consts], 0.0
        if f == "(v+b).dot(consts)":
            b = q(rng, -2, 2)
            return ["dot", ["vbin", "+", vecnode, ["raw", b, "float"]], consts], sum(cs) * b
        raise AssertionError(f)

    def views(self):
        """Candidate (vecnode, names) views over the declared containers."""
        out = []
        for d in self.decls:
            if d["k"] == "vec":
                nm = self.D.vec_names(d["name"])
                out.append((["vec", d["name"]], nm))
                if d["n"] >= 3:
                    a = self.rng.randint(0, d["n"] - 2)
                    b = self.rng.randint(a + 2, d["n"])
                    out.append((["slice", ["vec", d["name"]], a, b, None], nm[a:b]))
                    out.append((["slice", ["vec", d["name"]], None, None, -1], nm[::-1]))
                    # stepped views with the start / stop of the contiguous one: different element sets under ONE generated name
                    st = self.rng.choice([2, 3])
                    out.append((["slice", ["vec", d["name"]], a, b, st], nm[a:b:st]))
                    out.append((["slice", ["vec", d["name"]], None, None, -2], nm[::-2]))
            elif d["k"] == "mat":
                mn = self.D.mat_names(d["name"])
                for i in range(d["r"]):
                    out.append((["row", ["mat", d["name"]], i], list(mn[i])))
                for j in range(d["c"]):
                    out.append((["col", ["mat", d["name"]], j], [r[j] for r in mn]))
                if d["c"] >= 3:
                    i = self.rng.randrange(d["r"])
                    out.append((["rows", ["mat", d["name"]], i, 1, None, None], list(mn[i][1:])))
                    out.append((["rows", ["mat", d["name"]], i, None, None, -1], list(mn[i][::-1])))
        return out

    def pure_piece(self, vecnode, names, coefs):
        """sum_i coefs[names[i]] * names[i] written as ONE vector node over the view and nothing else (the expression root is the
        vector node itself).  Returns (node, const)."""
        cs = [coefs.get(nm, 0.0) for nm in names]
        f = self.rng.choice(["arr@v", "v@arr", "list@", "v.dot(list)", "consts.dot(v)"] + (["sum"] if set(cs) == {1.0} else []))
        arr = ["arr", cs]
        if all(float(c).is_integer() and 0 <= c < 200 for c in cs) and self.rng.random() < 0.7:
            arr = ["arr", [int(c) for c in cs], self.rng.choice(["uint8", "uint16", "uint32", "uint64"])]
        if f == "arr@v":
            return ["matmul", arr, vecnode], 0.0
        if f == "v@arr":
            return ["matmul", vecnode, arr], 0.0
        if f == "list@":
            return ["matmul", vecnode, ["list", cs]], 0.0
        if f == "v.dot(list)":
            return ["dot", vecnode, ["list", cs]], 0.0
        if f == "sum":
            return ["sum", vecnode], 0.0
        return ["dot", ["velems", [["const", float(c), "float"] for c in cs]], vecnode], 0.0

    # -- whole affine function ---------------------------------------------
    def affine(self, coefs, const, mention_all=False, _nested=False):
        """Recipe node denoting sum coefs[n]*n + const."""
        rng = self.rng
        coefs = {k: v for k, v in coefs.items() if v != 0 or mention_all}
        pieces = []
        rest = dict(coefs)
        residual = const
        # vector-syntax pieces
        views = self.views()
        rng.shuffle(views)
        for vecnode, names in views[:2]:
            if rng.random() < 0.6 and any(nm in rest for nm in names):
                sub = {nm: rest.pop(nm, 0.0) for nm in names}
                if self.risky and rng.random() < 0.3:
                    # the same variables reached through several terms: a @ v + b @ v, and a scalar term next to the vector term
                    # (coefficients accumulate; the order of the terms must not matter)
                    part = {nm: q(rng, -2, 2) for nm in names}
                    node1, k1 = self.vector_piece(vecnode, names, part)
                    pieces.append(node1)
                    residual -= k1
                    sub = {nm: sub[nm] - part[nm] for nm in names}
                    nm0 = rng.choice(names)
                    extra = q(rng, -2, 2, nz=True)
                    node0, k0 = self.term(nm0, extra)
                    pieces.append(node0)
                    residual -= k0
                    sub[nm0] -= extra
                node, k = self.vector_piece(vecnode, names, sub)
                pieces.append(node)
                residual -= k
        for nm, c in rest.items():
            node, k = self.term(nm, c)
            pieces.append(node)
            residual -= k
        if self.risky and rng.random() < 0.15 and self.names:
            # a v**0 term contributes the constant 1 * k
            k = q(rng, -2, 2, nz=True)
            v = self.elem[rng.choice(self.names)]
            pieces.append(["bin", "*", ["raw", k, "float"], ["bin", "**", v, ["raw", 0, "int"]]])
            residual -= k
        if self.risky and rng.random() < 0.08 and views:
            # a constant spelled as (view ** 0).sum() = number of elements
            vn, nms = rng.choice(views)
            k = q(rng, -2, 2, nz=True)
            pieces.append(["bin", "*", ["raw", k, "float"], ["sum", ["vpow", vn, 0]]])
            residual -= k * len(nms)
        if self.risky and rng.random() < 0.12:
            # a constant spelled as a power of a constant sub-expression: (1 + rate) ** 2
            a_, b_ = q(rng, -2, 2), q(rng, -1, 2)
            k_ = rng.choice([2, 2, 3])
            pieces.append(["bin", "**", ["bin", "+", ["const", a_, "float"], ["const", b_, "float"]], ["raw", k_, "int"]])
            residual -= (a_ + b_) ** k_
        if self.risky and rng.random() < 0.1:
            # a constant spelled as a quadratic form / dot product of constant vectors
            a_, b_ = q(rng, -2, 2), q(rng, -2, 2)
            cv = ["velems", [["const", 1.0, "float"], ["const", 2.0, "float"]]]
            if rng.random() < 0.5:
                pieces.append(["qf", cv, [[a_, 0.0], [0.0, b_]]])
                residual -= a_ + 4.0 * b_
            else:
                pieces.append(["dot", cv, ["velems", [["const", a_, "float"], ["const", b_, "float"]]]])
                residual -= a_ + 2.0 * b_
        if residual != 0 or not pieces or rng.random() < 0.2:
            if residual != 0 and rng.random() < 0.3:
                k1 = q(rng, -2, 2)
                pieces.append(["raw" if pieces else "const", k1, "float"])
                residual -= k1
            kind = rng.choice(["int", "float", "npf64"]) if float(residual).is_integer() else rng.choice(["float", "npf64"])
            val = int(residual) if kind == "int" else float(residual)
            pieces.append(["raw" if pieces else "const", val, kind])
        rng.shuffle(pieces)
        # the accumulator must start with an expression (raw constants cannot start a chain alone)
        for i, p in enumerate(pieces):
            if p[0] != "raw":
                pieces.insert(0, pieces.pop(i))
                break
        else:
            pieces[0] = ["const", pieces[0][1], pieces[0][2]]
        acc = pieces[0]
        for p in pieces[1:]:
            r = rng.random()
            if r < 0.7:
                acc = ["bin", "+", acc, p]
            elif r < 0.85:
                acc = ["bin", "+", p, acc]
            else:
                # a - (-p)
                negp = ["neg", p] if p[0] != "raw" else ["raw", -p[1], p[2]]
                acc = ["bin", "-", acc, negp]
        if self.risky and not _nested and rng.random() < 0.12:
            # the whole function written as (k * f) / k with the constant term inside the quotient: (x + y + 4) / 2
            k = rng.choice([2.0, 4.0, -2.0, 0.5])
            inner = self.affine({n_: v_ * k for n_, v_ in coefs.items()}, const * k, mention_all=mention_all, _nested=True)
            return ["bin", "/", inner, ["raw", k, "float"]] if rng.random() < 0.7 else ["bin", "*", inner, ["raw", 1.0 / k, "float"]]
        return acc


def deep_affine(W, rng, coefs, const, nterms=405):
    """sum coefs[n]*n + const written as a term-by-term accumulation of >= nterms scalar terms (beyond the depth at which optyx
    switches to its iterative algorithms): every coefficient is split into exact pieces, cancelling pairs +k*v, -k*v fill up."""
    terms = []
    for nm, c in coefs.items():
        if c == 0:
            continue
        k = rng.choice([1, 2, 3])
        base = int(c * 4 / k) / 4.0
        for _ in range(k - 1):
            terms.append((nm, base))
        terms.append((nm, c - base * (k - 1)))
    names = list(coefs) or W.names
    while len(terms) < nterms:
        nm = rng.choice(names)
        kk = rng.choice([0.25, 0.5, 1.0, 2.0])
        terms.append((nm, kk))
        terms.append((nm, -kk))
    rng.shuffle(terms)
    # some variables are mentioned ONLY through operands that are not plain products: a negation, a bare variable, a vector node
    special = set(rng.sample(sorted({nm for nm, _ in terms}), max(1, len({nm for nm, _ in terms}) // 3)))
    views = [(vn, nms) for vn, nms in W.views() if len(nms) >= 2]
    acc = None
    extra_terms = []
    if views and rng.random() < 0.7:
        # one whole view enters through a vector node (w @ view / view.sum()), compensated exactly by scalar terms elsewhere
        vn, nms = rng.choice(views)
        if rng.random() < 0.5:
            extra_terms.append((["sum", vn], {nm: 1.0 for nm in nms}))
        else:
            ws = [float(rng.randint(1, 3)) for _ in nms]
            extra_terms.append((["matmul", ["arr", ws], vn], dict(zip(nms, ws))))
        for node_, cf in extra_terms:
            for nm, w_ in cf.items():
                if nm in special:
                    # the compensation uses a negation operand so that the variable never occurs inside a plain product
                    terms.append((nm, -w_))
                else:
                    terms.append((nm, -w_))
    for nm, c in terms:
        v = W.elem[nm]
        if nm in special:
            # c * v spelled as a negation operand: -((-c) * v), -v
            op_node = ["neg", v] if c == -1 else ["neg", ["bin", "*", ["raw", -c, "float"], v]]
        else:
            op_node = ["bin", "*", ["raw", c, "float"], v] if rng.random() < 0.8 else ["bin", "*", v, ["raw", c, "float"]]
        if acc is None:
            acc = op_node if op_node[0] == "bin" else ["bin", "+", ["bin", "*", ["raw", 0.0, "float"], W.elem[terms[0][0]]], op_node]
            continue
        if nm in special or rng.random() < 0.7:
            acc = ["bin", "+", acc, op_node]
        else:
            acc = ["bin", "-", acc, ["bin", "*", ["raw", -c, "float"], v]]
    for node_, _cf in extra_terms:
        acc = ["bin", "+", acc, node_]
    if const != 0 or rng.random() < 0.3:
        acc = ["bin", "+", acc, ["raw", float(const), "float"]]
    return acc


def draw_lp(rng, layout=None, kind="any", risky=True, max_rows=5, tiny_rows=False, deep_objective=False):
    """A linear model as data + its written recipe.
    tiny_rows: some general rows are multiplied by 2**-30 (coefficients and right-hand side; exact) - legitimate small-unit rows;
    deep_objective: the objective is written as an accumulation of 400+ scalar terms."""
    layout = layout or rng.choice(LAYOUTS)
    bounds_mode = {"optimal": "boxed", "unbounded": "free"}.get(kind, "mixed")
    decls = draw_decls(rng, layout, bounds_mode)
    W = Writer(rng, decls, risky=risky)
    names = list(W.names)
    sense = rng.choice(["min", "max"])
    c = {nm: (q(rng, -3, 3) if rng.random() < 0.85 else 0.0) for nm in names}
    if all(v == 0 for v in c.values()):
        c[names[0]] = 1.0
    c0 = q(rng, -3, 3) if rng.random() < 0.6 else 0.0
    rows = []
    cons = []
    # kind "optimal": all rows are made to hold at a drawn point x* inside the (boxed) bounds,
    # so the model is feasible and bounded by construction
    feas = None
    if kind == "optimal":
        info = W.D.var_info()
        feas = {}
        for nm in names:
            lb, ub, _ = info[nm]
            lo = lb if lb is not None else -2.0
            hi = ub if ub is not None else lo + 3.0
            feas[nm] = lo + int((hi - lo) * 4 * rng.random()) / 4

    def fix_rhs(coef, s, rhs):
        if feas is None:
            return rhs
        at = sum(v * feas[nm] for nm, v in coef.items())
        slack = abs(q(rng, 0, 2)) if rng.random() < 0.7 else 0.0
        return at + slack if s == "<=" else (at - slack if s == ">=" else at)

    # "pure view" models: the objective and every constraint are each ONE vector node over a view of one container (views that share a
    # generated name but not their elements, full views in reversed order, partial rows): nothing else mentions the variables
    pure = bool(W.views()) and rng.random() < 0.22
    if pure:
        container = rng.choice([d for d in decls if d["k"] in ("vec", "mat")])
        def base_name(vn):
            return vn[1] if vn[0] in ("vec", "mat") else base_name(vn[1])

        fam = [(vn, nms) for vn, nms in W.views() + W.views() if base_name(vn) == container["name"]]
        fam = [(vn, nms) for vn, nms in fam if nms]
        if container["k"] == "vec" and rng.random() < 0.35:
            # every expression over the SAME whole-vector object (the variable-discovery shortcut for single-vector models)
            fam = [(vn, nms) for vn, nms in fam if vn[0] == "vec"]
        ov = rng.choice(fam)
        c = {nm: 0.0 for nm in names}
        for nm in ov[1]:
            c[nm] = q(rng, -3, 3, nz=True)
        if len(ov[1]) > 1 and rng.random() < 0.5:
            # strictly monotone weights: never a palindrome
            for k_, nm in enumerate(ov[1]):
                c[nm] = 0.5 + 0.75 * k_
        elif rng.random() < 0.5:
            # counts / prices: small non-negative integers (written as unsigned arrays by pure_piece)
            for k_, nm in enumerate(ov[1]):
                c[nm] = float(rng.randint(1, 9))
        c0 = 0.0
        pure_obj, _k = W.pure_piece(ov[0], ov[1], c)
        for _ in range(rng.randint(1, 4)):
            rv = rng.choice(fam)
            coef = {nm: q(rng, -3, 3, nz=True) for nm in rv[1]}
            if rng.random() < 0.5:
                coef = {nm: float(rng.randint(1, 7)) for nm in rv[1]}
            s_ = rng.choice(["<=", ">=", "<=", ">=", "=="])
            rhs = fix_rhs(coef, s_, q(rng, -4, 6))
            lhs, _k = W.pure_piece(rv[0], rv[1], coef)
            cons.append(["rel", s_, lhs, ["raw", float(rhs), "float"], "direct"])
            rows.append({"coef": coef, "sense": s_, "rhs": rhs})
    m = rng.randint(0 if kind != "infeasible" else 1, max_rows) if not pure else 0
    for _ in range(m):
        r = rng.random()
        if not W.views():
            r = 0.0
        if r < 0.7:
            # general row
            k = rng.randint(1, min(len(names), 4))
            coef = {nm: q(rng, -3, 3, nz=True) for nm in rng.sample(names, k)}
            s = rng.choice(["<=", ">=", "<=", ">=", "=="])
            rhs = fix_rhs(coef, s, q(rng, -4, 6))
            # split into  L(x) + kl  (s)  Rr(x) + kr
            if rng.random() < 0.5:
                Rc, kl = {}, 0.0
                if rng.random() < 0.4:
                    kl = q(rng, -2, 2)
            else:
                Rc = {nm: q(rng, -2, 2, nz=True) for nm in rng.sample(names, rng.randint(1, min(2, len(names))))}
                kl = q(rng, -2, 2)
            Lc = dict(coef)
            for nm, v in Rc.items():
                Lc[nm] = Lc.get(nm, 0.0) + v
            lhs = W.affine(Lc, kl, mention_all=True)
            if Rc:
                rhs_node = W.affine(Rc, rhs + kl)
            else:
                val = rhs + kl
                kd = rng.choice(["int", "float", "npf64", "npi64"]) if float(val).is_integer() else rng.choice(["float", "npf64"])
                rhs_node = ["raw", int(val) if kd in ("int", "npi64") else float(val), kd]
            form = "reflected" if (rng.random() < 0.25 and s != "==") else "direct"
            if form == "reflected" and rhs_node[0] == "raw":
                form = "direct"
            if tiny_rows and rng.random() < 0.4:
                ts = 2.0 ** -30
                rhs_all = rhs_node if rhs_node[0] != "raw" else ["raw", float(rhs_node[1]), "float"]
                cons.append(["rel", s, ["bin", "*", ["raw", ts, "float"], lhs],
                             (["bin", "*", rhs_all, ["raw", ts, "float"]] if rhs_all[0] != "raw" else ["raw", float(rhs_all[1]) * ts, "float"]), "direct"])
                rows.append({"coef": {nm: v * ts for nm, v in coef.items()}, "sense": s, "rhs": rhs * ts, "scale": ts})
            else:
                cons.append(["rel", s, lhs, rhs_node, form])
                rows.append({"coef": coef, "sense": s, "rhs": rhs})
        elif r < 0.88:
            # element-wise vector constraint  view (s) scalar | array
            vecnode, vnames = rng.choice(W.views())
            s = rng.choice(["<=", ">=", "=="]) if rng.random() < 0.8 else "<="
            if rng.random() < 0.5 and feas is None:
                val = q(rng, -2, 4)
                rhs_node = ["raw", val, "float"]
                vals = [val] * len(vnames)
            else:
                vals = [fix_rhs({nm: 1.0}, s, q(rng, -2, 4)) for nm in vnames]
                rhs_node = [rng.choice(["arr", "list"]), vals]
            cons.append(["rel", s, vecnode, rhs_node, "direct"])
            for nm, v in zip(vnames, vals):
                rows.append({"coef": {nm: 1.0}, "sense": s, "rhs": v})
        else:
            # matrix-vector block  M @ view (s) array
            vecnode, vnames = rng.choice(W.views())
            k = rng.randint(1, 3)
            M = [[q(rng, -2, 2) for _ in vnames] for _ in range(k)]
            s = rng.choice(["<=", ">=", "=="])
            bs = [fix_rhs({nm: cf for nm, cf in zip(vnames, row)}, s, q(rng, -2, 5)) for row in M]
            if rng.random() < 0.3:
                M = [[float(abs(int(v * 2))) for v in row] for row in M]
                bs = [fix_rhs({nm: cf for nm, cf in zip(vnames, row)}, s, q(rng, -2, 5)) for row in M]
                cons.append(["rel", s, ["mv", [[int(v) for v in row] for row in M], vecnode, rng.choice(["uint8", "uint16", "int8"])], ["arr", bs], "direct"])
            else:
                cons.append(["rel", s, ["mv", M, vecnode], ["arr", bs], "direct"])
            for row, bv in zip(M, bs):
                rows.append({"coef": {nm: cf for nm, cf in zip(vnames, row)}, "sense": s, "rhs": bv})
    if kind == "infeasible":
        # Farkas-style contradiction: a.x <= b  and  a.x >= b + gap
        k = rng.randint(1, min(len(names), 3))
        coef = {nm: q(rng, -3, 3, nz=True) for nm in rng.sample(names, k)}
        bv = q(rng, -2, 2)
        gap = abs(q(rng, 1, 3, nz=True))
        for s, rv in (("<=", bv), (">=", bv + gap)):
            cons.append(["rel", s, W.affine(coef, 0.0, mention_all=True), ["raw", rv, "float"], "direct"])
            rows.append({"coef": dict(coef), "sense": s, "rhs": rv})
    if deep_objective and not pure:
        obj = deep_affine(W, rng, c, c0, nterms=rng.choice([402, 420, 450]))
    else:
        obj = pure_obj if pure else W.affine(c, c0, mention_all=(rng.random() < 0.3))
    # bounds assigned on the Variable objects after construction (v.lb = ..., v.ub = ...): fixing a binary decision at 0 / 1,
    # tightening a box.  Ground truth = the edited bounds.
    bound_edits = {}
    if kind in ("any", "optimal") and rng.random() < 0.35:
        info2 = R.Decls(decls).var_info()
        for nm in rng.sample(names, rng.randint(1, min(2, len(names)))):
            lb, ub, dom = info2[nm]
            if dom == "binary":
                v = float(rng.choice([0, 1]))
                if feas is not None:
                    v = float(min(1.0, max(0.0, round(feas[nm]))))
                    if abs(v - feas[nm]) > 1e-12:
                        continue
                bound_edits[nm] = [v, v]
            elif feas is not None:
                bound_edits[nm] = [feas[nm] - 0.25, feas[nm] + 0.5]
            else:
                lo = lb if lb is not None else -1.0
                bound_edits[nm] = [lo, lo + 1.0 + abs(q(rng, 0, 2))]
    return {
        "bound_edits": bound_edits,
        "decls": decls,
        "layout": layout + ("/pure-views" if pure else "") + ("/deep-objective" if deep_objective and not pure else ""),
        "kind": kind,
        "c": c,
        "c0": c0,
        "sense": sense,
        "rows": rows,
        "objective": obj,
        "constraints": cons,
    }


# every vector spelling of the writer, for the directed sweeps (forced one at a time through Writer.force)
VECTOR_FORMS = ["arr@v", "v@arr", "list@", "mv-el", "c*sum", "sum*c", "sum/d", "arr@(v+b)", "arr@(k*v)", "(v*k)@arr", "consts.dot(v)", "v.dot(consts)",
                "(v+b).dot(consts)", "c*(v**1).sum()", "c*(v*1).sum()", "arr@(b-k*v)", "(b0-k*v)@arr", "(b-M@v)[i]", "(M@(v-s))[i]", "(b-(v+t)).dot(consts)"]
BLOCK_FORMS = ["b-M@v", "M@(v-s)", "b0-k*v", "X-vs-array", "k*X-c-vs-array", "array-vs-X"]


def form_lp(rng, form, sense, bare_objective=False):
    """A small LP whose single general constraint (or, with bare_objective, whose whole objective) is ONE vector node written in the
    spelling `form`, and whose optimum lies on that constraint (the objective pushes against it inside a box): a wrong constant, sign or
    coefficient of the extracted row moves the returned point off the written constraint.  Same record layout as draw_lp."""
    n = rng.randint(2, 4)
    decls = [{"k": "vec", "name": "x", "n": n, "lb": 0.0, "ub": 6.0}]
    W = Writer(rng, decls, risky=True)
    names = list(W.names)
    equal = form in ("c*sum", "sum*c", "sum/d", "c*(v**1).sum()", "c*(v*1).sum()")
    k0 = rng.choice([1.0, 2.0, 0.5, 4.0])
    coef = {nm: (k0 if equal else abs(q(rng, 1, 3, nz=True))) for nm in names}
    W.force = form
    node, const = W.vector_piece(["vec", "x"], names, coef)
    W.force = None
    feas = {nm: 1.0 + int(8 * rng.random()) / 4 for nm in names}
    at = sum(coef[nm] * feas[nm] for nm in names)
    if bare_objective:
        # the whole objective is the node (constant included); one plain row keeps it bounded
        sense_o = rng.choice(["min", "max"])
        rows = [{"coef": {nm: 1.0 for nm in names}, "sense": "<=", "rhs": sum(feas.values()) + 1.0}]
        cons = [["rel", "<=", ["sum", ["vec", "x"]], ["raw", rows[0]["rhs"], "float"], "direct"]]
        return {"bound_edits": {}, "decls": decls, "layout": "form-sweep/objective:" + form, "kind": "optimal", "c": dict(coef), "c0": const, "sense": sense_o,
                "rows": rows, "objective": node, "constraints": cons}
    # node = coef.x + const ;  written as  node (s) at + const
    rhs_written = at + const
    obj_sense = {"<=": "max", ">=": "min", "==": rng.choice(["min", "max"])}[sense]
    c = {nm: 1.0 + 0.25 * i for i, nm in enumerate(names)}
    obj = None
    for nm, v in c.items():
        t = ["bin", "*", ["raw", v, "float"], W.elem[nm]]
        obj = t if obj is None else ["bin", "+", obj, t]
    rows = [{"coef": dict(coef), "sense": sense, "rhs": at}]
    cons = [["rel", sense, node, ["raw", rhs_written, "float"], "direct"]]
    return {"bound_edits": {}, "decls": decls, "layout": "form-sweep:" + form, "kind": "optimal", "c": c, "c0": 0.0, "sense": obj_sense,
            "rows": rows, "objective": obj, "constraints": cons}


def block_lp(rng, form, sense):
    """Like form_lp for element-wise *blocks*: a vector / matrix constraint producing several rows at once (array minus matrix-vector
    product, matrix variable against a non-symmetric array, ...)."""
    if form in ("X-vs-array", "k*X-c-vs-array", "array-vs-X"):
        r_, c_ = rng.choice([(2, 2), (3, 3), (2, 3), (3, 2)])
        decls = [{"k": "mat", "name": "X", "r": r_, "c": c_, "lb": 0.0, "ub": 8.0}]
        W = Writer(rng, decls, risky=True)
        names = list(W.names)
        U = [[1.0 + ((3 * i + 5 * j + i * j) % 7) * 0.5 for j in range(c_)] for i in range(r_)]  # not symmetric
        X = ["mat", "X"]
        if form == "X-vs-array":
            cons = [["rel", sense, X, ["arr2", U], "direct"]]
            rows = [{"coef": {W.D.mat_names("X")[i][j]: 1.0}, "sense": sense, "rhs": U[i][j]} for i in range(r_) for j in range(c_)]
        elif form == "array-vs-X":
            # written with the array on the left:  U >= X  is  X <= U
            flip = {"<=": ">=", ">=": "<=", "==": "=="}[sense]
            cons = [["rel", flip, X, ["arr2", U], "reflected"]] if sense != "==" else [["rel", "==", X, ["arr2", U], "direct"]]
            rows = [{"coef": {W.D.mat_names("X")[i][j]: 1.0}, "sense": flip, "rhs": U[i][j]} for i in range(r_) for j in range(c_)]
            sense = flip
        else:
            k = rng.choice([2.0, 0.5, 4.0])
            cst = rng.choice([1.0, -0.5, 2.0])
            cons = [["rel", sense, ["mbin", "-", ["mbin", "*", X, ["raw", k, "float"]], ["raw", cst, "float"]], ["arr2", U], "direct"]]
            rows = [{"coef": {W.D.mat_names("X")[i][j]: k}, "sense": sense, "rhs": U[i][j] + cst} for i in range(r_) for j in range(c_)]
        c = {nm: 1.0 + 0.25 * i for i, nm in enumerate(names)}
    else:
        n = rng.randint(2, 4)
        decls = [{"k": "vec", "name": "x", "n": n, "lb": 0.0, "ub": 6.0}]
        W = Writer(rng, decls, risky=True)
        names = list(W.names)
        x = ["vec", "x"]
        m = rng.randint(1, 3)
        M = [[abs(q(rng, 1, 3, nz=True)) for _ in range(n)] for _ in range(m)]
        feas = [1.0 + int(8 * rng.random()) / 4 for _ in range(n)]
        at = [sum(a * f for a, f in zip(row, feas)) for row in M]
        if form == "b-M@v":
            # b - M x (s') 0   <=>   M x (s) b      with s' the mirrored sense
            flip = {"<=": ">=", ">=": "<=", "==": "=="}[sense]
            cons = [["rel", flip, ["vrbin", "-", ["arr", at], ["mv", M, x]], ["raw", 0.0, "float"], "direct"]]
            rows = [{"coef": {nm: -a for nm, a in zip(names, row)}, "sense": flip, "rhs": -b} for row, b in zip(M, at)]
            sense = sense
        elif form == "M@(v-s)":
            ss = [q(rng, -2, 2) for _ in range(n)]
            shift = [sum(a * t for a, t in zip(row, ss)) for row in M]
            cons = [["rel", sense, ["mv", M, ["vbin", "-", x, ["arr", ss]]], ["arr", [b - sh for b, sh in zip(at, shift)]], "direct"]]
            rows = [{"coef": {nm: a for nm, a in zip(names, row)}, "sense": sense, "rhs": b} for row, b in zip(M, at)]
        else:  # "b0-k*v":  b0 - k x (s') -k feas + b0  element-wise
            k = rng.choice([2.0, 0.5, 4.0])
            b0 = q(rng, 1, 3, nz=True)
            flip = {"<=": ">=", ">=": "<=", "==": "=="}[sense]
            cons = [["rel", flip, ["vrbin", "-", ["raw", b0, "float"], ["vbin", "*", x, ["raw", k, "float"]]], ["arr", [b0 - k * f for f in feas]], "direct"]]
            rows = [{"coef": {nm: -k}, "sense": flip, "rhs": -k * f} for nm, f in zip(names, feas)]
        c = {nm: 1.0 + 0.25 * i for i, nm in enumerate(names)}
    # the objective pushes against the rows as they are *meant* (x <= cap: maximise; x >= floor: minimise)
    meant = rows[0]["sense"] if all(v > 0 for v in rows[0]["coef"].values()) else {"<=": ">=", ">=": "<=", "==": "=="}[rows[0]["sense"]]
    obj_sense = {"<=": "max", ">=": "min", "==": rng.choice(["min", "max"])}[meant]
    obj = None
    for nm, v in c.items():
        t = ["bin", "*", ["raw", v, "float"], W.elem[nm]]
        obj = t if obj is None else ["bin", "+", obj, t]
    return {"bound_edits": {}, "decls": decls, "layout": "block-sweep:" + form, "kind": "optimal", "c": c, "c0": 0.0, "sense": obj_sense,
            "rows": rows, "objective": obj, "constraints": cons}


def mentioned_names(lp):
    """Independent syntactic variable set of the written model, natural order."""
    D = R.Decls(lp["decls"])
    names = set(R.ref_vars(D, lp["objective"])) if lp.get("objective") is not None else set()
    for c in lp["constraints"]:
        for side in (c[2], c[3]):
            if side[0] == "raw":
                continue
            kind = "S"
            from .ast import VECTOR_KINDS, MATRIX_KINDS

            if side[0] in VECTOR_KINDS:
                kind = "V"
            elif side[0] in MATRIX_KINDS:
                kind = "M"
            names |= R.ref_vars(D, side, kind)
    return R.natural_sorted(names)


def constraint_values(D, cnode, pt, alg_factory):
    """Reference values lhs_i - rhs_i of a (possibly element-wise) constraint at pt."""
    alg = alg_factory(pt)
    it = R.Interp(D, alg)
    from .ast import VECTOR_KINDS

    from .ast import MATRIX_KINDS

    def side(n):
        if n[0] in VECTOR_KINDS:
            return it.V(n)
        if n[0] in MATRIX_KINDS:
            return [x for row in it.M(n) for x in row]  # row-major, the order in which element-wise constraints are produced
        return [it.S(n)]

    L, Rr = side(cnode[2]), side(cnode[3])
    if len(L) == 1 and len(Rr) > 1:
        L = L * len(Rr)
    if len(Rr) == 1 and len(L) > 1:
        Rr = Rr * len(L)
    return [alg.sub(a, b) for a, b in zip(L, Rr)]


def self_check(lp, rng):
    """The written recipe must denote the drawn data (exact rational arithmetic).
    Returns None if consistent, else a description (=> harness bug, inconclusive)."""
    D = R.Decls(lp["decls"])
    names = D.all_var_names()
    pts = [{n: Fraction(0) for n in names}]
    for _ in range(3):
        pts.append({n: Fraction(rng.randint(-8, 8), 4) for n in names})
    fa = lambda pt: R.FracAlg(pt)  # noqa: E731
    for pt in pts:
        want = sum(Fraction(v) * pt[n] for n, v in lp["c"].items()) + Fraction(lp["c0"])
        got = R.ref_frac(D, lp["objective"], pt)
        if got != want:
            return f"objective: recipe {got} != data {want}"
        k = 0
        for c in lp["constraints"]:
            for val in constraint_values(D, c, pt, fa):
                row = lp["rows"][k]
                want = sum(Fraction(v) * pt[n] for n, v in row["coef"].items()) - Fraction(row["rhs"])
                if val != want or row["sense"] != c[1]:
                    return f"constraint row {k}: recipe {val} != data {want}"
                k += 1
        if k != len(lp["rows"]):
            return f"row count {k} != {len(lp['rows'])}"
    return None
