"""Random recipe generation (weighted grammar expansion), seeded.

`Gen(rng, **opts)` draws a declaration pool and then scalar / vector / matrix
recipe nodes over it.  Sizes are tracked so that shape errors are rare (they
are generated on purpose elsewhere).
"""
from __future__ import annotations

import math
import random

from . import ref as R

SCALAR_NAMES = ["a", "b", "c", "d", "x1", "x2", "x10", "t"]
VECTOR_NAMES = ["x", "y", "u"]
MATRIX_NAMES = ["A", "B"]
SYM_NAMES = ["G"]
PARAM_NAMES = ["p", "q"]

CONST_VALUES = [0, 1, -1, 2, 3, -2, 0.5, 1.5, -0.5, 2.5, 0.25, 4, -3, 0.75]
CONST_KINDS = ["int", "float", "float", "npf64", "npi64", "arr0d"]
EXPONENTS = [2, 2, 3, 1, 0, -1, -2, 0.5, 1.5, 2.0, 4, -0.5]

SMOOTH_FUNCS = ["sin", "cos", "exp", "tanh", "atan", "sinh", "cosh", "asinh"]
DOMAIN_FUNCS = ["log", "sqrt", "log2", "log10", "tan", "asin", "acos", "acosh", "atanh"]


def _q(rng, lo=-3.0, hi=3.0, den=4):
    return rng.randint(int(lo * den), int(hi * den)) / den


def const_value(rng, kind):
    v = rng.choice(CONST_VALUES)
    if kind in ("int", "npi64"):
        v = int(round(v)) if float(v).is_integer() else rng.choice([1, 2, 3, -1, -2])
    elif kind in ("float", "npf64", "arr0d", "npf32"):
        v = float(v)
    return v


class Gen:
    def __init__(
        self,
        rng: random.Random,
        vectors=True,
        matrices=True,
        params=False,
        nonsmooth=True,
        domain_funcs=True,
        var_exponent=True,
        reflected_arrays=True,
        max_depth=4,
        bounds=False,
        decls=None,
    ):
        self.rng = rng
        self.o = dict(
            vectors=vectors,
            matrices=matrices,
            params=params,
            nonsmooth=nonsmooth,
            domain_funcs=domain_funcs,
            var_exponent=var_exponent,
            reflected_arrays=reflected_arrays,
            bounds=bounds,
        )
        self.max_depth = max_depth
        self.decls = decls if decls is not None else self._decls()
        self.D = R.Decls(self.decls)
        self.svars = [d["name"] for d in self.decls if d["k"] == "var"]
        self.vecs = [d for d in self.decls if d["k"] == "vec"]
        self.mats = [d for d in self.decls if d["k"] == "mat"]
        self.pars = [d["name"] for d in self.decls if d["k"] == "par"]
        self.vpars = [d for d in self.decls if d["k"] == "vpar"]

    # ------------------------------------------------------------------
    def _bnd(self):
        if not self.o["bounds"]:
            return {}
        r = self.rng.random()
        if r < 0.4:
            return {}
        lb = _q(self.rng, -2, 1)
        if r < 0.6:
            return {"lb": lb}
        if r < 0.75:
            return {"ub": lb + 1 + abs(_q(self.rng, 0, 3))}
        return {"lb": lb, "ub": lb + 0.5 + abs(_q(self.rng, 0, 3))}

    def _decls(self):
        rng = self.rng
        out = []
        ns = rng.randint(1, 3)
        for nm in rng.sample(SCALAR_NAMES, ns):
            out.append({"k": "var", "name": nm, **self._bnd()})
        if self.o["vectors"]:
            for nm in rng.sample(VECTOR_NAMES, rng.randint(1, 2)):
                out.append({"k": "vec", "name": nm, "n": rng.randint(1, 5), **self._bnd()})
        if self.o["matrices"] and rng.random() < 0.6:
            nm = rng.choice(MATRIX_NAMES)
            out.append({"k": "mat", "name": nm, "r": rng.randint(1, 3), "c": rng.randint(1, 3), **self._bnd()})
            if rng.random() < 0.4:
                n = rng.randint(2, 3)
                out.append({"k": "mat", "name": "G", "r": n, "c": n, "sym": True, **self._bnd()})
        if self.o["params"]:
            for nm in rng.sample(PARAM_NAMES, rng.randint(1, 2)):
                out.append({"k": "par", "name": nm, "val": rng.choice([0.5, 1.5, 2.0, -1.0, 3.0, 0.25])})
            if rng.random() < 0.5 and self.o["vectors"]:
                out.append({"k": "vpar", "name": "r", "vals": [_q(rng, -2, 2) or 1.0 for _ in range(rng.randint(2, 4))]})
        rng.shuffle(out)
        return out

    # ------------------------------------------------------------------
    # leaves
    def const(self, raw=False):
        kind = self.rng.choice(CONST_KINDS)
        v = const_value(self.rng, kind)
        return ["raw" if raw else "const", v, kind]

    def leaf(self):
        rng = self.rng
        r = rng.random()
        if r < 0.55 and self.svars:
            return ["var", rng.choice(self.svars)]
        if r < 0.72 and self.vecs:
            d = rng.choice(self.vecs)
            return ["el", ["vec", d["name"]], rng.randrange(d["n"])]
        if r < 0.82 and self.mats:
            d = rng.choice(self.mats)
            return ["mel", ["mat", d["name"]], rng.randrange(d["r"]), rng.randrange(d["c"])]
        if r < 0.90 and self.pars:
            return ["par", rng.choice(self.pars)]
        if r < 0.93 and self.vpars:
            d = rng.choice(self.vpars)
            return ["pel", d["name"], rng.randrange(len(d["vals"]))]
        if r < 0.97 or not self.svars:
            if self.svars or self.vecs:
                return self.const()
        if self.svars:
            return ["var", rng.choice(self.svars)]
        d = rng.choice(self.vecs)
        return ["el", ["vec", d["name"]], rng.randrange(d["n"])]

    # ------------------------------------------------------------------
    def scalar(self, depth=None):
        rng = self.rng
        if depth is None:
            depth = rng.randint(1, self.max_depth)
        if depth <= 0:
            return self.leaf()
        r = rng.random()
        if r < 0.30:
            op = rng.choice(["+", "-", "*", "*", "/", "+"])
            return ["bin", op, self.scalar(depth - 1), self.scalar(depth - 1)]
        if r < 0.42:
            # raw python / numpy operand on one side (direct and reflected dispatch)
            op = rng.choice(["+", "-", "*", "/"])
            c = self.const(raw=True)
            if op == "/" and c[1] == 0:
                c[1] = 2 if c[2] in ("int", "npi64") else 2.0
            e = self.scalar(depth - 1)
            return ["bin", op, c, e] if rng.random() < 0.5 else ["bin", op, e, c]
        if r < 0.52:
            ex = rng.choice(EXPONENTS)
            kind = "int" if isinstance(ex, int) else "float"
            node = ["raw", ex, kind] if rng.random() < 0.7 else ["const", ex, kind]
            return ["bin", "**", self.scalar(depth - 1), node]
        if r < 0.55 and self.o["var_exponent"]:
            base = ["bin", "+", ["bin", "**", self.scalar(depth - 1), ["raw", 2, "int"]], ["raw", 1.5, "float"]]
            if rng.random() < 0.3:
                return ["bin", "**", ["raw", rng.choice([2, 2.0, 1.5, 3]), "float"], self.scalar(depth - 1)]
            return ["bin", "**", base, self.scalar(depth - 1)]
        if r < 0.60:
            return ["neg", self.scalar(depth - 1)]
        if r < 0.62:
            return ["pos", self.scalar(depth - 1)]
        if r < 0.76:
            fs = list(SMOOTH_FUNCS)
            if self.o["domain_funcs"]:
                fs += DOMAIN_FUNCS
            if self.o["nonsmooth"]:
                fs += ["abs"]
            return ["fn", rng.choice(fs), self.scalar(depth - 1)]
        if r < 0.93 and self.vecs:
            return self.reduction(depth - 1)
        if r < 0.97 and self.mats:
            return self.mreduction(depth - 1)
        return ["bin", rng.choice(["+", "-", "*"]), self.scalar(depth - 1), self.leaf()]

    # ------------------------------------------------------------------
    # vectors
    def base_vector(self, n=None):
        """A VectorVariable-valued node (variable or view) and its size."""
        rng = self.rng
        cands = []
        for d in self.vecs:
            if n is None or d["n"] >= n:
                cands.append(("vec", d))
        for d in self.mats:
            if n is None or d["c"] == n:
                cands.append(("row", d))
            if n is None or d["r"] == n:
                cands.append(("col", d))
            if d["r"] == d["c"] and (n is None or d["r"] == n):
                cands.append(("diag", d))
        if not cands:
            return None, 0
        kind, d = rng.choice(cands)
        if kind == "vec":
            N = d["n"]
            node = ["vec", d["name"]]
            want = n if n is not None else rng.randint(1, N)
            if want == N and rng.random() < 0.6:
                if rng.random() < 0.2:
                    return ["slice", node, None, None, -1], N
                return node, N
            # contiguous / stepped / reversed slice with `want` elements
            r = rng.random()
            if r < 0.6 or want == 1:
                a = rng.randint(0, N - want)
                return ["slice", node, a, a + want, None], want
            if r < 0.8 and 2 * (want - 1) < N:
                a = rng.randint(0, N - 1 - 2 * (want - 1))
                return ["slice", node, a, a + 2 * (want - 1) + 1, 2], want
            a = rng.randint(want - 1, N - 1)
            stop = a - want
            return ["slice", node, a, (stop if stop >= 0 else None), -1], want
        m = ["mat", d["name"]]
        if rng.random() < 0.2:
            m = ["T", m]
            # A.T has shape (c, r): its columns are A's rows and vice versa
            if kind == "row":
                return ["col", m, rng.randrange(d["r"])], d["c"]
            if kind == "col":
                return ["row", m, rng.randrange(d["c"])], d["r"]
        if kind == "row":
            return ["row", m, rng.randrange(d["r"])], d["c"]
        if kind == "col":
            return ["col", m, rng.randrange(d["c"])], d["r"]
        return [rng.choice(["diag", "diagf"]), m], d["r"]

    def arr(self, n, nonzero=False):
        rng = self.rng
        vals = []
        for _ in range(n):
            v = _q(rng, -3, 3)
            if nonzero and v == 0:
                v = 1.5
            vals.append(v)
        if rng.random() < 0.25:
            vals = [int(v) if float(v).is_integer() else v for v in vals]
        return [rng.choice(["arr", "arr", "list"]), vals]

    def mat_const(self, r, c, sym=False):
        rng = self.rng
        Q = [[_q(rng, -2, 2) for _ in range(c)] for _ in range(r)]
        if sym:
            for i in range(r):
                for j in range(i):
                    Q[i][j] = Q[j][i]
        return Q

    def vector(self, depth, n=None):
        """A vector-valued node of size n (or any size)."""
        rng = self.rng
        base, size = self.base_vector(n)
        if base is None:
            # no variable source of that size: explicit element list
            size = n or rng.randint(1, 3)
            return ["velems", [self.scalar(max(0, depth - 1)) for _ in range(size)]], size
        if depth <= 0 or rng.random() < 0.35:
            return base, size
        r = rng.random()
        if r < 0.22:
            op = rng.choice(["+", "-", "*", "/", "*"])
            c = self.const(raw=True)
            if c[2] == "arr0d":
                c[2] = "float"
            if op == "/" and c[1] == 0:
                c[1] = 2.0
                c[2] = "float"
            inner, _ = self.vector(depth - 1, size)
            if rng.random() < 0.5:
                return ["vbin", op, inner, c], size
            return ["vrbin", op, c, inner], size
        if r < 0.36:
            op = rng.choice(["+", "-", "*", "/"])
            inner, _ = self.vector(depth - 1, size)
            a = self.arr(size, nonzero=(op == "/"))
            if rng.random() < 0.6 or not self.o["reflected_arrays"]:
                return ["vbin", op, inner, a], size
            return ["vrbin", op, a, inner], size
        if r < 0.52:
            op = rng.choice(["+", "-", "+", "*"])
            l, _ = self.vector(depth - 1, size)
            w, _ = self.vector(depth - 1, size)
            if op == "*" and l[0] not in ("vec", "slice", "row", "col", "diag", "diagf"):
                op = "+"
            if op == "*":
                # vector * vector is not in the API (scalar multiplication only): use + instead
                op = "-"
            return ["vbin", op, l, w], size
        if r < 0.58:
            inner, _ = self.vector(depth - 1, size)
            return ["vneg", inner], size
        if r < 0.70:
            # power of a vector *expression* (x ** k on a plain VectorVariable is the
            # ElementwisePower node: generated by reduction()/leaf() where the API supports it)
            k = rng.choice([2, 2, 3, 1, 0.5, -1, 2.5, 4, 0])
            return ["vpow", self.vexpr(depth - 1, size), k], size
        if r < 0.82:
            fs = ["sin", "cos", "exp", "tanh", "sinh", "cosh"]
            if self.o["domain_funcs"]:
                fs += ["log", "sqrt", "tan"]
            if self.o["nonsmooth"]:
                fs += ["abs"]
            return ["vfn", rng.choice(fs), self.vexpr(depth - 1, size)], size
        if r < 0.93:
            rows = rng.randint(1, 4) if n is None else n
            inner, isz = self.vector(depth - 1, None)
            return ["mv", self.mat_const(rows, isz), inner], rows
        # MatrixVariable @ vector
        ms = [d for d in self.mats if (n is None or d["r"] == n)]
        if ms:
            d = rng.choice(ms)
            inner, _ = self.vector(depth - 1, d["c"])
            return ["Mv", ["mat", d["name"]], inner], d["r"]
        return base, size

    def vexpr(self, depth, size):
        """A vector node that builds a VectorExpression (never a bare view)."""
        inner, _ = self.vector(depth, size)
        if inner[0] in VIEW_KINDS:
            c = self.rng.choice([["raw", 1, "int"], ["raw", 2.0, "float"], ["raw", 0.5, "float"]])
            inner = ["vbin", self.rng.choice(["*", "+"]), inner, c]
        return inner

    def partner(self, v, size, depth):
        """A second vector of the same size, biased to share variables with v."""
        rng = self.rng
        r = rng.random()
        if r < 0.25:
            return v
        if r < 0.45 and v[0] in ("vec", "slice"):
            # another view of the same declared vector (overlapping / reversed)
            name = v[1] if v[0] == "vec" else (v[1][1] if v[1][0] == "vec" else None)
            if name is not None:
                d = self.D.by_name[name]
                N = d["n"]
                if N >= size:
                    if rng.random() < 0.4 and size > 1:
                        a = rng.randint(size - 1, N - 1)
                        stop = a - size
                        return ["slice", ["vec", name], a, (stop if stop >= 0 else None), -1]
                    a = rng.randint(0, N - size)
                    return ["slice", ["vec", name], a, a + size, None]
        w, _ = self.vector(depth, size)
        return w

    def reduction(self, depth):
        rng = self.rng
        r = rng.random()
        if r < 0.16:
            # the vectorised node kinds: (x ** k).sum(), f(x).sum() on a VectorVariable view
            b, _ = self.base_vector()
            if b is not None:
                if rng.random() < 0.5:
                    return ["sum", ["vpow", b, rng.choice([2, 2, 3, 1, 0.5, -1, 2.5, 4, 0, 1.5])]]
                fs = ["sin", "cos", "exp", "tanh", "sinh", "cosh"]
                if self.o["domain_funcs"]:
                    fs += ["log", "sqrt", "tan"]
                if self.o["nonsmooth"]:
                    fs += ["abs"]
                return ["sum", ["vfn", rng.choice(fs), b]]
            r = 0.2
        v, size = self.vector(depth)
        if r < 0.22:
            return ["sum", v]
        if r < 0.40:
            w = self.partner(v, size, depth)
            return [rng.choice(["dot", "matmul"]), v, w]
        if r < 0.55:
            a = self.arr(size)
            if a[0] == "list" or rng.random() < 0.5:
                return ["matmul", v, a] if a[0] == "list" else ["matmul", a, v]
            return ["matmul", v, a]
        if r < 0.68:
            if not self.o["nonsmooth"]:
                return ["sum", ["vpow", v, 2]] if v[0] in VIEW_KINDS else ["sum", v]
            n = ["norm", v, rng.choice([1, 2, 2])]
            if v[0] in ("vec", "slice", "row", "col", "diag", "diagf") and rng.random() < 0.5:
                n.append("method")
            return n
        if r < 0.80:
            return ["qf", v, self.mat_const(size, size, sym=rng.random() < 0.5)]
        if r < 0.92:
            # x.dot(Q @ w): the receiver must be a VectorVariable for the rewrite to matter
            b, bs = self.base_vector(size)
            if b is None:
                return ["qf", v, self.mat_const(size, size)]
            w = b if rng.random() < 0.5 else self.partner(b, bs, depth)
            return ["dotQ", b, self.mat_const(bs, bs, sym=rng.random() < 0.3), w]
        return ["sum", v]

    # ------------------------------------------------------------------
    # matrices
    def matrix(self, depth, shape=None):
        rng = self.rng
        ms = [d for d in self.mats if shape is None or (d["r"], d["c"]) == tuple(shape) or (d["c"], d["r"]) == tuple(shape)]
        if not ms:
            return None, None
        d = rng.choice(ms)
        node = ["mat", d["name"]]
        shp = (d["r"], d["c"])
        if shape is not None and shp != tuple(shape):
            node, shp = ["T", node], (d["c"], d["r"])
        elif shape is None and rng.random() < 0.25:
            node, shp = ["T", node], (d["c"], d["r"])
        if shape is None and rng.random() < 0.2 and shp[0] > 1 and shp[1] > 1:
            r0 = rng.randint(0, shp[0] - 1)
            r1 = rng.randint(r0 + 1, shp[0])
            c0 = rng.randint(0, shp[1] - 1)
            c1 = rng.randint(c0 + 1, shp[1])
            node, shp = ["sub", node, r0, r1, c0, c1], (r1 - r0, c1 - c0)
        if depth <= 0 or rng.random() < 0.4:
            return node, shp
        r = rng.random()
        if r < 0.3:
            op = rng.choice(["+", "-", "*", "/"])
            c = self.const(raw=True)
            if c[2] == "arr0d":
                c[2] = "float"
            if op == "/" and c[1] == 0:
                c[1], c[2] = 2.0, "float"
            if rng.random() < 0.5:
                return ["mbin", op, node, c], shp
            return ["mrbin", op, c, node], shp
        if r < 0.5:
            op = rng.choice(["+", "-", "*"])
            Q = ["arr2", self.mat_const(*shp)]
            if rng.random() < 0.6:
                return ["mbin", op, node, Q], shp
            return ["mrbin", rng.choice(["+", "-"]), Q, node], shp
        if r < 0.7:
            other, _ = self.matrix(depth - 1, shp)
            if other is not None:
                return ["mbin", rng.choice(["+", "-", "*"]), node, other], shp
        if r < 0.8:
            return ["mneg", node], shp
        if r < 0.9:
            return ["mbin", "**", node, ["raw", rng.choice([2, 3, 1]), "int"]], shp
        return node, shp

    def mreduction(self, depth):
        rng = self.rng
        r = rng.random()
        if r < 0.5:
            m, _ = self.matrix(depth)
            return ["msum", m]
        sq = [d for d in self.mats if d["r"] == d["c"]]
        if r < 0.75 and sq:
            d = rng.choice(sq)
            t = ["trace", ["mat", d["name"]]]
            if rng.random() < 0.5:
                t.append("method")
            return t
        d = rng.choice(self.mats)
        m = ["mat", d["name"]]
        if rng.random() < 0.2:
            m = ["T", m]
        if not self.o["nonsmooth"]:
            return ["msum", m]
        if rng.random() < 0.4:
            me, _ = self.matrix(depth)
            if me is not None:
                return ["fro", me]
        return ["fro", m]


# ---------------------------------------------------------------------------
# points
# ---------------------------------------------------------------------------

VIEW_KINDS = ("vec", "slice", "row", "col", "diag", "diagf")

BOXES = [(-2.0, 2.0), (0.3, 1.8), (0.1, 0.9), (1.2, 2.5), (-0.9, 0.9)]


def random_point(rng, names, box, info=None):
    lo, hi = box
    pt = {}
    for nm in names:
        v = rng.uniform(lo, hi)
        if info and nm in info:
            lb, ub, _ = info[nm]
            if lb is not None and ub is not None and lb == ub:
                v = lb
        pt[nm] = round(v, 6)
    return pt


def regular_point(rng, decls, node, names, tries=6, margin=1e-2, extra=None):
    """A point (over `names`) at which the reference value of node is regular,
    or None.  `extra` = fixed values (e.g. zero off-diagonals)."""
    D = decls if isinstance(decls, R.Decls) else R.Decls(decls)
    names = list(dict.fromkeys(list(names) + D.all_var_names()))
    for box in BOXES:
        for _ in range(tries):
            pt = random_point(rng, names, box)
            if extra:
                pt.update(extra)
            try:
                v, t = R.ref_value(D, node, pt)
            except (R.ShapeError, KeyError):
                raise
            if math.isfinite(v) and t.regular(margin):
                return pt
    return None
