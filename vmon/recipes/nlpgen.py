"""Smooth strictly convex problems with a *manufactured* optimum.

Pick x*, an active set and multipliers, then add the linear term that makes x*
the KKT point:  g = -grad f0(x*) - sum lam_i grad c_i(x*) - sum nu_j grad h_j(x*)
+ muL - muU.  Gradients at x* come from the reference jet interpreter, so the
construction is independent of optyx.
"""
from __future__ import annotations

import numpy as np

from . import ref as R

FAMILIES = ["quad", "expsum", "lse", "barrier", "quad-scalar", "weighted-vexpr", "sym-matrix"]


def q(rng, lo=-2, hi=2, nz=False, den=4):
    while True:
        v = rng.randint(lo * den, hi * den) / den
        if not nz or v != 0:
            return v


def spd(rng, n):
    M = np.array([[q(rng, -1, 1) for _ in range(n)] for _ in range(n)])
    Q = M @ M.T + np.eye(n) * (1.0 + abs(q(rng, 0, 2)))
    return np.round(Q * 4) / 4


def draw_convex(rng, family=None, n=None, constrained=True, bounds=True, sense=None, scalars=True, simple_constraints_only=False):
    family = family or rng.choice(FAMILIES)
    n = n or rng.randint(2, 4)
    decls = []
    extra = []
    if family == "sym-matrix":
        n = min(n, 3)
        bounds = False  # one (lb, ub) pair per container: no per-entry active bounds to manufacture
    if scalars and family not in ("quad-scalar", "weighted-vexpr", "sym-matrix") and rng.random() < 0.6:
        extra = [rng.choice(["z", "a", "x10"])]
    # creation order != natural order
    if extra and rng.random() < 0.5:
        decls.append({"k": "var", "name": extra[0]})
    if family == "quad-scalar":
        svars = ["x10", "x2", "b", "a"][:n]
        for nm in svars:
            decls.append({"k": "var", "name": nm})
    elif family == "sym-matrix":
        decls.append({"k": "mat", "name": "S", "r": n, "c": n, "sym": True})
    else:
        decls.append({"k": "vec", "name": "x", "n": n})
    if extra and not any(d["name"] == extra[0] for d in decls):
        decls.append({"k": "var", "name": extra[0]})
    D = R.Decls(decls)
    names = R.natural_sorted(D.all_var_names())
    N = len(names)
    idx = {nm: i for i, nm in enumerate(names)}
    xs = {nm: q(rng, -1, 2) for nm in names}
    x = ["vec", "x"]
    vnames = D.vec_names("x") if family not in ("quad-scalar", "sym-matrix") else []

    # ---- base objective f0 (strongly convex) --------------------------------
    terms = []
    if family == "quad":
        Q = spd(rng, n)
        form = rng.choice(["qf", "dotQ", "expanded", "qf-triangular", "qf-triangular-vexpr", "qf-vexpr"])
        T_ = (np.triu(Q, 1) + np.diag(np.diag(Q)) / 2.0)  # x'Tx = 0.5 x'Qx with a triangular (structurally asymmetric) matrix
        if rng.random() < 0.5:
            T_ = T_.T
        if form == "qf-triangular":
            terms.append(["qf", x, T_.tolist()])
        elif form == "qf-triangular-vexpr":
            terms.append(["qf", ["vbin", "*", x, ["raw", 1.0, "float"]], T_.tolist()] if rng.random() < 0.5 else ["qf", ["vbin", "-", x, ["arr", [0.0] * n]], T_.tolist()])
        elif form == "qf-vexpr":
            terms.append(["bin", "*", ["raw", 0.5, "float"], ["qf", ["vbin", "+", x, ["raw", 0.0, "float"]], Q.tolist()]])
        elif form == "qf":
            terms.append(["bin", "*", ["raw", 0.5, "float"], ["qf", x, Q.tolist()]])
        elif form == "dotQ":
            terms.append(["bin", "*", ["raw", 0.5, "float"], ["dotQ", x, Q.tolist(), x]])
        else:
            e = None
            for i in range(n):
                for j in range(n):
                    if Q[i, j] != 0:
                        t = ["bin", "*", ["bin", "*", ["raw", 0.5 * Q[i, j], "float"], ["el", x, i]], ["el", x, j]]
                        e = t if e is None else ["bin", "+", e, t]
            terms.append(e)
    elif family == "quad-scalar":
        Q = spd(rng, n)
        e = None
        for i in range(n):
            for j in range(i, n):
                cf = Q[i, j] * (0.5 if i == j else 1.0)
                if cf != 0:
                    vi, vj = ["var", svars[i]], ["var", svars[j]]
                    t = ["bin", "*", ["raw", cf, "float"], (["bin", "**", vi, ["raw", 2, "int"]] if i == j else ["bin", "*", vi, vj])]
                    e = t if e is None else ["bin", "+", e, t]
        terms.append(e)
    elif family == "expsum":
        m = rng.randint(1, 3)
        Am = [[q(rng, -1, 1, den=2) for _ in range(n)] for _ in range(m)]
        terms.append(["sum", ["vfn", "exp", ["mv", Am, x]]])
        bvec = [q(rng, -1, 1) for _ in range(n)]
        dlt = ["vbin", "-", x, ["arr", bvec]]
        terms.append(["bin", "*", ["raw", 0.5, "float"], ["dot", dlt, dlt]])
    elif family == "lse":
        terms.append(["fn", "log", ["sum", ["vfn", "exp", x]]])
        terms.append(["bin", "*", ["raw", 0.5, "float"], rng.choice([["dot", x, x], ["sum", ["vpow", x, 2]]])])
    elif family == "weighted-vexpr":
        # positive weights applied to a convex function of an affine image, M invertible (strictly convex); the vector node is the
        # whole base objective:  w @ (M x - b)**2   or   w @ exp(M x - b)
        while True:
            Mw = np.array([[q(rng, -1, 1, den=2) for _ in range(n)] for _ in range(n)]) + np.eye(n) * 1.5
            if abs(np.linalg.det(Mw)) > 0.5:
                break
        wts = [0.5 + abs(q(rng, 0, 2)) for _ in range(n)]
        bw = [q(rng, -1, 1) for _ in range(n)]
        inner = ["vbin", "-", ["mv", Mw.tolist(), x], ["arr", bw]]
        kindw = rng.choice(["square", "exp", "square-dot"])
        if kindw == "square":
            terms.append(["matmul", ["arr", wts], ["vpow", inner, 2]])
        elif kindw == "exp":
            terms.append(["matmul", ["arr", wts], ["vfn", "exp", inner]])
        else:
            terms.append(["dot", ["vpow", inner, 2], ["velems", [["const", float(w_), "float"] for w_ in wts]]])
    elif family == "sym-matrix":
        # symmetric matrix variable: every off-diagonal variable sits at two positions of the matrix
        Sm = ["mat", "S"]
        Cm = [[q(rng, -1, 2) for _ in range(n)] for _ in range(n)]
        Cm = [[Cm[min(i, j)][max(i, j)] for j in range(n)] for i in range(n)]
        terms.append(rng.choice([["msum", ["mbin", "**", ["mbin", "-", Sm, ["arr2", Cm]], ["raw", 2, "int"]]],
                                 ["bin", "**", ["fro", ["mbin", "-", Sm, ["arr2", Cm]]], ["raw", 2, "int"]]]))
    elif family == "barrier":
        u = [xs[nm] + 1.0 + abs(q(rng, 0, 2)) for nm in vnames]
        terms.append(["neg", ["sum", ["vfn", "log", ["vrbin", "-", ["arr", u], x]]]])
        terms.append(["bin", "*", ["raw", 0.5, "float"], ["sum", ["vpow", x, 2]]])
    if vnames and n >= 3 and rng.random() < 0.4:
        # a weak coupling written as a dot product of two overlapping views of the same vector (|eigenvalues| <= 0.2: f0 stays strongly convex)
        cp = rng.choice([["dot", ["slice", x, 0, n - 1, None], ["slice", x, 1, n, None]], ["dot", x, ["slice", x, None, None, -1]],
                         ["dot", ["slice", x, 1, n, None], ["slice", x, 0, n - 1, None]]])
        terms.append(["bin", "*", ["raw", rng.choice([0.1, -0.1]), "float"], cp])
    for nm in extra:
        v = ["var", nm]
        terms.append(["bin", "*", ["raw", 1.0 + abs(q(rng, 0, 1)), "float"], ["bin", "**", ["bin", "-", v, ["raw", q(rng, -1, 1), "float"]], ["raw", 2, "int"]]])
        if vnames:
            terms.append(["bin", "*", ["raw", 0.25, "float"], ["bin", "*", v, ["el", x, 0]]])
    f0 = terms[0]
    for t in terms[1:]:
        f0 = ["bin", "+", f0, t]

    # ---- constraints --------------------------------------------------------
    cons = []  # {"rel": node, "g": scalar node g(x) with constraint g <= 0 or g == 0, "type": ineq/eq, "active": bool, "lam": float}
    if constrained:
        k = rng.randint(1, max(1, min(3, N - 1)))
        n_active = 0
        for ci in range(k):
            kind = rng.choice(["lin-ineq", "lin-ineq", "lin-eq", "quad-ineq"])
            if kind == "lin-eq" and any(c["type"] == "eq" for c in cons):
                kind = "lin-ineq"
            if simple_constraints_only or (family == "sym-matrix" and ci == 0):
                kind = "lin-ineq"
            if kind.startswith("lin"):
                sub = rng.sample(names, rng.randint(1, min(3, N)))
                coef = {nm: q(rng, -2, 2, nz=True) for nm in sub}
                if simple_constraints_only:
                    # every constraint handed to subject_to() is a single-variable linear one (x[k] <= cap written as a constraint)
                    free = [nm for nm in names if not any(nm in c.get("vars", ()) for c in cons)] or names
                    sub = [rng.choice(free)]
                    coef = {sub[0]: rng.choice([1.0, -1.0, 2.0])}
                lin = None
                for nm, cf in coef.items():
                    t = ["bin", "*", ["raw", cf, "float"], _vnode(D, nm)]
                    lin = t if lin is None else ["bin", "+", lin, t]
                at = sum(cf * xs[nm] for nm, cf in coef.items())
                if family == "sym-matrix" and ci == 0:
                    # S.sum() (<= | ==) c, active: the Jacobian row counts every off-diagonal variable twice
                    mult = {}
                    for row_ in D.mat_names("S"):
                        for nm in row_:
                            mult[nm] = mult.get(nm, 0.0) + 1.0
                    coef, sub = mult, list(mult)
                    at = sum(cf * xs[nm] for nm, cf in coef.items())
                    wrap = rng.choice(["bare", "scaled", "shifted"])
                    lin = ["msum", ["mat", "S"]]
                    linw, atw = lin, at
                    if wrap == "scaled":
                        linw, atw = ["bin", "*", ["raw", 2.0, "float"], lin], 2.0 * at
                    elif wrap == "shifted":
                        linw, atw = ["bin", "-", lin, ["raw", 1.0, "float"]], at - 1.0
                    if rng.random() < 0.5 and not any(c["type"] == "eq" for c in cons):
                        cons.append({"rel": ["rel", "==", linw, ["raw", atw, "float"], "direct"], "g": ["bin", "-", lin, ["raw", at, "float"]],
                                     "type": "eq", "active": True, "lam": q(rng, -2, 2), "lincoef": dict(coef)})
                    else:
                        cons.append({"rel": ["rel", "<=", linw, ["raw", atw, "float"], "direct"], "g": ["bin", "-", lin, ["raw", at, "float"]],
                                     "type": "ineq", "active": True, "lam": 0.25 + abs(q(rng, 0, 2)), "vars": tuple(sub), "lincoef": dict(coef)})
                    n_active += 1
                    continue
                if kind == "lin-eq":
                    rows_ = [[c_["lincoef"].get(nm, 0.0) for nm in names] for c_ in cons if c_.get("active") and "lincoef" in c_]
                    if rows_ and np.linalg.matrix_rank(np.array(rows_ + [[coef.get(nm, 0.0) for nm in names]])) <= np.linalg.matrix_rank(np.array(rows_)):
                        continue  # would be linearly dependent on the constraints already active at x*: a degenerate KKT system
                    cons.append({"rel": ["rel", "==", lin, ["raw", at, "float"], "direct"], "g": ["bin", "-", lin, ["raw", at, "float"]],
                                 "type": "eq", "active": True, "lam": q(rng, -2, 2), "lincoef": dict(coef)})
                    n_active += 1
                else:
                    active = rng.random() < 0.5 and n_active < N - 1
                    if active:
                        # an active inequality whose gradient is a combination of the gradients of the constraints already active
                        # at x* (x[1] == c next to x[1] >= c) makes the KKT system degenerate: the direct SciPy run is then a
                        # matter of round-off, which is not the situation the property speaks about - such a constraint is kept inactive
                        rows_ = [[c_["lincoef"].get(nm, 0.0) for nm in names] for c_ in cons if c_.get("active") and "lincoef" in c_]
                        new_ = [coef.get(nm, 0.0) for nm in names]
                        if rows_ and np.linalg.matrix_rank(np.array(rows_ + [new_])) <= np.linalg.matrix_rank(np.array(rows_)):
                            active = False
                    slack = 0.0 if active else 0.5 + abs(q(rng, 0, 2))
                    # vector-node spelling of the same affine function when it only involves the vector
                    lin_w = lin
                    if vnames and all(nm in vnames for nm in coef) and rng.random() < 0.6:
                        cs = [coef.get(nm, 0.0) for nm in vnames]
                        lin_w = ["matmul", ["arr", cs], x] if rng.random() < 0.7 or len(set(cs)) > 1 else ["bin", "*", ["raw", cs[0], "float"], ["sum", x]]
                    r = rng.random()
                    if r < 0.35:
                        rel = ["rel", "<=", lin_w, ["raw", at + slack, "float"], "direct"]
                        g = ["bin", "-", lin, ["raw", at + slack, "float"]]
                    elif r < 0.55:
                        # constant - f(x) >= 0
                        rel = ["rel", ">=", ["bin", "-", ["const", at + slack, "float"], lin_w], ["raw", 0.0, "float"], "direct"]
                        g = ["bin", "-", lin, ["raw", at + slack, "float"]]
                    elif r < 0.7:
                        # 0 <= constant - f(x), reflected spelling
                        rel = ["rel", ">=", ["bin", "-", ["raw", at + slack, "float"], lin_w], ["raw", 0.0, "float"], "reflected"]
                        g = ["bin", "-", lin, ["raw", at + slack, "float"]]
                    else:
                        # written as  -lin >= -(at+slack)
                        nl = ["neg", lin]
                        rel = ["rel", ">=", nl, ["raw", -(at + slack), "float"], "direct"]
                        g = ["bin", "-", lin, ["raw", at + slack, "float"]]
                    if simple_constraints_only and ci == 0:
                        active, slack = True, 0.0
                        rel = ["rel", "<=", lin, ["raw", at, "float"], "direct"]
                        g = ["bin", "-", lin, ["raw", at, "float"]]
                    cons.append({"rel": rel, "g": g, "type": "ineq", "active": active, "lam": (0.25 + abs(q(rng, 0, 2))) if active else 0.0, "vars": tuple(sub),
                                 "lincoef": dict(coef)})
                    n_active += int(active)
            else:
                cvec = {nm: q(rng, -1, 1) for nm in names}
                sq = None
                for nm in names:
                    t = ["bin", "**", ["bin", "-", _vnode(D, nm), ["raw", cvec[nm], "float"]], ["raw", 2, "int"]]
                    sq = t if sq is None else ["bin", "+", sq, t]
                r2 = sum((xs[nm] - cvec[nm]) ** 2 for nm in names)
                if r2 < 0.05:
                    continue
                active = rng.random() < 0.5 and n_active < N - 1
                slack = 0.0 if active else 0.5 + abs(q(rng, 0, 2))
                sq_w = sq
                if vnames and len(vnames) == N and rng.random() < 0.6:
                    dlt = ["vbin", "-", x, ["arr", [cvec[nm] for nm in vnames]]]
                    sq_w = ["dot", dlt, dlt]
                if rng.random() < 0.4:
                    relq = ["rel", ">=", ["bin", "-", ["const", r2 + slack, "float"], sq_w], ["raw", 0.0, "float"], "direct"]
                else:
                    relq = ["rel", "<=", sq_w, ["raw", r2 + slack, "float"], "direct"]
                cons.append({"rel": relq, "g": ["bin", "-", sq, ["raw", r2 + slack, "float"]],
                             "type": "ineq", "active": active, "lam": (0.25 + abs(q(rng, 0, 1))) if active else 0.0})
                n_active += int(active)

    # ---- bounds -------------------------------------------------------------
    mu = np.zeros(N)  # muL - muU contribution
    binfo = {}
    if bounds:
        for nm in names:
            r = rng.random()
            if r < 0.45:
                continue
            if r < 0.6:
                binfo[nm] = (xs[nm], None, "L")  # active lower
                mu[idx[nm]] += 0.25 + abs(q(rng, 0, 2))
            elif r < 0.7:
                binfo[nm] = (None, xs[nm], "U")
                mu[idx[nm]] -= 0.25 + abs(q(rng, 0, 2))
            elif r < 0.85:
                binfo[nm] = (xs[nm] - 0.5 - abs(q(rng, 0, 2)), xs[nm] + 0.5 + abs(q(rng, 0, 2)), "")
            else:
                binfo[nm] = (xs[nm] - 0.5 - abs(q(rng, 0, 2)), None, "")
        # bounds are declared per container: vectors share one (lb, ub) -> only use per-element
        # bounds through scalar variables; for the vector, use a common inactive box
        for d in decls:
            if d["k"] == "var" and d["name"] in binfo:
                lb, ub, _ = binfo[d["name"]]
                if lb is not None:
                    d["lb"] = lb
                if ub is not None:
                    d["ub"] = ub
            elif d["k"] == "vec":
                els = D.vec_names(d["name"])
                act = [nm for nm in els if nm in binfo and binfo[nm][2] == "L"]
                lo = min(xs[nm] for nm in els)
                hi = max(xs[nm] for nm in els)
                for nm in els:
                    mu[idx[nm]] = 0.0
                    binfo.pop(nm, None)
                r = rng.random()
                if r < 0.35:
                    # common lower bound active exactly at the smallest coordinate(s)
                    d["lb"] = lo
                    for nm in els:
                        if xs[nm] == lo:
                            mu[idx[nm]] = 0.25 + abs(q(rng, 0, 2))
                            binfo[nm] = (lo, None, "L")
                    if rng.random() < 0.5:
                        d["ub"] = hi + 1.0 + abs(q(rng, 0, 2))
                elif r < 0.6:
                    d["lb"] = lo - 0.5 - abs(q(rng, 0, 2))
                    d["ub"] = hi + 0.5 + abs(q(rng, 0, 2))
                elif r < 0.7:
                    d["ub"] = hi
                    for nm in els:
                        if xs[nm] == hi:
                            mu[idx[nm]] = -(0.25 + abs(q(rng, 0, 2)))
                            binfo[nm] = (None, hi, "U")
    if family == "barrier":
        # the log barrier needs x < u: make sure the declared box keeps the default start inside
        for d in decls:
            if d["k"] == "vec":
                d.setdefault("ub", min(u) - 0.25)
                d["ub"] = min(d["ub"], min(u) - 0.25)
                if "lb" not in d:
                    d["lb"] = min(xs[nm] for nm in vnames) - 3.0
    D = R.Decls(decls)

    # ---- no linearly dependent active set (constraints *and* bounds) --------
    # x[1] <= c as a constraint next to the active declared bound x[1] >= c pins the coordinate between two inequalities: the feasible
    # set has no interior and the multipliers are not unique, so where an interior-point run of SciPy stops is a matter of round-off
    # (met in the thorough tier, seed 3: the direct run itself ended 5e-9 or 3e-6 above f* depending on the start).  Drawn again.
    rows_ = []
    for c in cons:
        if c.get("active"):
            jc, _ = R.ref_jet(D, c["g"], names, xs, order=1)
            rows_.append([float(v) for v in jc.g])
    for nm, b_ in binfo.items():
        if b_[2]:
            rows_.append([1.0 if k_ == idx[nm] else 0.0 for k_ in range(N)])
    if len(rows_) >= 2 and np.linalg.matrix_rank(np.array(rows_), tol=1e-9) < len(rows_):
        return draw_convex(rng, family=family, n=n, constrained=constrained, bounds=bounds, sense=sense, scalars=scalars,
                           simple_constraints_only=simple_constraints_only)

    # ---- the linear term ----------------------------------------------------
    j0, _ = R.ref_jet(D, f0, names, xs, order=1)
    g = -np.array(j0.g, dtype=float)
    for c in cons:
        if c["lam"] != 0.0:
            jc, _ = R.ref_jet(D, c["g"], names, xs, order=1)
            g -= c["lam"] * np.array(jc.g)
    g += mu
    lin = None
    if vnames and rng.random() < 0.6:
        lin = ["matmul", ["arr", [float(g[idx[nm]]) for nm in vnames]], x]
        rest = [nm for nm in names if nm not in vnames]
    else:
        rest = list(names)
    for nm in rest:
        t = ["bin", "*", ["raw", float(g[idx[nm]]), "float"], _vnode(D, nm)]
        lin = t if lin is None else ["bin", "+", lin, t]
    k0 = q(rng, -2, 2) if rng.random() < 0.5 else 0.0
    f = ["bin", "+", ["bin", "+", f0, lin], ["raw", k0, "float"]]
    sense = sense or rng.choice(["min", "max"])
    objective = f if sense == "min" else ["neg", f]
    fstar, _ = R.ref_value(D, f, xs)
    return {
        "decls": decls,
        "family": family,
        "names": names,
        "objective": objective,
        "fmin": f,  # the function being minimised (objective or its negation)
        "sense": sense,
        "constraints": [c["rel"] for c in cons],
        "cons": cons,
        "xstar": xs,
        "fstar": float(fstar),  # minimum of fmin
        "active_bounds": {nm: b[2] for nm, b in binfo.items() if b[2]},
    }


def _vnode(D, nm):
    """recipe node denoting the scalar variable named nm"""
    if "[" not in nm:
        return ["var", nm]
    base, i = nm[:-1].split("[")
    if "," in i:
        r_, c_ = i.split(",")
        return ["mel", ["mat", base], int(r_), int(c_)]
    return ["el", ["vec", base], int(i)]


def infeasible_variant(rng, prob):
    """Add contradictory constraints to a convex problem (infeasible by construction)."""
    D = R.Decls(prob["decls"])
    names = prob["names"]
    kind = rng.choice(["contradictory-ineq", "contradictory-eq", "ball-halfspace", "bound-like"])
    p = dict(prob)
    cons = list(prob["constraints"])
    if kind == "contradictory-ineq":
        sub = rng.sample(names, rng.randint(1, min(3, len(names))))
        lin = None
        for nm in sub:
            t = ["bin", "*", ["raw", q(rng, -2, 2, nz=True), "float"], _vnode(D, nm)]
            lin = t if lin is None else ["bin", "+", lin, t]
        b = q(rng, -1, 1)
        cons += [["rel", "<=", lin, ["raw", b, "float"], "direct"], ["rel", ">=", lin, ["raw", b + 1.0 + abs(q(rng, 0, 2)), "float"], "direct"]]
    elif kind == "contradictory-eq":
        v = _vnode(D, rng.choice(names))
        w = _vnode(D, rng.choice(names))
        s = ["bin", "+", v, w]
        cons += [["rel", "==", s, ["raw", 1.0, "float"], "direct"], ["rel", "==", s, ["raw", 3.0, "float"], "direct"]]
    elif kind == "ball-halfspace":
        sq = None
        for nm in names:
            t = ["bin", "**", _vnode(D, nm), ["raw", 2, "int"]]
            sq = t if sq is None else ["bin", "+", sq, t]
        cons += [["rel", "<=", sq, ["raw", 1.0, "float"], "direct"], ["rel", ">=", _vnode(D, names[0]), ["raw", 2.0, "float"], "direct"]]
    else:
        v = _vnode(D, rng.choice(names))
        cons += [["rel", ">=", v, ["raw", 3.0, "float"], "direct"], ["rel", "<=", v, ["raw", 1.0, "float"], "direct"]]
    p["constraints"] = cons
    p["infeasible"] = kind
    return p
