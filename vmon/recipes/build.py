"""Turn recipes into optyx objects through the public API only.

Operator syntax is used on purpose so that Python's real dispatch
(__radd__, __rmatmul__, __array_ufunc__ = None, NumPy scalar comparisons)
is what runs.
"""
from __future__ import annotations

import operator

import numpy as np

from . import ast as A
from .ast import SCALAR_KINDS, VECTOR_KINDS, MATRIX_KINDS

_OPS = {
    "+": operator.add,
    "-": operator.sub,
    "*": operator.mul,
    "/": operator.truediv,
    "**": operator.pow,
    "@": operator.matmul,
}


def mk_raw(v, kind):
    if kind in (None, "float"):
        return float(v)
    if kind == "int":
        return int(v)
    if kind == "bool":
        return bool(v)
    if kind == "npf64":
        return np.float64(v)
    if kind == "npi64":
        return np.int64(v)
    if kind == "npf32":
        return np.float32(v)
    if kind == "arr0d":
        return np.array(float(v))
    if kind in ("npf16", "npu8", "npi8", "npi16", "npu16"):
        return {"npf16": np.float16, "npu8": np.uint8, "npi8": np.int8, "npi16": np.int16, "npu16": np.uint16}[kind](v)
    raise ValueError(kind)


# default of Builder(share=...): set per case by the checks that run "shared sub-expression" (DAG) builds
SHARE = [False]


class Builder:
    def __init__(self, decls, fresh_leaves=False, buffers=None, share=None, fresh_vectors=False):
        import optyx

        self.ox = optyx
        # fresh_leaves: every mention of a scalar variable (`a`, `x[2]`) is a *new* Variable object with the declared name, bounds and
        # domain - optyx identifies a variable by its name, so a helper returning Variable(f"x{i}") on every call is a legal model
        self.fresh_leaves = fresh_leaves
        # fresh_vectors: every mention of a declared vector is a NEW VectorVariable of that name (a helper function declaring
        # VectorVariable("w", n) on each call): the same problem variables by name, other element objects
        self.fresh_vectors = fresh_vectors
        self.vec_kw = {}
        self.leaf_kw = {}
        # buffers: a dict shared between Builders - data arrays are then written *in place* into one ndarray per (site, shape), the way a
        # rolling-window script refreshes its covariance buffer and builds a new model per period
        self.buffers = buffers
        self._nbuf = {}
        # share: every distinct sub-recipe is built once and the object reused wherever the sub-recipe occurs again
        # (`t = sin(a * b); e = t * t + t`): the expression is a DAG, as user code with named intermediates produces
        self.share = SHARE[0] if share is None else share
        self._memo = {}
        if not self.share:
            # no extra stack frame per recipe level on the ordinary path (recipes may be 500+ levels deep)
            for nm in ("S", "V", "M"):
                if getattr(type(self), nm) is getattr(Builder, nm):
                    setattr(self, nm, getattr(self, "_" + nm))
        self.env = {}
        self.scalars = {}  # scalar variable name -> Variable object
        self.params = {}  # scalar parameter name -> Parameter object
        for d in decls:
            self._declare(d)

    def _declare(self, d):
        ox = self.ox
        k = d["k"]
        name = d["name"]
        kw = {}
        if d.get("lb") is not None:
            kw["lb"] = d["lb"]
        if d.get("ub") is not None:
            kw["ub"] = d["ub"]
        if d.get("dom", "continuous") != "continuous":
            kw["domain"] = d["dom"]
        if k == "var":
            o = ox.Variable(name, **kw)
            self.scalars[name] = o
            self.leaf_kw[name] = dict(kw)
        elif k == "vec":
            if d.get("via") == "from_numpy":
                # the alternative constructor: size taken from a data array
                o = ox.VectorVariable.from_numpy(name, np.linspace(1.0, 2.0, d["n"]), **kw)
            else:
                o = ox.VectorVariable(name, d["n"], **kw)
            for v in o:
                self.scalars[v.name] = v
                self.leaf_kw[v.name] = dict(kw)
            self.vec_kw[name] = (d["n"], dict(kw))
        elif k == "mat":
            if d.get("sym"):
                kw["symmetric"] = True
            o = ox.MatrixVariable(name, d["r"], d["c"], **kw)
            for i in range(d["r"]):
                for j in range(d["c"]):
                    v = o[i, j]
                    self.scalars[v.name] = v
        elif k == "par":
            o = ox.Parameter(name, d["val"])
            self.params[name] = o
        elif k == "vpar":
            vals_ = list(d["vals"])
            # the user's data in another container / dtype (same numbers): a list of Python ints, an integer array, float32
            as_ = d.get("as")
            if as_ in ("int-list", "int-array") and all(float(v).is_integer() for v in vals_):
                vals_ = [int(v) for v in vals_] if as_ == "int-list" else np.array([int(v) for v in vals_])
            elif as_ == "float32-array" and all(float(np.float32(v)) == float(v) for v in vals_):
                vals_ = np.array(vals_, dtype=np.float32)
            o = ox.VectorParameter(name, len(d["vals"]), vals_)
            for i in range(len(d["vals"])):
                self.params[f"{name}[{i}]"] = o[i]
        elif k == "mpar":
            o = ox.MatrixParameter(name, np.array(d["vals"], dtype=float), symmetric=bool(d.get("sym")))
        else:
            raise ValueError(k)
        self.env[name] = o

    @staticmethod
    def uarr(values, form):
        """the user's data array in another legal representation: an integer / unsigned / narrow dtype (values must be representable),
        or a 2-D array that is not C-contiguous (Fortran order, a transposed view, a flipped or strided view) - same logical content"""
        a = np.array(values)
        if form in (None, "C"):
            return a
        if form == "F":
            return np.asfortranarray(a.astype(float))
        if form == "T":
            return np.array(a.T.astype(float), order="C").T  # transposed view of the transposed data
        if form == "flipud":
            return np.flipud(np.array(a[::-1].astype(float)))
        if form == "fliplr":
            return np.fliplr(np.array(a[:, ::-1].astype(float))) if a.ndim == 2 else a[::-1].astype(float)[::-1]
        if form == "strided":
            big = np.zeros(tuple(2 * k for k in a.shape), dtype=float)
            big[(slice(None, None, 2),) * a.ndim] = a
            return big[(slice(None, None, 2),) * a.ndim]
        out = a.astype(getattr(np, form))
        if not np.array_equal(out.astype(float), a.astype(float)):
            raise ValueError(f"values {values} not representable as {form}")
        return out

    def farr(self, values, site=""):
        a = np.array(values, dtype=float)
        if self.buffers is None:
            return a
        # the k-th array of this shape written by this model goes to the k-th buffer: two arrays of one model never share storage
        self._nbuf[(site, a.shape)] = k = self._nbuf.get((site, a.shape), 0) + 1
        key = (site, a.shape, k)
        buf = self.buffers.get(key)
        if buf is None:
            buf = self.buffers[key] = np.empty(a.shape, dtype=float)
        buf[...] = a
        return buf

    # ------------------------------------------------------------------
    def any(self, n):
        k = n[0]
        if k in SCALAR_KINDS:
            return self.S(n)
        if k in VECTOR_KINDS:
            return self.V(n)
        if k in MATRIX_KINDS:
            return self.M(n)
        raise ValueError(k)

    def variables(self, names):
        """Variable objects for scalar variable names; unknown names become fresh decoys."""
        out = []
        for nm in names:
            if nm not in self.scalars:
                self.scalars[nm] = self.ox.Variable(nm)
            out.append(self.scalars[nm])
        return out

    # ------------------------------------------------------------------
    def _shared(self, kind, f, n):
        if not self.share or n[0] in ("raw", "const", "list", "tuple", "list2"):
            return f(n)
        key = kind + A.canon(n)
        if key not in self._memo:
            self._memo[key] = f(n)
        return self._memo[key]

    def S(self, n):
        return self._shared("S", self._S, n)

    def V(self, n):
        return self._shared("V", self._V, n)

    def M(self, n):
        return self._shared("M", self._M, n)

    def _S(self, n):
        ox = self.ox
        k = n[0]
        if k == "var":
            if self.fresh_leaves and n[1] in self.leaf_kw:
                kw_ = dict(self.leaf_kw[n[1]])
                if self.fresh_leaves == "other-domain":
                    # a re-declaration of the same name with another domain (a relaxed copy next to the integer original)
                    self._nfresh = getattr(self, "_nfresh", 0) + 1
                    if self._nfresh % 2:
                        kw_.pop("domain", None)
                return ox.Variable(n[1], **kw_)
            return self.env[n[1]]
        if k == "const":
            return ox.Constant(mk_raw(n[1], n[2] if len(n) > 2 else None))
        if k == "raw":
            return mk_raw(n[1], n[2] if len(n) > 2 else None)
        if k == "par":
            return self.env[n[1]]
        if k == "pel":
            return self.env[n[1]][n[2]]
        if k == "el":
            if self.fresh_leaves and n[1][0] == "vec":
                nm = self.V(n[1])[n[2]].name
                if nm in self.leaf_kw:
                    kw_ = dict(self.leaf_kw[nm])
                    if self.fresh_leaves == "other-domain":
                        self._nfresh = getattr(self, "_nfresh", 0) + 1
                        if self._nfresh % 2:
                            kw_.pop("domain", None)
                    return ox.Variable(nm, **kw_)
            return self.V(n[1])[n[2]]
        if k == "mel":
            return self.M(n[1])[n[2], n[3]]
        if k == "bin":
            return _OPS[n[1]](self.S(n[2]), self.S(n[3]))
        if k == "neg":
            return -self.S(n[1])
        if k == "pos":
            return +self.S(n[1])
        if k == "fn":
            return getattr(ox, "abs_" if n[1] == "abs" else n[1])(self.S(n[2]))
        if k == "sum":
            return self.V(n[1]).sum()
        if k == "dot":
            return self.V(n[1]).dot(self.V(n[2]))
        if k == "matmul":
            return self.V(n[1]) @ self.V(n[2])
        if k == "norm":
            v = self.V(n[1])
            if len(n) > 3 and n[3] == "method":
                return v.norm(n[2])
            from optyx.core.vectors import norm

            return norm(v, n[2])
        if k == "qf":
            if len(n) > 3 and n[3] not in (None, "C"):
                return ox.quadratic_form(self.V(n[1]), self.uarr(n[2], n[3]) if n[3] != "list" else [list(r) for r in n[2]])
            return ox.quadratic_form(self.V(n[1]), self.farr(n[2], "qf"))
        if k == "dotQ":
            if len(n) > 4 and n[4] not in (None, "C"):
                return self.V(n[1]).dot(self.uarr(n[2], n[4]) @ self.V(n[3]))
            return self.V(n[1]).dot(self.farr(n[2], "dotQ") @ self.V(n[3]))
        if k == "dotP":
            sp = n[4] if len(n) > 4 else None
            if sp == "quadratic_form":  # the MatrixParameter handed to the function API directly
                return ox.quadratic_form(self.V(n[1]), self.env[n[2]])
            if sp == "matmul":
                return self.V(n[1]).dot(ox.matmul(self.env[n[2]], self.V(n[3])))
            return self.V(n[1]).dot(self.env[n[2]] @ self.V(n[3]))
        if k == "msum":
            return self.M(n[1]).sum()
        if k == "fro":
            return ox.frobenius_norm(self.M(n[1]))
        if k == "trace":
            m = self.M(n[1])
            if len(n) > 2 and n[2] == "method":
                return m.trace()
            return ox.trace(m)
        raise ValueError(f"scalar node {k}")

    def _V(self, n):
        ox = self.ox
        k = n[0]
        if k == "vec":
            if self.fresh_vectors and n[1] in self.vec_kw:
                size, kw_ = self.vec_kw[n[1]]
                return ox.VectorVariable(n[1], size, **kw_)
            return self.env[n[1]]
        if k == "vparv":
            return self.env[n[1]]
        if k == "slice":
            return self.V(n[1])[slice(n[2], n[3], n[4])]
        if k == "row":
            return self.M(n[1])[n[2], :]
        if k == "col":
            return self.M(n[1])[:, n[2]]
        if k == "rows":
            return self.M(n[1])[n[2], slice(n[3], n[4], n[5])]
        if k == "cols":
            return self.M(n[1])[slice(n[3], n[4], n[5]), n[2]]
        if k == "diag":
            return self.M(n[1]).diagonal()
        if k == "diagf":
            return ox.diag(self.M(n[1]))
        if k == "arr":
            if len(n) > 2 and n[2] not in (None, "C"):
                return self.uarr(n[1], n[2])
            a = np.array(n[1])
            return self.farr(n[1], "arr") if self.buffers is not None and a.dtype == float else a
        if k == "list":
            return list(n[1])
        if k == "tuple":
            return tuple(n[1])
        if k == "vbin":
            return _OPS[n[1]](self.V(n[2]), self.any(n[3]))
        if k == "vrbin":
            return _OPS[n[1]](self.any(n[2]), self.V(n[3]))
        if k == "vneg":
            return -self.V(n[1])
        if k == "vpow":
            return self.V(n[1]) ** n[2]
        if k == "vfn":
            return getattr(ox, "abs_" if n[1] == "abs" else n[1])(self.V(n[2]))
        if k == "mv":
            v = self.V(n[2])
            if len(n) > 3 and n[3] not in (None, "C"):
                Mx = self.uarr(n[1], n[3])
                return (Mx @ v) if isinstance(v, ox.VectorVariable) else ox.matmul(Mx, v)
            if isinstance(v, ox.VectorVariable):
                return self.farr(n[1], "mv") @ v
            # `2-D array @ VectorExpression` is not an operator form of the API; the public function is
            return ox.matmul(self.farr(n[1], "mv"), v)
        if k == "Mv":
            return self.M(n[1]) @ self.V(n[2])
        if k == "vM":
            Mx = np.array(n[2], dtype=float) if (len(n) < 4 or n[3] != "list") else [list(r_) for r_ in n[2]]
            v = self.V(n[1])
            return v.dot(Mx) if (len(n) > 3 and n[3] == "dot") else v @ Mx
        if k == "velems":
            from optyx.core.vectors import VectorExpression

            return VectorExpression([self.S(e) for e in n[1]])
        raise ValueError(f"vector node {k}")

    def _M(self, n):
        ox = self.ox
        k = n[0]
        if k == "mat":
            return self.env[n[1]]
        if k in ("T", "MT"):
            return self.M(n[1]).T
        if k == "sub":
            return self.M(n[1])[n[2]:n[3], n[4]:n[5]]
        if k == "dmat":
            return ox.diag_matrix(self.V(n[1]))
        if k == "arr2":
            if len(n) > 2 and n[2] not in (None, "C"):
                return self.uarr(n[1], n[2])
            a = np.array(n[1])
            return self.farr(n[1], "arr2") if self.buffers is not None and a.dtype == float else a
        if k == "list2":
            return [list(r) for r in n[1]]
        if k == "mbin":
            return _OPS[n[1]](self.M(n[2]), self.any(n[3]))
        if k == "mrbin":
            return _OPS[n[1]](self.any(n[2]), self.M(n[3]))
        if k == "mneg":
            return -self.M(n[1])
        raise ValueError(f"matrix node {k}")

    # ------------------------------------------------------------------
    def set_params(self, values):
        """Parameter.set / VectorParameter.set for {"p": 2.0, "w": [..]} (names not declared are skipped; lists are cut / repeated
        to the declared length, like exprcase.with_param_values)"""
        for name, val in values.items():
            o = self.env.get(name)
            if o is None:
                continue
            if isinstance(val, (list, tuple)):
                n_ = len(o)
                o.set([float(val[i % len(val)]) for i in range(n_)])
            else:
                o.set(val)

    def rel(self, n):
        """Constraint(s) from ["rel", sense, lhs, rhs, form]."""
        s = n[1]
        lhs, rhs = self.any(n[2]), self.any(n[3])
        form = n[4] if len(n) > 4 else "direct"
        if s == "==":
            return lhs.eq(rhs)
        if form == "reflected":
            return (rhs >= lhs) if s == "<=" else (rhs <= lhs)
        return (lhs <= rhs) if s == "<=" else (lhs >= rhs)

    def problem(self, rec, touch=None):
        """Problem from {"objective","sense","constraints":[rel...]}.
        rec["staged"] = {"after": k}: after the first k constraints the half-written model is inspected / solved by `touch(P)`
        (a user checking the model before adding the rest); rec["batch"] = True: all constraints are handed to ONE subject_to call
        as a single flat list."""
        P = self.ox.Problem()
        if rec.get("objective") is not None:
            obj = self.S(rec["objective"])
            if rec.get("sense", "min") == "min":
                P.minimize(obj)
            else:
                P.maximize(obj)
        staged = rec.get("staged")
        cons = rec.get("constraints", [])
        if rec.get("batch") and cons:
            flat = []
            for c in cons:
                r = self.rel(c)
                flat.extend(r if isinstance(r, (list, tuple)) else [r])
            if staged is not None and touch is not None:
                touch(P)
            P.subject_to(flat)
            cons = []
        for k, c in enumerate(cons):
            if staged is not None and touch is not None and k == staged.get("after", 0):
                touch(P)
            P.subject_to(self.rel(c))
        # bounds assigned on the Variable objects after the model was written
        for nm, (lb, ub) in (rec.get("bound_edits") or {}).items():
            v = self.variables([nm])[0]
            v.lb, v.ub = lb, ub
        return P


def point_array(names, point):
    return np.array([float(point[n]) for n in names], dtype=float)
