"""Scalar-expression workload items shared by C01, C02, C03, C04, C17, C19:
directed families (every public scalar node kind), variable-list relations,
regular points."""
from __future__ import annotations

import random

from .recipes import ast as A
from .recipes import gen as G
from .recipes import ref as R

VRELS = ["exact", "permuted", "superset", "superset_permuted"]

# standard declaration pool of the directed families
D0 = [
    {"k": "var", "name": "x10"},
    {"k": "var", "name": "a"},
    {"k": "vec", "name": "y", "n": 3},
    {"k": "var", "name": "b"},
    {"k": "vec", "name": "x", "n": 4},
    {"k": "mat", "name": "A", "r": 2, "c": 3},
    {"k": "mat", "name": "G", "r": 3, "c": 3, "sym": True},
    {"k": "par", "name": "p", "val": 1.5},
    {"k": "vpar", "name": "r", "vals": [0.5, -1.0, 2.0]},
    {"k": "var", "name": "x2"},
]

_a, _b, _x2 = ["var", "a"], ["var", "b"], ["var", "x2"]
_x, _y, _A, _Gm = ["vec", "x"], ["vec", "y"], ["mat", "A"], ["mat", "G"]
Q3 = [[2.0, -0.5, 0.25], [1.0, 1.5, 0.0], [-0.75, 0.5, 3.0]]
Q4 = [[2.0, -0.5, 0.25, 0.0], [1.0, 1.5, 0.0, 0.5], [-0.75, 0.5, 3.0, 1.0], [0.0, -1.0, 0.25, 2.5]]


def _pos(e):
    """e**2 + 1.5 : strictly positive wrapper for domain-restricted functions."""
    return ["bin", "+", ["bin", "**", e, ["raw", 2, "int"]], ["raw", 1.5, "float"]]


def _unit(e):
    """tanh(e)*0.9 in (-0.9, 0.9)"""
    return ["bin", "*", ["fn", "tanh", e], ["raw", 0.9, "float"]]


def directed_families():
    """(family, node) over D0: one entry per public scalar node kind / spelling."""
    F = []
    ab = ["bin", "+", ["bin", "*", _a, ["raw", 2, "int"]], _b]
    for f in R.FUNCS:
        arg = ab
        if f in ("log", "log2", "log10", "sqrt"):
            arg = _pos(ab)
        elif f in ("asin", "acos", "atanh"):
            arg = _unit(ab)
        elif f == "acosh":
            arg = _pos(ab)
        F.append((f"fn:{f}", ["fn", f, arg]))
    F.append(("neg", ["neg", ab]))
    F.append(("pos", ["pos", ab]))
    for op in ["+", "-", "*", "/"]:
        F.append((f"bin:{op}", ["bin", op, ab, _pos(_x2)]))
        F.append((f"bin:{op}:raw-right", ["bin", op, ab, ["raw", 2.5, "float"]]))
        F.append((f"bin:{op}:raw-left", ["bin", op, ["raw", 3, "int"], _pos(ab)]))
        F.append((f"bin:{op}:npf64-left", ["bin", op, ["raw", 1.5, "npf64"], _pos(ab)]))
        F.append((f"bin:{op}:const", ["bin", op, ab, ["const", 2.0, "float"]]))
    for k, kind in [(2, "int"), (3, "int"), (0, "int"), (1, "int"), (-1, "int"), (-2, "int"), (0.5, "float"), (1.5, "float"), (2.0, "float")]:
        base = _pos(ab) if (k < 0 or k != int(k)) else ab
        F.append((f"pow:{k}", ["bin", "**", base, ["raw", k, kind]]))
    F.append(("pow:var-exponent", ["bin", "**", _pos(_a), ["bin", "-", _b, _x2]]))
    F.append(("pow:raw-base", ["bin", "**", ["raw", 2.0, "float"], ab]))
    F.append(("par", ["bin", "+", ["bin", "*", ["par", "p"], _a], ["fn", "sin", ["bin", "*", ["par", "p"], _b]]]))
    F.append(("pel", ["bin", "+", ["bin", "*", ["pel", "r", 1], _a], ["pel", "r", 2]]))
    F.append(("par:quadratic-coefficient", ["bin", "+", ["bin", "*", ["par", "p"], ["bin", "**", _a, ["raw", 2, "int"]]], ["bin", "*", ["bin", "*", ["pel", "r", 0], _a], _b]]))
    F.append(("par:exponent", ["bin", "+", ["bin", "**", _pos(_a), ["par", "p"]], ["bin", "*", _b, _x2]]))
    F.append(("par:weight-times-nonlinear", ["bin", "+", ["bin", "*", ["par", "p"], ["fn", "sin", ["bin", "*", _a, _b]]], ["bin", "**", _b, ["raw", 2, "int"]]]))
    F.append(("par:in-denominator", ["bin", "/", _a, ["bin", "+", ["bin", "**", ["par", "p"], ["raw", 2, "int"]], ["raw", 1.0, "float"]]]))
    F.append(("el", ["bin", "*", ["el", _x, 2], ["el", ["slice", _x, 1, 4, None], 0]]))
    F.append(("mel", ["bin", "*", ["mel", _A, 1, 2], ["mel", ["T", _A], 2, 0]]))
    F.append(("mel:sym", ["bin", "-", ["mel", _Gm, 2, 0], ["bin", "*", ["raw", 2, "int"], ["mel", _Gm, 0, 2]]]))
    # pure bilinear / scaled terms over exactly their own variables (rows of the form c * <variable>)
    F.append(("bilinear:2ab", ["bin", "*", ["bin", "*", ["raw", 2, "int"], _a], _b]))
    F.append(("bilinear:a(b2)", ["bin", "*", _a, ["bin", "*", _b, ["raw", 2.0, "float"]]]))
    F.append(("bilinear:-3ba", ["bin", "*", ["bin", "*", ["raw", -3.0, "float"], _b], _a]))
    F.append(("bilinear:ab+b*x2", ["bin", "+", ["bin", "*", _a, _b], ["bin", "*", _b, _x2]]))
    F.append(("scaled:3a", ["bin", "*", ["raw", 3.0, "float"], _a]))
    F.append(("scaled:sq-sum", ["bin", "+", ["bin", "**", _a, ["raw", 2, "int"]], ["bin", "**", _b, ["raw", 2, "int"]]]))
    # vector reductions
    F.append(("sum:vec", ["sum", _x]))
    F.append(("sum:slice", ["sum", ["slice", _x, 1, 3, None]]))
    F.append(("sum:reversed", ["sum", ["slice", _x, None, None, -1]]))
    F.append(("sum:vexpr", ["sum", ["vbin", "-", ["vbin", "*", _x, ["raw", 2.0, "float"]], ["arr", [1.0, -2.0, 0.5, 3.0]]]]))
    for k in [1, 2, 3, 0.5, -1, 2.5, 0, 4]:
        F.append((f"sum:vpow:{k}", ["sum", ["vpow", _x, k]]))
    F.append(("sum:vpow:slice", ["sum", ["vpow", ["slice", _x, 1, 4, 2], 3]]))
    for f in R.VEC_FUNCS:
        F.append((f"sum:vfn:{f}", ["sum", ["vfn", f, _y]]))
    F.append(("sum:vfn:row", ["sum", ["vfn", "exp", ["row", _A, 1]]]))
    F.append(("el:vpow", ["el", ["vpow", _x, 3], 1]))
    F.append(("el:vfn", ["el", ["vfn", "cos", _x], 2]))
    F.append(("dot:same", ["dot", _x, _x]))
    F.append(("dot:two", ["dot", ["slice", _x, 0, 3, None], _y]))
    F.append(("dot:overlap", ["dot", ["slice", _x, 0, 3, None], ["slice", _x, 1, 4, None]]))
    F.append(("dot:reversed", ["dot", _x, ["slice", _x, None, None, -1]]))
    F.append(("dot:vexpr", ["dot", ["vbin", "+", _y, ["raw", 1.0, "float"]], ["vfn", "sin", ["vbin", "*", _y, ["raw", 2.0, "float"]]]]))
    F.append(("dot:mixed", ["dot", _y, ["vbin", "-", ["row", _A, 0], _y]]))
    F.append(("matmul:vec-vec", ["matmul", _y, ["col", _Gm, 1]]))
    F.append(("matmul:arr-vec", ["matmul", ["arr", [1.5, -2.0, 0.25]], _y]))
    F.append(("matmul:vec-arr", ["matmul", _y, ["arr", [1.5, -2.0, 0.25]]]))
    F.append(("matmul:vec-list", ["matmul", _y, ["list", [1, -2, 3]]]))
    F.append(("matmul:arr-vexpr", ["matmul", ["arr", [1.5, -2.0, 0.25]], ["vbin", "+", _y, ["raw", 1.0, "float"]]]))
    F.append(("matmul:vexpr-arr", ["matmul", ["vbin", "*", _y, ["raw", 2, "int"]], ["arr", [1.5, -2.0, 0.25]]]))
    F.append(("norm:2", ["norm", _y, 2, "method"]))
    F.append(("norm:1", ["norm", _y, 1, "method"]))
    F.append(("norm:2:vexpr", ["norm", ["vbin", "-", _y, ["arr", [0.5, 0.25, -1.0]]], 2]))
    F.append(("norm:1:vexpr", ["norm", ["vbin", "-", _y, ["arr", [0.5, 0.25, -1.0]]], 1]))
    F.append(("qf", ["qf", _y, Q3]))
    F.append(("qf:vexpr", ["qf", ["vbin", "-", _y, ["raw", 1.0, "float"]], Q3]))
    F.append(("dotQ:same", ["dotQ", _y, Q3, _y]))
    F.append(("dotQ:other", ["dotQ", _y, Q3, ["slice", _x, 1, 4, None]]))
    F.append(("dotQ:same-name", ["dotQ", ["slice", _x, 1, 4, None], Q3, ["slice", _x, 3, 0, -1]]))
    F.append(("mv:el", ["el", ["mv", Q3, _y], 1]))
    F.append(("Mv:el", ["el", ["Mv", _A, _y], 1]))
    F.append(("Mv:sum", ["sum", ["Mv", _Gm, _y]]))
    # matrix reductions
    F.append(("msum:mat", ["msum", _A]))
    F.append(("msum:sym", ["msum", _Gm]))
    F.append(("msum:T", ["msum", ["T", _A]]))
    F.append(("msum:sub", ["msum", ["sub", _Gm, 0, 2, 1, 3]]))
    F.append(("msum:mexpr", ["msum", ["mbin", "*", ["mbin", "-", _A, ["raw", 1.0, "float"]], ["arr2", [[1.0, 2.0, -1.0], [0.5, 0.0, 2.0]]]]]))
    F.append(("msum:hadamard", ["msum", ["mbin", "*", _A, ["T", ["sub", _Gm, 0, 3, 0, 2]]]]))
    # reductions of views of a symmetric matrix that hold one variable at two positions (blocks straddling the diagonal)
    F.append(("fro:sym-principal-block", ["fro", ["sub", _Gm, 0, 2, 0, 2]]))
    F.append(("fro:sym-straddling-block", ["fro", ["sub", _Gm, 1, 3, 0, 3]]))
    F.append(("msum:sym-principal-block", ["msum", ["sub", _Gm, 0, 2, 0, 2]]))
    F.append(("msum:sym-straddling-block.T", ["msum", ["T", ["sub", _Gm, 0, 3, 1, 3]]]))
    F.append(("fro:sym.T", ["fro", ["T", _Gm]]))
    F.append(("qf:triangular", ["qf", ["vbin", "-", _y, ["arr", [0.5, -0.25, 1.0]]], [[2.0, 0.0, 0.0], [1.0, 1.5, 0.0], [-0.75, 0.5, 3.0]]]))
    F.append(("qf:upper-triangular", ["qf", _y, [[2.0, 1.0, -0.5], [0.0, 1.5, 0.25], [0.0, 0.0, 3.0]]]))
    # the constant matrix of a quadratic form in other dtypes: the numbers are what counts, not the container's arithmetic
    F.append(("qf:int8-matrix", ["qf", _y, [[2, -1, 0], [1, 3, 0], [-1, 1, 3]], "int8"]))
    F.append(("qf:uint8-matrix", ["qf", _y, [[200, 100, 0], [90, 150, 10], [0, 20, 250]], "uint8"]))
    F.append(("qf:bool-matrix", ["qf", _y, [[1, 0, 1], [1, 1, 0], [0, 1, 1]], "bool_"]))
    F.append(("qf:nested-int-list", ["qf", _y, [[2, -1, 0], [1, 3, 0], [-1, 1, 3]], "list"]))
    F.append(("qf:vexpr:int64-matrix", ["qf", ["vbin", "-", _y, ["raw", 0.5, "float"]], [[2, -1, 0], [1, 3, 0], [-1, 1, 3]], "int64"]))
    F.append(("dotQ:uint8-matrix", ["dotQ", _y, [[200, 100, 0], [90, 150, 10], [0, 20, 250]], _y, "uint8"]))
    F.append(("fro", ["fro", _A]))
    F.append(("fro:sym", ["fro", _Gm]))
    F.append(("trace:fn", ["trace", _Gm]))
    F.append(("trace:method", ["trace", _Gm, "method"]))
    F.append(("diag:sum", ["sum", ["diag", _Gm]]))
    F.append(("diagf:dot", ["dot", ["diagf", _Gm], _y]))
    # vectors packed from scalars by hand, VectorExpression([a, b, x[2]]): bare variables / constants as elements
    packed = ["velems", [_a, _b, ["el", _x, 2]]]
    packed_c = ["velems", [_a, ["const", 2.5, "float"], _b, ["const", -1.0, "float"], ["el", _x, 0]]]
    F.append(("packed:sum-of-bare-variables", ["sum", packed]))
    F.append(("packed:sum-with-constants", ["sum", packed_c]))
    F.append(("packed:dot", ["dot", packed, ["velems", [_b, ["const", 1.5, "float"], _a]]]))
    F.append(("packed:dot-with-vector", ["dot", packed, _y]))
    F.append(("packed:norm2", ["norm", ["velems", [_a, ["const", 0.75, "float"], _b]], 2]))
    F.append(("packed:norm1", ["norm", ["velems", [_a, _b, ["const", -0.5, "float"]]], 1]))
    F.append(("packed:weights", ["matmul", ["arr", [1.5, -2.0, 0.25]], packed]))
    F.append(("packed:sum-of-mixed", ["sum", ["velems", [_a, ["bin", "*", _a, _b], ["const", 3.0, "float"], ["fn", "sin", _b], _b]]]))
    # narrow NumPy dtypes whose own arithmetic would wrap: the numbers are what counts (2 * (int8 w @ y), uint8 scalar coefficients ...)
    F.append(("narrow:2*(int8 w@y)", ["bin", "*", ["raw", 2, "int"], ["matmul", ["arr", [90, -100, 127], "int8"], _y]]))
    F.append(("narrow:(uint8 w@y)*3", ["bin", "*", ["matmul", ["arr", [200, 100, 250], "uint8"], _y], ["raw", 3, "int"]]))
    F.append(("narrow:-2*(y@int16 w)+1", ["bin", "+", ["bin", "*", ["raw", -2, "int"], ["matmul", _y, ["arr", [30000, -20000, 123], "int16"]]], ["raw", 1, "int"]]))
    F.append(("narrow:float32 w@y scaled", ["bin", "*", ["raw", 3, "int"], ["matmul", ["arr", [0.5, 0.75, -0.25], "float32"], _y]]))
    F.append(("narrow:uint8-coefficient*a**3", ["bin", "*", ["raw", 60, "npu8"], ["bin", "**", _a, ["raw", 3, "int"]]]))
    F.append(("narrow:int8-exponent", ["bin", "**", _pos(_a), ["raw", 12, "npi8"]]))
    F.append(("narrow:int16-coefficient*a**4*b", ["bin", "*", ["bin", "*", ["raw", 3000, "npi16"], ["bin", "**", _a, ["raw", 4, "int"]]], _b]))
    F.append(("narrow:uint8-coefficient*sin", ["bin", "*", ["raw", 200, "npu8"], ["fn", "sin", ["bin", "*", ["raw", 3, "int"], _a]]]))
    # compositions across kinds
    F.append(("mix:1", ["bin", "+", ["bin", "*", ["sum", ["vpow", _x, 2]], ["fn", "exp", ["neg", _a]]], ["bin", "/", ["dot", _y, _y], _pos(_b)]]))
    F.append(("mix:2", ["fn", "log", _pos(["bin", "-", ["qf", _y, Q3], ["matmul", ["arr", [1.0, 2.0, 3.0]], _y]])]))
    F.append(("mix:3", ["bin", "*", ["norm", ["vbin", "+", _y, ["raw", 2.0, "float"]], 2], ["fn", "cos", ["trace", _Gm]]]))
    return F


def fresh_decoys(D, used):
    names = set(D.all_var_names())
    out = [n for n in D.all_var_names() if n not in used][:3]
    for cand in ("zz", "x[10]", "a0", "y[7]", "A[1,10]"):
        if cand not in names and cand not in used:
            out.append(cand)
    return out


def make_V(rng, D, used, vrel):
    base = R.natural_sorted(used)
    if vrel == "exact":
        return base
    if vrel == "permuted":
        v = list(base)
        if len(v) > 1:
            for _ in range(5):
                rng.shuffle(v)
                if v != base:
                    break
        return v
    dec = fresh_decoys(D, used)
    k = rng.randint(1, min(3, len(dec)))
    sup = R.natural_sorted(set(base) | set(rng.sample(dec, k)))
    if vrel == "superset":
        return sup
    v = list(sup)
    for _ in range(5):
        rng.shuffle(v)
        if v != sup:
            break
    return v


def vary_params(rng, decls):
    """Copy of decls with initial parameter values drawn per case, including the structural values 0 and 1
    (a derivative whose *shape* was decided from the value at differentiation time must still follow set())."""
    import copy

    if not any(d["k"] in ("par", "vpar") for d in decls):
        return decls
    out = copy.deepcopy(decls)
    for d in out:
        if d["k"] == "par":
            d["val"] = rng.choice([0.0, 1.0, 1.5, 2.0, -1.0, 0.5, 3.0])
        elif d["k"] == "vpar":
            d["vals"] = [rng.choice([0.0, 1.0, -1.0, 0.5, 2.0]) for _ in d["vals"]]
    return out


def with_param_values(decls, values):
    """copy of decls with the given parameter values ({"p": 2.0, "r": [..]}; lists are cut / padded to the declared length)"""
    import copy

    out = copy.deepcopy(decls)
    for d in out:
        if d["k"] == "par" and d["name"] in values:
            d["val"] = float(values[d["name"]])
        elif d["k"] == "vpar" and d["name"] in values:
            v = list(values[d["name"]])
            d["vals"] = [float(v[i % len(v)]) for i in range(len(d["vals"]))]
    return out


def finish_case(rng, decls, node, vrel, family, n_points=3, margin=1e-2):
    """Attach V and regular points; None when no regular point was found."""
    decls = vary_params(rng, decls)
    D = R.Decls(decls)
    used = R.ref_vars(D, node)
    if not used:
        return None
    V = make_V(rng, D, used, vrel)
    names = list(dict.fromkeys(V + D.all_var_names()))
    pts = []
    for _ in range(n_points):
        pt = G.regular_point(rng, D, node, names, margin=margin)
        if pt is None:
            return None
        pts.append(pt)
    return {"decls": decls, "node": node, "V": V, "vrel": vrel, "family": family, "points": pts}


S_TINY = 2.0 ** -30  # ~9.3e-10: below every absolute tolerance a "don't compare floats with ==" clean-up would pick (1e-8)


def special_families():
    """(family, node, inv_scale): numerically special but perfectly regular data - coefficient arrays / matrices / constant factors of
    tiny uniform scale (exact power of two; the observation is scaled back before it is compared), constants and exponents that are
    only *near* 0, 1 or 2."""
    s = S_TINY
    ab = ["bin", "+", ["bin", "*", _a, ["raw", 2, "int"]], _b]
    sq = lambda M: [[v * s for v in row] for row in M]  # noqa: E731
    F = []
    inv = 1.0 / s
    F.append(("tiny:qf", ["qf", _y, sq(Q3)], inv))
    F.append(("tiny:qf-symmetric", ["qf", _y, sq([[4.0, 1.0, 0.5], [1.0, 9.0, -2.0], [0.5, -2.0, 3.0]])], inv))
    F.append(("tiny:dotQ", ["dotQ", _y, sq(Q3), _y], inv))
    F.append(("tiny:mv-el", ["el", ["mv", sq(Q3), _y], 1], inv))
    F.append(("tiny:arr@vec", ["matmul", ["arr", [1.5 * s, -2.0 * s, 0.25 * s]], _y], inv))
    F.append(("tiny:vec@arr", ["matmul", _y, ["arr", [1.5 * s, -2.0 * s, 0.25 * s]]], inv))
    F.append(("tiny:arr@vexpr", ["matmul", ["arr", [1.5 * s, -2.0 * s, 0.25 * s]], ["vbin", "+", _y, ["raw", 1.0, "float"]]], inv))
    F.append(("tiny:dot-list", ["dot", _y, ["list", [1.0 * s, -2.0 * s, 3.0 * s]]], inv))
    F.append(("tiny:factor*square", ["bin", "*", ["raw", s, "float"], ["bin", "**", ab, ["raw", 2, "int"]]], inv))
    F.append(("tiny:const*sin", ["bin", "*", ["fn", "sin", ab], ["const", s, "float"]], inv))
    F.append(("tiny:factor*vpowsum", ["bin", "*", ["raw", s, "float"], ["sum", ["vpow", _x, 3]]], inv))
    F.append(("tiny:factor*dot", ["bin", "*", ["raw", s, "float"], ["dot", _y, _y]], inv))
    F.append(("tiny:quotient", ["bin", "/", ["bin", "*", _a, _b], ["raw", inv, "float"]], inv))
    F.append(("tiny:msum-mexpr", ["msum", ["mbin", "*", ["mat", "A"], ["arr2", [[1.0 * s, 2.0 * s, -1.0 * s], [0.5 * s, 0.25 * s, 2.0 * s]]]]], inv))
    for c in (1.000001, 0.999999, 1.0 + 2.0 ** -40):
        F.append((f"near-one:factor:{c!r}", ["bin", "*", ["raw", c, "float"], ["bin", "+", ["fn", "exp", _a], _b]], 1.0))
        F.append((f"near-one:divisor:{c!r}", ["bin", "/", ["bin", "*", _a, _b], ["raw", c, "float"]], 1.0))
    for k in (2.000001, 1.000001, 0.999999, 1e-6):
        F.append((f"near-integer-exponent:{k!r}", ["bin", "**", _pos(ab), ["raw", k, "float"]], 1.0))
        F.append((f"near-integer-vpow:{k!r}", ["sum", ["vpow", ["vbin", "+", ["vbin", "*", _y, _y], ["raw", 1.0, "float"]], k]], 1.0))
    F.append(("near-zero:addend", ["bin", "+", ["bin", "*", _a, _b], ["bin", "*", ["raw", 1e-9, "float"], _a]], 1.0))
    return F


def special_cases(rng, mine, n_points=2, vrels=("exact", "superset_permuted")):
    i = 0
    for fam, node, inv in special_families():
        for vrel in vrels:
            i += 1
            if not mine(i):
                continue
            try:
                c = finish_case(rng, D0, node, vrel, "special:" + fam.split(":")[0], n_points)
            except (R.ShapeError, R.OutOfModel):
                c = None
            if c is not None:
                c["inv_scale"] = inv
                c["special"] = fam
                yield c


def other_point_forms(case, margin=0.05):
    """The caller's point in other legal representations: an integer-valued point passed as an int64 ndarray and as a list of Python
    ints (callables must not let the *dtype of the point* leak into the result).  Returns (pt, [(label, array-like)]) or None when the
    small integer points tried are not regular points of the recipe."""
    D = R.Decls(case["decls"])
    node = case.get("node")
    nodes = case.get("nodes") or [node]
    V = case["V"]
    names = list(dict.fromkeys(V + D.all_var_names()))
    for base in (1, 2, 3):
        pt = {nm: float(base + (i * 2 + base) % 3) for i, nm in enumerate(names)}
        try:
            ok = True
            for nd in nodes:
                _, t = R.ref_value(D, nd, pt)
                ok = ok and t.regular(margin)
        except Exception:
            ok = False
        if ok:
            ints = [int(pt[nm]) for nm in V]
            import numpy as np

            return pt, [("int64-array", np.array(ints, dtype=np.int64)), ("list-of-ints", list(ints)), ("int32-array", np.array(ints, dtype=np.int32))]
    return None


def handwritten_cases():
    """Models that the recipe language cannot express (a Parameter and a Variable sharing one name; a negative base under a symbolic
    exponent), written directly against the public API, each with its closed-form value and gradient.
    Returns [(name, build() -> (expr, [variables]), point dict, value, {variable name: partial})]."""
    import math

    import optyx

    out = []

    def c1():
        t, u = optyx.Variable("t"), optyx.Variable("u")
        p = optyx.Parameter("t", 1.5)  # parameters and variables are separate namespaces
        return p * t ** 2 + optyx.sin(p * t) + u * p, [t, u]

    pt = {"t": 0.7, "u": -1.2}
    out.append(("parameter-named-like-a-variable", c1, pt, 1.5 * 0.49 + math.sin(1.05) - 1.8, {"t": 3.0 * 0.7 + 1.5 * math.cos(1.05), "u": 1.5}))

    def c2():
        x, q = optyx.VectorVariable("x", 2), optyx.VectorParameter("x", 2, [2.0, -1.0])
        return q[0] * x[0] * x[1] + q[1] * x[1] ** 2, list(x)

    out.append(("vector-parameter-named-like-a-vector", c2, {"x[0]": 0.5, "x[1]": 1.5}, 2.0 * 0.75 - 2.25, {"x[0]": 3.0, "x[1]": 1.0 - 3.0}))

    def c3():
        a, b, c = optyx.Variable("a"), optyx.Variable("b"), optyx.Variable("c")
        return a ** b + c, [a, c]  # differentiated with respect to a and c only: d/db is undefined at a < 0

    out.append(("negative-base-symbolic-integer-valued-exponent", c3, {"a": -2.0, "b": 3.0, "c": 0.25}, -8.0 + 0.25, {"a": 12.0, "c": 1.0}))

    def c4():
        a, c = optyx.Variable("a"), optyx.Variable("c")
        n = optyx.Parameter("n", 2.0)
        return (a * c) ** n + a, [a, c]

    out.append(("negative-base-parameter-exponent", c4, {"a": -1.5, "c": 2.0}, 9.0 - 1.5, {"a": 2.0 * (-3.0) * 2.0 + 1.0, "c": 2.0 * (-3.0) * (-1.5)}))

    def c5():
        a, k = optyx.Variable("a"), optyx.Variable("k", domain="integer", lb=0, ub=5)
        return (a - 1.0) ** k * 2.0, [a]

    out.append(("negative-base-integer-variable-exponent", c5, {"a": -1.0, "k": 3.0}, -16.0, {"a": 2.0 * 3.0 * 4.0}))
    return out


DAG_FORMS = ["t*t+t", "sin(t)/(t*t+1.5)", "u*u-u/(t*t+2)", "exp(-t*t)*t"]


def dag_variant(node, form):
    """a recipe in which the sub-recipe `node` occurs several times; built with Builder(share=True) every occurrence is the
    same object, i.e. the expression is a DAG (user code with a named intermediate `t`)"""
    t = node
    tt = ["bin", "*", t, t]
    if form == 0:
        return ["bin", "+", tt, t]
    if form == 1:
        return ["bin", "/", ["fn", "sin", t], ["bin", "+", tt, ["raw", 1.5, "float"]]]
    if form == 2:
        u = ["bin", "+", t, ["raw", 1.0, "float"]]
        return ["bin", "-", ["bin", "*", u, u], ["bin", "/", u, ["bin", "+", tt, ["raw", 2.0, "float"]]]]
    return ["bin", "*", ["fn", "exp", ["neg", tt]], t]


def shared_case(rng, case, form=None):
    """the DAG variant of a finished case (same declarations and V relation); None when no regular point is found"""
    form = rng.randrange(len(DAG_FORMS)) if form is None else form
    try:
        c = finish_case(rng, case["decls"], dag_variant(case["node"], form), case["vrel"], case["family"], len(case["points"]))
    except (R.ShapeError, R.OutOfModel):
        return None
    if c is None:
        return None
    c["share"] = True
    c["dag_form"] = DAG_FORMS[form]
    return c


# names that differ only in zero padding (t1 / t01, node7 / node007, vector bases s1 / s01, matrices M2 / M02): different variables,
# although their natural sort keys coincide
TWIN_NAMES = {"a": "t1", "b": "t01", "x": "s1", "y": "s01", "x2": "node7", "x10": "node007", "A": "M2", "G": "M02"}


def _twin(nm):
    base, sep, rest = nm.partition("[")
    return TWIN_NAMES.get(base, base) + sep + rest


def twin_named_case(case):
    """the same finished case with its variables renamed to zero-padded twins (values, V relation and family unchanged)"""
    import copy

    c = copy.deepcopy(case)
    for d in c["decls"]:
        if d["k"] in ("var", "vec", "mat"):
            d["name"] = _twin(d["name"])

    def walk(n):
        if isinstance(n, list):
            if n and isinstance(n[0], str) and n[0] in ("var", "vec", "mat") and len(n) >= 2 and isinstance(n[1], str):
                n[1] = _twin(n[1])
            for x in n:
                walk(x)

    for key in ("node", "nodes"):
        if key in c:
            walk(c[key])
    c["V"] = [_twin(nm) for nm in c["V"]]
    c["points"] = [{_twin(k): v for k, v in pt.items()} for pt in c["points"]]
    c["twin_names"] = True
    return c


def directed_cases(rng, mine, vrels=VRELS, n_points=3):
    i = 0
    for fam, node in directed_families():
        for vrel in vrels:
            i += 1
            if not mine(i):
                continue
            c = finish_case(rng, D0, node, vrel, fam, n_points)
            if c is not None:
                yield c


def random_case(rng, n_points=3, margin=1e-2, **opts):
    g = G.Gen(rng, **opts)
    node = g.scalar()
    vrel = rng.choice(VRELS)
    try:
        return finish_case(rng, g.decls, node, vrel, "random:" + node[0], n_points, margin)
    except (R.ShapeError, R.OutOfModel):
        return None


def required_cells(vrels=VRELS):
    return [f"{fam}|{v}" for fam, _ in directed_families() for v in vrels]


def show(case):
    return {
        "decls": A.render_decls(case["decls"]),
        "expr": A.render(case["node"]),
        "V": case["V"],
        "point": case["points"][0] if case.get("points") else None,
    }
