"""./check <ID> --tier quick|thorough [--replay file]

Parent process: makes sure the offline deps are present, fans the work out to
NSHARDS worker subprocesses (subprocess.run with a timeout each - never a
multiprocessing.Pool), merges what the monitors observed, classifies
violations against known_findings.json, writes evidence/<ID>.json and prints
the verdict lines.
"""
from __future__ import annotations

import argparse
import concurrent.futures as cf
import fcntl
import importlib
import json
import os
import shutil
import subprocess
import sys
import time

HERE = os.path.dirname(os.path.abspath(__file__))
VERIF = os.path.dirname(HERE)
sys.path.insert(0, VERIF)

from vmon import harness as H  # noqa: E402

PY = "/venv/bin/python"
WHEELS = "/opt/veriftools/wheels"
PROPS = ["C%02d" % i for i in range(1, 21)]


def ensure_deps():
    deps = os.path.join(VERIF, ".deps")
    marker = os.path.join(deps, ".ok")
    if os.path.exists(marker):
        return
    os.makedirs(deps, exist_ok=True)
    with open(os.path.join(deps, ".lock"), "w") as lk:
        fcntl.flock(lk, fcntl.LOCK_EX)
        if os.path.exists(marker):
            return
        env = dict(os.environ, PIP_NO_INDEX="1", PIP_DISABLE_PIP_VERSION_CHECK="1")
        r = subprocess.run(
            [PY, "-m", "pip", "install", "-q", "--no-index", "--find-links", WHEELS,
             "--target", deps, "icontract", "deal", "mpmath"],
            env=env, capture_output=True, text=True,
        )
        if r.returncode != 0:
            print("INCONCLUSIVE property=setup reason=offline dependency install failed")
            print(r.stdout[-2000:], r.stderr[-2000:])
            sys.exit(2)
        open(marker, "w").write("ok\n")


def worker_env(repo):
    env = dict(os.environ)
    env["PYTHONPATH"] = os.pathsep.join([os.path.join(repo, "src"), VERIF, os.path.join(VERIF, ".deps")])
    env["PYTHONHASHSEED"] = "0"
    env["VMON_REPO"] = repo
    env["PYTHONDONTWRITEBYTECODE"] = "1"
    env["OMP_NUM_THREADS"] = "1"
    env["OPENBLAS_NUM_THREADS"] = "1"
    env["MKL_NUM_THREADS"] = "1"
    env.pop("OPTYX_VERIF", None)
    return env


def run_shard(prop, tier, seed, shard, repo, work, timeout, replay=None):
    out = os.path.join(work, f"{prop}.{shard}.json")
    cmd = [PY, "-B", "-X", "faulthandler", "-m", "vmon.worker", prop, "--tier", tier, "--seed", str(seed),
           "--shard", str(shard), "--out", out]
    if replay:
        cmd += ["--replay", replay]
    t0 = time.time()
    try:
        r = subprocess.run(cmd, env=worker_env(repo), cwd=VERIF, capture_output=True, text=True, timeout=timeout)
    except subprocess.TimeoutExpired:
        return {"shard": shard, "status": "watchdog", "wall": time.time() - t0}
    if r.returncode != 0 or not os.path.exists(out):
        return {"shard": shard, "status": "crash", "rc": r.returncode, "stderr": r.stderr[-3000:], "stdout": r.stdout[-1000:]}
    with open(out) as f:
        res = json.load(f)
    res["status"] = "ok"
    return res


def main(argv=None):
    ap = argparse.ArgumentParser()
    ap.add_argument("prop")
    ap.add_argument("--tier", default=os.environ.get("VERIF_TIER", "quick"), choices=["quick", "thorough"])
    ap.add_argument("--seed", type=int, default=int(os.environ.get("VERIF_SEED", "0") or 0))
    ap.add_argument("--replay")
    ap.add_argument("--jobs", type=int, default=min(H.NSHARDS, os.cpu_count() or 4))
    ap.add_argument("--repo", default=os.environ.get("VMON_REPO", "/repo"))
    ap.add_argument("--no-evidence", action="store_true")
    ap.add_argument("--verbose", "-v", action="store_true", help="list distinct witnesses per mechanism")
    a = ap.parse_args(argv)
    prop = a.prop.upper() if a.prop.lower() != "selftest" else "selftest"

    ensure_deps()
    t0 = time.time()
    if a.prop.lower() == "contracts":
        return contracts_channel(a)
    work = os.path.join(VERIF, ".work", f"{prop}.{os.getpid()}")
    os.makedirs(work, exist_ok=True)
    try:
        return _run(a, prop, work, t0)
    finally:
        shutil.rmtree(work, ignore_errors=True)


def contracts_channel(a):
    """Secondary channel: the repository's own tests re-run with the Problem.solve contracts installed (record-only)."""
    out = os.path.join(VERIF, "contracts_channel.json")
    env = worker_env(a.repo)
    env["VMON_CONTRACTS_OUT"] = out
    r = subprocess.run([PY, "-m", "pytest", "-q", "-p", "no:cacheprovider", "-p", "vmon.pytest_contracts"], cwd=a.repo, env=env,
                       capture_output=True, text=True, timeout=1800)
    print(r.stdout.strip().splitlines()[-1] if r.stdout.strip() else r.stderr[-500:])
    if not os.path.exists(out):
        print("INCONCLUSIVE property=contracts reason=plugin wrote no report")
        return 2
    rep = json.load(open(out))
    print("contract evaluations:", {k: v for k, v in rep["events"].items() if k.startswith("evaluated")})
    if rep["witnesses"]:
        for w in rep["witnesses"][:10]:
            print("CONTRACT FIRED:", json.dumps(w)[:400])
        return 1
    print("no contract fired on the repository's own tests")
    return 0


def _run(a, prop, work, t0):
    sys.path.insert(0, os.path.join(VERIF, ".deps"))
    modname = "vmon.selftest" if prop == "selftest" else f"vmon.props.{prop.lower()}"
    # metadata only (no optyx import in the parent)
    budget = {"quick": 900, "thorough": 6 * 3600}[a.tier]
    shards = [0] if a.replay else list(range(H.NSHARDS))
    results = []
    with cf.ThreadPoolExecutor(max_workers=a.jobs) as ex:
        futs = [ex.submit(run_shard, prop, a.tier, a.seed, s, a.repo, work, budget, a.replay) for s in shards]
        for f in futs:
            results.append(f.result())

    # a shard that died (killed by the kernel under memory pressure, a transient fork failure) is run once more on its own; the
    # workload of a shard is a pure function of (property, tier, seed, shard), so the retry observes exactly what the first try would have
    for idx, r in enumerate(results):
        if r["status"] == "crash":
            sys.stderr.write(f"shard {r['shard']} crashed (rc={r.get('rc')}): retrying once\n")
            results[idx] = run_shard(prop, a.tier, a.seed, r["shard"], a.repo, work, budget, a.replay)
            results[idx]["retried_after_crash"] = True
    bad = [r for r in results if r["status"] != "ok"]
    ok = [r for r in results if r["status"] == "ok"]
    m = H.merge(ok)
    info = ok[0].get("info", {}) if ok else {}

    # ---- classify violations -------------------------------------------
    known = [k for k in H.load_known() if k["property"] == prop]
    by_mech = {}
    for v in m["violations"]:
        by_mech.setdefault(v["mechanism"], []).append(v)
    lines = []
    new_mechs = []
    matched = {}
    for mech, vs in sorted(by_mech.items()):
        ent = next((k for k in known if k["mechanism"] == mech and k.get("status") == "known"), None)
        if ent is not None:
            matched[mech] = m["events"].get("violation:" + mech, len(vs))
            lines.append(f"KNOWN-FINDING: property={prop} {ent['what']}")
        else:
            new_mechs.append(mech)
    rc = 0
    for mech in new_mechs[:8]:
        v = by_mech[mech][0]
        rp = os.path.join(VERIF, "replays", prop, A_sha(v) + ".json")
        H.write_json(rp, {"property": prop, "mechanism": mech, "tier": a.tier, "seed": a.seed, "witness": v["witness"]})
        lines.append(f"VIOLATION property={prop} replay={rp}")
        lines.append(f"  mechanism={mech} count={m['events'].get('violation:' + mech, len(by_mech[mech]))}")
        w = v["witness"]
        brief = {k: w[k] for k in ("show", "route", "got", "want", "error", "note") if isinstance(w, dict) and k in w}
        lines.append("  " + json.dumps(brief or w, default=str)[:700])
        if a.verbose:
            seen = set()
            for vv in by_mech[mech]:
                sh = vv["witness"].get("show", {}) if isinstance(vv["witness"], dict) else {}
                key = json.dumps(sh.get("expr", sh.get("exprs", sh)), default=str)[:300]
                if key not in seen:
                    seen.add(key)
                    lines.append("    - " + key + "  " + json.dumps({k: vv["witness"].get(k) for k in ("reported", "got", "want", "error", "wrt", "entry") if k in vv["witness"]}, default=str)[:200])
        rc = 1

    # ---- inconclusive --------------------------------------------------
    inconc = list(m["inconclusive"])
    for r in bad:
        inconc.append(f"shard {r['shard']}: {r['status']} {r.get('stderr', '')[-600:]}")
    required = info.get("required_cells", [])
    missing = [c for c in required if m["cells"].get(c, 0) == 0]
    if not a.replay and missing:
        inconc.append("required input cells with zero oracle comparisons: " + ", ".join(missing[:20]))
    if not a.replay and m["evaluations"] == 0:
        inconc.append("no oracle comparison was made")
    if inconc and rc == 0:
        rc = 2
        for s in inconc[:6]:
            lines.append(f"INCONCLUSIVE property={prop} reason={s}")

    wall = time.time() - t0
    if not a.replay and not a.no_evidence and prop != "selftest":
        ev = {
            "property_id": prop,
            "tier": a.tier,
            "seed": a.seed,
            "level": info.get("level", "exploration"),
            "coverage": {
                "evaluations": m["evaluations"],
                "distinct_nontrivial": len(m["hashes"]),
                "rule": info.get("rule", ""),
                "samples": m["samples"][:6],
                "exhaustive": bool(info.get("exhaustive", False)),
                "cells_required": required,
                "cells_seen": dict(sorted(m["cells"].items())),
                "cells_missing": missing,
                "paths_observed": dict(sorted(m["paths"].items())),
                "monitor_events": dict(sorted(m["events"].items())),
                "non_comparable": dict(sorted(m["noncomp"].items())),
                "max_discrepancy": m["maxdisc"],
                "known_findings_matched": matched,
                "shards_ok": len(ok),
                "shards_failed": len(bad),
            },
            "assumptions": info.get("assumptions", []),
            "wall_s": round(wall, 2),
            "violations": sum(m["events"].get("violation:" + x, 0) for x in new_mechs),
            "verdict": {0: "held-on-observed", 1: "violated", 2: "inconclusive"}[rc],
        }
        H.write_json(os.path.join(VERIF, "evidence", f"{prop}.json"), ev)

    print(f"[{prop}] tier={a.tier} seed={a.seed} comparisons={m['evaluations']} distinct={len(m['hashes'])} "
          f"cells={len(m['cells'])} violations={m['n_violations']} wall={wall:.1f}s")
    for ln in lines:
        print(ln)
    if rc == 0:
        print(f"HELD property={prop} on everything observed")
    return rc


def A_sha(v):
    from vmon.recipes import ast as A

    return A.sha(v["witness"])


if __name__ == "__main__":
    sys.exit(main())
