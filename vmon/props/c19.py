"""C19 - derivative callables stay finite at singular points.

Workload: separable sums  e = sum_i c_i * atom_i(v_i) + g(regular variables)
where every atom has a known singular point (|x| at 0, sqrt/log at 0, negative
and fractional powers at 0, 1/x at 0, norms at the origin, asin/acos at +-1,
acosh at 1, atanh at +-1), written both in scalar form and in the vectorised
forms f(x).sum(), (x**k).sum(), norm(x).  Some coordinates sit exactly on the
singular set, the others are regular.

Oracle: at a singular coordinate the expected entry is the hand-specified
mathematical limit class of the atom (undefined -> 0, unbounded -> +-1e16,
sign flipped by a negative coefficient); at a regular coordinate the entry
must equal the jet reference (computed with the singular coordinates moved
away, which is sound because the expression is separable).  All entries of
compile_gradient / compile_jacobian / compile_hessian output must be finite,
and the vectorised and the element-wise spelling of the same formula must
return identical arrays.
"""
from __future__ import annotations

import math

import numpy as np

from ..harness import close
from ..recipes import ast as A
from ..recipes import build as B
from ..recipes import ref as R

LEVEL = "exploration"
BUDGET_S = {"quick": 420, "thorough": 1500}
N_RANDOM = {"quick": 800, "thorough": 25000}
BIG = 1e16
RTOL = 1e-7


def _fn(f):
    return lambda v: ["fn", f, v]


def _powc(k, kind=None):
    return lambda v: ["bin", "**", v, ["raw", k, kind or ("int" if isinstance(k, int) else "float")]]


# name -> (node(v), singular value, expectation at the singular coordinate, a regular stand-in value)
SCALAR_ATOMS = {
    "abs@0": (_fn("abs"), 0.0, "zero", 1.3),
    "sqrt@0": (_fn("sqrt"), 0.0, "+big", 1.3),
    "log@0": (_fn("log"), 0.0, "+big", 1.3),
    "log2@0": (_fn("log2"), 0.0, "+big", 1.3),
    "log10@0": (_fn("log10"), 0.0, "+big", 1.3),
    "pow-1@0": (_powc(-1), 0.0, "-big", 1.3),
    "pow-2@0": (_powc(-2), 0.0, "-big", 1.3),
    "pow0.5@0": (_powc(0.5), 0.0, "+big", 1.3),
    "pow-0.5@0": (_powc(-0.5), 0.0, "-big", 1.3),
    "pow1.5@neg": (_powc(1.5), -0.5, "zero", 1.3),
    "pow2.5@neg": (_powc(2.5), -0.75, "zero", 1.3),
    "sqrt@neg": (_fn("sqrt"), -0.5, "zero", 1.3),
    # exponents given as NumPy scalars (np.arange exponents of a polynomial basis, float32 data): the same atoms
    "pow0.5(np.float32)@0": (_powc(0.5, "npf32"), 0.0, "+big", 1.3),
    "pow-1(np.int64)@0": (_powc(-1, "npi64"), 0.0, "-big", 1.3),
    "pow0.5(0-d array)@0": (_powc(0.5, "arr0d"), 0.0, "+big", 1.3),
    "pow1.5(np.float64)@neg": (_powc(1.5, "npf64"), -0.5, "zero", 1.3),
    # regular at 0: d/dx x**1 = 1, d/dx x**2 = 0 with second derivative 2, d/dx x**3 = 0
    "pow1(np.int64)@0": (_powc(1, "npi64"), 0.0, "jet", 1.3),
    "pow2(np.int64)@0": (_powc(2, "npi64"), 0.0, "jet", 1.3),
    "pow2(0-d array)@0": (_powc(2.0, "arr0d"), 0.0, "jet", 1.3),
    "pow3(np.float32)@0": (_powc(3.0, "npf32"), 0.0, "jet", 1.3),
    "pow2(int)@0": (_powc(2), 0.0, "jet", 1.3),
    "pow1(float)@0": (_powc(1.0), 0.0, "jet", 1.3),
    "recip@0": (lambda v: ["bin", "/", ["raw", 1.0, "float"], v], 0.0, "-big", 1.3),
    # ratios whose numerator and denominator both depend on the variable, at the pole of the denominator
    "ratio:(v+1)/v@0": (lambda v: ["bin", "/", ["bin", "+", v, ["raw", 1.0, "float"]], v], 0.0, "-big", 1.3),
    "ratio:exp(v)/v@0": (lambda v: ["bin", "/", ["fn", "exp", v], v], 0.0, "-big", 1.3),
    "ratio:v/(v-1)@1": (lambda v: ["bin", "/", v, ["bin", "-", v, ["raw", 1.0, "float"]]], 1.0, "-big", 2.3),
    "asin@1": (_fn("asin"), 1.0, "+big", 0.4),
    "asin@-1": (_fn("asin"), -1.0, "+big", 0.4),
    "acos@1": (_fn("acos"), 1.0, "-big", 0.4),
    "acos@-1": (_fn("acos"), -1.0, "-big", 0.4),
    "acosh@1": (_fn("acosh"), 1.0, "+big", 1.7),
    "atanh@1": (_fn("atanh"), 1.0, "+big", 0.4),
    "atanh@-1": (_fn("atanh"), -1.0, "+big", 0.4),
}
# vectorised atoms over a VectorVariable view: name -> (vector form, element-wise form of one element, sing, expect, stand-in)
VECTOR_ATOMS = {
    "vsum:abs@0": (lambda V: ["sum", ["vfn", "abs", V]], _fn("abs"), 0.0, "zero", 1.3),
    "vsum:sqrt@0": (lambda V: ["sum", ["vfn", "sqrt", V]], _fn("sqrt"), 0.0, "+big", 1.3),
    "vsum:log@0": (lambda V: ["sum", ["vfn", "log", V]], _fn("log"), 0.0, "+big", 1.3),
    "vpowsum:-1@0": (lambda V: ["sum", ["vpow", V, -1]], _powc(-1.0), 0.0, "-big", 1.3),
    "vpowsum:-2@0": (lambda V: ["sum", ["vpow", V, -2]], _powc(-2.0), 0.0, "-big", 1.3),
    "vpowsum:0.5@0": (lambda V: ["sum", ["vpow", V, 0.5]], _powc(0.5), 0.0, "+big", 1.3),
    "vpowsum:1.5@neg": (lambda V: ["sum", ["vpow", V, 1.5]], _powc(1.5), -0.5, "zero", 1.3),
    "vpowsum:2.5@neg": (lambda V: ["sum", ["vpow", V, 2.5]], _powc(2.5), -0.75, "zero", 1.3),
    "norm1@0": (lambda V: ["norm", V, 1, "method"], _fn("abs"), 0.0, "zero", 1.3),
    # a component that is exactly the NEGATIVE zero (a product with a negative factor that underflowed, -0.0 read from data): there is no
    # one-sided limit to prescribe, but the entry is finite and the vectorised and the general path return the same number
    "vsum:sqrt@-0": (lambda V: ["sum", ["vfn", "sqrt", V]], _fn("sqrt"), -0.0, "finite-only", 1.3),
    "vsum:log@-0": (lambda V: ["sum", ["vfn", "log", V]], _fn("log"), -0.0, "finite-only", 1.3),
    "vpowsum:0.5@-0": (lambda V: ["sum", ["vpow", V, 0.5]], _powc(0.5), -0.0, "finite-only", 1.3),
    "vpowsum:-1@-0": (lambda V: ["sum", ["vpow", V, -1]], _powc(-1.0), -0.0, "finite-only", 1.3),
}
VRELS = ["exact", "permuted", "superset", "superset_permuted"]

DECLS = [
    {"k": "var", "name": "a"},
    {"k": "var", "name": "b"},
    {"k": "var", "name": "c"},
    {"k": "var", "name": "d"},
    {"k": "vec", "name": "x", "n": 4},
    {"k": "vec", "name": "y", "n": 3},
    {"k": "var", "name": "s"},
    {"k": "var", "name": "t"},
]
# the same declarations with bounds that exclude the singular points (a bound is a promise about the model, not about where a
# solver or a caller evaluates the callable: BFGS ignores bounds, x0 may sit on the boundary, bounds may be relaxed later)
DECLS_LB = [dict(d, lb=0.25, ub=9.0) if d["name"] in ("x", "y", "a", "b", "c") else dict(d) for d in DECLS]


def decls_of(item):
    return DECLS_LB if item.get("decls") == "positive-lb" else DECLS


REGULAR = [
    None,
    ["bin", "+", ["bin", "*", ["fn", "sin", ["var", "s"]], ["var", "t"]], ["bin", "**", ["var", "s"], ["raw", 2, "int"]]],
    ["bin", "*", ["raw", 3.0, "float"], ["fn", "exp", ["bin", "*", ["raw", 0.5, "float"], ["var", "t"]]]],
    # a regular entry far beyond 1e16 in the same array as the singular ones: it must come back unchanged
    ["bin", "+", ["fn", "exp", ["bin", "*", ["raw", 50.0, "float"], ["var", "t"]]], ["bin", "/", ["raw", 1.0, "float"], ["bin", "*", ["raw", 1e-9, "float"], ["var", "s"]]]],
]


def info(tier):
    cells = [f"{a}|{path}" for a in SCALAR_ATOMS for path in ("gradient", "jacobian", "jacobian-multirow", "hessian")]
    cells += [f"{a}|{path}|{v}" for a in VECTOR_ATOMS for path in ("gradient", "jacobian", "hessian") for v in VRELS]
    cells += ["norm2@origin|gradient", "norm2@origin|jacobian", "norm2@one-zero|gradient"]
    cells += [f"deep:{a}|{path}" for a in list(SCALAR_ATOMS) + list(VECTOR_ATOMS) for path in ("gradient", "jacobian", "hessian")]
    cells += [f"{c}|{path}" for c, _, _ in composite_items() for path in ("gradient", "jacobian", "hessian")]
    cells += [f"bounded:{a}|{path}" for a in list(SCALAR_ATOMS) + list(VECTOR_ATOMS) for path in ("gradient", "jacobian", "hessian")]
    cells += [f"masked|{path}" for path in ("gradient", "jacobian", "hessian")]
    return {
        "level": LEVEL,
        "rule": "separable sums of singular atoms (%d scalar, %d vectorised incl. negative-zero components, L2 norm)" % (len(SCALAR_ATOMS), len(VECTOR_ATOMS)) + " with coefficients of both signs and a "
        "regular remainder, also as term-by-term accumulations of 400+ terms (iterative differentiator / compiler), evaluated at points with some coordinates exactly singular; every entry of compile_gradient / "
        "compile_jacobian (1 and several rows) / compile_hessian output checked: finite always, exact class at singular "
        "coordinates of first derivatives, jet value at regular coordinates, vectorised == element-wise spelling; "
        "distinct = canonical (recipe, V, point) hashes",
        "required_cells": cells,
        "assumptions": [
            "expected classes at singular coordinates are hand-specified mathematical limits (undefined->0, unbounded->+-1e16, one-sided sign at +0)",
            "overflow points (exp at 1000) are outside the statement and not judged",
            "composites whose derivative is a 0*inf or c/0 form (log of a reduction at the origin, reciprocals of reductions): the callable must return, with finite entries, and the entries of uninvolved variables must be the regular ones; no particular value is demanded at the singular entries",
        ],
    }


def make_V(rng, used, vrel):
    base = R.natural_sorted(used)
    extra = [n for n in ("zz", "x[10]", "a0", "d") if n not in used]
    if vrel in ("superset", "superset_permuted"):
        base = R.natural_sorted(set(base) | set(rng.sample(extra, rng.randint(1, 2))))
    if vrel in ("permuted", "superset_permuted") and len(base) > 1:
        b0 = list(base)
        for _ in range(5):
            rng.shuffle(base)
            if base != b0:
                break
    return base


def expected_entry(expect, coef):
    if expect == "zero":
        return 0.0
    s = 1.0 if expect == "+big" else -1.0
    return s * BIG * (1.0 if coef > 0 else -1.0)


def build_terms(terms, regular):
    node = None
    for coef, atom_node in terms:
        t = atom_node if coef == 1.0 else ["bin", "*", ["raw", coef, "float"], atom_node]
        node = t if node is None else ["bin", "+", node, t]
    if regular is not None:
        node = regular if node is None else ["bin", "+", node, regular]
    return node


def check_arrays(rec, cell, route, got, expected, show, pt, V, judged=True):
    """expected: dict index -> (kind, value) ; kind in exact / jet / finite-only"""
    g = np.asarray(got, dtype=float).reshape(-1)
    ok_all = True
    for i, val in enumerate(g):
        rec.cmp(1, cell)
        if not math.isfinite(val):
            rec.violation(f"{route}:non-finite-entry", {"show": show, "point": pt, "entry": i, "got": repr(val), "cell": cell})
            ok_all = False
            continue
        kind, want = expected.get(i, ("finite-only", None))
        if kind == "exact":
            if val != want:
                rec.violation(f"{route}:wrong-value-at-singular-entry", {"show": show, "point": pt, "entry": i, "got": val, "want": want, "cell": cell})
                ok_all = False
        elif kind == "jet":
            ok, d = close(val, want, RTOL, 1e3)
            rec.disc("regular-entry", d if ok else 0.0)
            if not ok:
                rec.violation(f"{route}:regular-entry-changed", {"show": show, "point": pt, "entry": i, "got": val, "want": want, "cell": cell})
                ok_all = False
    return ok_all


def run_item(rec, rng, item):
    """item: {terms:[(coef, atomname, target, sing_idx)], regular, vrel, multirow}"""
    from optyx.core import autodiff as AD
    from optyx.core import compiler as C

    DEC = decls_of(item)
    D = R.Decls(DEC)
    rec.case(item, nontrivial=True)
    point, shifted = {}, {}
    sing = {}  # var name -> (expect, coef)
    terms_v, terms_e = [], []  # vectorised spelling / element-wise spelling
    has_vec = False
    for coef, aname, target, sidx in item["terms"]:
        if aname in SCALAR_ATOMS:
            mk, sv, expect, stand = SCALAR_ATOMS[aname]
            node = mk(["var", target])
            terms_v.append((coef, node))
            terms_e.append((coef, node))
            if sidx and expect == "jet":
                point[target] = shifted[target] = sv  # a regular point of this atom (x**1, x**2 at 0): judged against the jet there
            elif sidx:
                point[target], shifted[target] = sv, stand
                sing[target] = (expect, coef)
                if expect == "finite-only":
                    sing[target] = ("finite-only", coef)
            else:
                point[target] = shifted[target] = stand + 0.1
        elif aname == "norm2":
            vec = ["vec", target]
            names = D.vec_names(target)
            terms_v.append((coef, ["norm", vec, 2, "method"]))
            terms_e.append((coef, ["fn", "sqrt", _sumsq(vec, len(names))]))
            has_vec = True
            for k, nm in enumerate(names):
                if sidx == "origin":
                    point[nm], shifted[nm] = 0.0, 0.7 + 0.1 * k
                elif k in (sidx or ()):
                    # a single zero component is a *regular* point of the L2 norm (not separable: no shifting)
                    point[nm] = shifted[nm] = 0.0
                else:
                    point[nm] = shifted[nm] = 0.7 + 0.2 * k
            if sidx == "origin":
                for nm in names:
                    sing[nm] = ("zero", coef)
        else:
            mkv, mke, sv, expect, stand = VECTOR_ATOMS[aname]
            vec = ["vec", target]
            names = D.vec_names(target)
            terms_v.append((coef, mkv(vec)))
            el = None
            for nm_i, nm in enumerate(names):
                t = mke(["el", vec, nm_i])
                el = t if el is None else ["bin", "+", el, t]
            terms_e.append((coef, el))
            has_vec = True
            for k, nm in enumerate(names):
                if k in sidx:
                    point[nm], shifted[nm] = sv, stand + 0.1 * k
                    sing[nm] = (expect, coef)
                else:
                    point[nm] = shifted[nm] = stand + 0.15 * k
    reg = REGULAR[item["regular"]]
    node_v, node_e = build_terms(terms_v, reg), build_terms(terms_e, reg)
    used = R.ref_vars(D, node_v)
    for nm in used:
        if nm not in point:
            point[nm] = shifted[nm] = round(rng.uniform(0.4, 1.6), 3)
    V = make_V(rng, used, item["vrel"])
    for nm in V:
        if nm not in point:
            point[nm] = shifted[nm] = 0.9
    show = {"expr": A.render(node_v), "V": V, "point": {k: point[k] for k in V}, "item": item}
    cellbase = item["cell"]

    j, _ = R.ref_jet(D, node_v, V, shifted, order=1)
    expected = {}
    for i, nm in enumerate(V):
        if nm in sing:
            exp, coef = sing[nm]
            expected[i] = ("finite-only", None) if exp == "finite-only" else ("exact", expected_entry(exp, coef))
        else:
            expected[i] = ("jet", float(j.g[i]))

    b = B.Builder(DEC)
    try:
        ev, ee = b.S(node_v), b.S(node_e)
    except Exception as ex:
        rec.violation("build-raises:" + type(ex).__name__, {"show": show, "error": repr(ex)[:200]})
        return
    if item.get("deep"):
        # the same formula as a term-by-term accumulation beyond the depth at which the iterative algorithms take over:
        # `deep` regular terms c_k * s are added one at a time, the singular atoms sitting at the bottom ("inner") or the top ("outer")
        # of the left spine.  The reference is the shallow formula plus sum(c_k) on the entry of s (s enters linearly: no second derivatives).
        import optyx

        s_obj = b.variables(["s"])[0]
        cs = [((k * 7) % 11 - 5) * 0.125 for k in range(item["deep"])]
        csum = float(sum(cs))

        def pad(e):
            if item["where"] == "inner":
                for c in cs:
                    e = e + c * s_obj
                return e
            acc = cs[0] * s_obj
            for c in cs[1:]:
                acc = acc + c * s_obj
            return acc + e

        ev, ee = pad(ev), pad(ee)
        if "s" not in V:
            V = V + ["s"]
            point.setdefault("s", 0.8)
            shifted.setdefault("s", 0.8)
            j, _ = R.ref_jet(D, node_v, V, shifted, order=1)
            expected = {i: ((("finite-only", None) if sing[nm][0] == "finite-only" else ("exact", expected_entry(*sing[nm]))) if nm in sing else ("jet", float(j.g[i]))) for i, nm in enumerate(V)}
        si = V.index("s")
        expected[si] = ("jet", expected[si][1] + csum)
        show = {**show, "V": V, "point": {k: point[k] for k in V}, "expr": f"[{item['deep']} terms c_k*s accumulated {item['where']}] " + show["expr"]}
        rec.events["deep-accumulation-items"] += 1
    Vobjs = b.variables(V)
    x = B.point_array(V, point)
    vr = "|" + item["vrel"] if item.get("vec_cell") else ""

    outs = {}
    for route, mk in (
        ("gradient", lambda e: C.compile_gradient(e, Vobjs)),
        ("jacobian", lambda e: AD.compile_jacobian([e], Vobjs)),
    ):
        for spelling, e in (("vectorised", ev), ("elementwise", ee)):
            if spelling == "elementwise" and not has_vec:
                continue
            try:
                fn = mk(e)
                rec.paths[f"{route}:{fn.__name__}"] += 1
                with np.errstate(all="ignore"):
                    got = fn(x.copy())
            except Exception as ex:
                rec.violation(f"{route}:raises:{type(ex).__name__}", {"show": show, "error": repr(ex)[:200], "spelling": spelling})
                rec.cmp(1, f"{cellbase}|{route}{vr}")
                continue
            outs[(route, spelling)] = np.asarray(got, dtype=float).reshape(-1)
            check_arrays(rec, f"{cellbase}|{route}{vr}", f"{route}({spelling})", got, expected, show, point, V)
        if (route, "vectorised") in outs and (route, "elementwise") in outs:
            a1, a2 = outs[(route, "vectorised")], outs[(route, "elementwise")]
            rec.cmp(1, f"{cellbase}|{route}{vr}")
            if a1.shape != a2.shape or not np.array_equal(a1, a2):
                if not np.allclose(a1, a2, rtol=1e-9, atol=1e-12):
                    rec.violation(f"{route}:vectorised-and-general-paths-disagree", {"show": show, "vectorised": a1.tolist(), "general": a2.tolist()})

    if item.get("multirow") and not item.get("deep"):
        # three rows: a regular row, this expression, and -2 * this expression
        try:
            Vm = V if "s" in V else V + ["s"]
            pm, sm = dict(point), dict(shifted)
            pm.setdefault("s", 0.8)
            sm.setdefault("s", 0.8)
            regrow = ["bin", "+", ["raw", 1.0, "float"], ["bin", "*", ["raw", 2.0, "float"], ["var", "s"]]]
            other = ["bin", "*", ["raw", -2.0, "float"], node_v]
            rows = [b.S(regrow), ev, b.S(other)]
            fn = AD.compile_jacobian(rows, b.variables(Vm))
            with np.errstate(all="ignore"):
                got = np.asarray(fn(B.point_array(Vm, pm)), dtype=float)
            jm, _ = R.ref_jet(D, node_v, Vm, sm, order=1)
            n = len(Vm)
            exp2 = {}
            for i, nm in enumerate(Vm):
                exp2[i] = ("exact", 2.0 if nm == "s" else 0.0)
                if nm in sing:
                    ex_, coef = sing[nm]
                    exp2[n + i] = ("finite-only", None) if ex_ == "finite-only" else ("exact", expected_entry(ex_, coef))
                    exp2[2 * n + i] = ("finite-only", None) if ex_ == "finite-only" else ("exact", expected_entry(ex_, -coef))
                else:
                    exp2[n + i] = ("jet", float(jm.g[i]))
                    exp2[2 * n + i] = ("jet", -2.0 * float(jm.g[i]))
            if got.shape != (3, n):
                rec.violation("jacobian-multirow:wrong-shape", {"show": show, "got": list(got.shape)})
            else:
                check_arrays(rec, f"{cellbase}|jacobian-multirow", "jacobian(multirow)", got, exp2, show, pm, Vm)
        except Exception as ex:
            rec.violation(f"jacobian-multirow:raises:{type(ex).__name__}", {"show": show, "error": repr(ex)[:200]})

    # Hessian: finiteness everywhere, regular rows/cols unchanged, paths agree
    try:
        hs = {}
        for spelling, e in (("vectorised", ev), ("elementwise", ee)):
            if spelling == "elementwise" and not has_vec:
                continue
            fn = AD.compile_hessian(e, Vobjs)
            rec.paths[f"hessian:{fn.__name__}"] += 1
            with np.errstate(all="ignore"):
                hs[spelling] = np.asarray(fn(x.copy()), dtype=float)
        j2, _ = R.ref_jet(D, node_v, V, shifted, order=2)
        n = len(V)
        exph = {}
        for i, ni in enumerate(V):
            for k, nk in enumerate(V):
                if ni not in sing and nk not in sing and ni in shifted and nk in shifted and point.get(ni) == shifted.get(ni) and point.get(nk) == shifted.get(nk):
                    exph[i * n + k] = ("jet", float(j2.H[i, k]))
        for spelling, H in hs.items():
            check_arrays(rec, f"{cellbase}|hessian{vr}", f"hessian({spelling})", H, exph, show, point, V)
        # the L2 norm has no vectorised Hessian path: norm(y) and sqrt(sum y_i^2) are two different
        # formulas on the *same* general path, and at the origin (a 0*inf composite) they legitimately
        # sanitise differently - agreement is only demanded where a vectorised path exists
        norm_origin = any(t[1] == "norm2" and t[3] == "origin" for t in item["terms"])
        if len(hs) == 2 and not norm_origin:
            rec.cmp(1, f"{cellbase}|hessian{vr}")
            if not np.allclose(hs["vectorised"], hs["elementwise"], rtol=1e-9, atol=1e-12):
                rec.violation("hessian:vectorised-and-general-paths-disagree", {"show": show, "vectorised": hs["vectorised"].tolist(), "general": hs["elementwise"].tolist()})
    except Exception as ex:
        rec.violation(f"hessian:raises:{type(ex).__name__}", {"show": show, "error": repr(ex)[:200]})
    rec.sample(show)


def composite_items():
    """(cell, singular composite over x / a / b, point of the involved variables): the derivative is a 0*inf or c/0 composite, so only
    "returns, and returns finite entries" is demanded there; the entries of the uninvolved variables s, t must be the regular ones."""
    x = ["vec", "x"]
    a, b_ = ["var", "a"], ["var", "b"]
    one = ["raw", 1.0, "float"]
    O4 = {f"x[{i}]": 0.0 for i in range(4)}
    bal = {"x[0]": 1.0, "x[1]": -1.0, "x[2]": 0.5, "x[3]": -0.5}
    return [
        ("composite:log(sum x^2)@origin", ["fn", "log", ["sum", ["vpow", x, 2]]], O4),
        ("composite:log(sum |x|)@origin", ["fn", "log", ["sum", ["vfn", "abs", x]]], O4),
        ("composite:1/sum x^2@origin", ["bin", "/", one, ["sum", ["vpow", x, 2]]], O4),
        ("composite:1/x.x@origin", ["bin", "/", one, ["dot", x, x]], O4),
        ("composite:sqrt(x.x)@origin", ["fn", "sqrt", ["dot", x, x]], O4),
        ("composite:log(norm)@origin", ["fn", "log", ["norm", x, 2, "method"]], O4),
        ("composite:1/norm1@origin", ["bin", "/", one, ["norm", x, 1, "method"]], O4),
        ("composite:1/sum(x)@balanced", ["bin", "/", one, ["sum", x]], bal),
        ("composite:(sum x)^-2@balanced", ["bin", "**", ["sum", x], ["raw", -2, "int"]], bal),
        ("composite:x.x/sum(x)@balanced", ["bin", "/", ["dot", x, x], ["sum", x]], bal),
        ("composite:qf/sum@origin", ["bin", "/", ["qf", ["slice", x, 0, 2, None], [[2.0, 0.5], [0.5, 1.0]]], ["sum", ["vpow", x, 2]]], O4),
        ("composite:log(a*b)@a=0", ["fn", "log", ["bin", "*", a, b_]], {"a": 0.0, "b": 1.5}),
        ("composite:1/(a-b)@a=b", ["bin", "/", one, ["bin", "-", a, b_]], {"a": 0.75, "b": 0.75}),
        ("composite:c/(a*a)@0", ["bin", "/", ["raw", 3.0, "float"], ["bin", "*", a, a]], {"a": 0.0}),
        ("composite:sum(x)/a@0", ["bin", "/", ["sum", x], a], {"a": 0.0, **{k: v + 1.0 for k, v in O4.items()}}),
        ("composite:(sum x^2)^0.5@origin", ["bin", "**", ["sum", ["vpow", x, 2]], ["raw", 0.5, "float"]], O4),
        ("composite:(sum x^2)^-0.5@origin", ["bin", "**", ["sum", ["vpow", x, 2]], ["raw", -0.5, "float"]], O4),
        ("composite:(x.x)^1.5@origin", ["bin", "**", ["dot", x, x], ["raw", 1.5, "float"]], O4),
        ("composite:a*(x.x)^-0.5@origin", ["bin", "*", a, ["bin", "**", ["dot", x, x], ["raw", -0.5, "float"]]], {"a": 1.5, **O4}),
        ("composite:(sum x)^0.5@negative", ["bin", "**", ["sum", x], ["raw", 0.5, "float"]], {"x[0]": -1.0, "x[1]": -0.5, "x[2]": 0.25, "x[3]": -0.25}),
        ("composite:(sum x)^-1@balanced", ["bin", "**", ["sum", x], ["raw", -1, "int"]], bal),
        ("composite:qf^0.5@origin", ["bin", "**", ["qf", ["slice", x, 0, 2, None], [[2.0, 0.5], [0.5, 1.0]]], ["raw", 0.5, "float"]], O4),
        ("composite:norm^-1@origin", ["bin", "**", ["norm", x, 2, "method"], ["raw", -1, "int"]], O4),
        ("composite:mean-log", ["bin", "/", ["sum", ["vfn", "log", x]], ["raw", 4.0, "float"]], O4),
        # a summed vector expression with poles of BOTH signs at the point (+inf and -inf among the terms), nested as a factor / base /
        # argument so that its value closure is part of the derivative
        ("composite:a*sum(c/x)@mixed-sign-poles", ["bin", "*", a, ["sum", ["vrbin", "/", ["arr", [1.0, -1.0, 2.0, -2.0]], x]]], {"a": 1.5, **O4}),
        ("composite:(sum(c/x))^2@mixed-sign-poles", ["bin", "**", ["sum", ["vrbin", "/", ["arr", [1.0, -1.0, 2.0, -2.0]], x]], ["raw", 2, "int"]], O4),
        ("composite:sum(c/x)*sum(x)@two-poles", ["bin", "*", ["sum", ["vrbin", "/", ["arr", [1.0, -3.0, 0.5, 2.0]], x]], ["sum", x]], {"x[0]": 0.0, "x[1]": 0.0, "x[2]": 0.7, "x[3]": 0.9}),
    ]


def run_composite(rec, rng, cell, node, spt, k):
    from optyx.core import autodiff as AD
    from optyx.core import compiler as C

    D = R.Decls(DECLS)
    reg = REGULAR[1 + k % 2]
    full = ["bin", "+", node, reg] if k % 3 else ["bin", "+", reg, ["bin", "*", ["raw", -2.0, "float"], node]]
    rec.case({"composite": cell, "k": k}, nontrivial=True)
    used = R.ref_vars(D, full)
    V = make_V(rng, used, VRELS[k % 4])
    point = {nm: 0.9 for nm in V}
    point.update({"s": 0.8, "t": -0.4})
    point.update({nm: v for nm, v in spt.items()})
    for nm in used:
        point.setdefault(nm, 0.9)
    show = {"expr": A.render(full), "V": V, "point": {nm: point[nm] for nm in V}}
    jr, _ = R.ref_jet(D, reg, V, {**{nm: 0.9 for nm in V}, "s": 0.8, "t": -0.4}, order=1)
    regular_idx = {i: float(jr.g[i]) for i, nm in enumerate(V) if nm in ("s", "t")}
    try:
        b = B.Builder(DECLS)
        e = b.S(full)
    except Exception as ex:
        rec.violation("build-raises:" + type(ex).__name__, {"show": show, "error": repr(ex)[:200]})
        return
    Vobjs = b.variables(V)
    xarr = B.point_array(V, point)
    for route, mk in (("gradient", lambda: C.compile_gradient(e, Vobjs)), ("jacobian", lambda: AD.compile_jacobian([e], Vobjs)),
                      ("hessian", lambda: AD.compile_hessian(e, Vobjs))):
        rec.cmp(1, f"{cell}|{route}")
        try:
            fn = mk()
            with np.errstate(all="ignore"):
                got = np.asarray(fn(xarr.copy()), dtype=float)
        except Exception as ex:
            rec.violation(f"{route}:raises-at-singular-point:{type(ex).__name__}", {"show": show, "error": repr(ex)[:200], "cell": cell})
            continue
        if not np.all(np.isfinite(got)):
            rec.violation(f"{route}(composite):non-finite-entry", {"show": show, "got": repr(got.reshape(-1)[:12].tolist()), "cell": cell})
            continue
        if route != "hessian":
            g = got.reshape(-1)
            for i, want in regular_idx.items():
                rec.cmp(1, f"{cell}|{route}")
                if not close(g[i], want, RTOL, 1e3)[0]:
                    rec.violation(f"{route}(composite):regular-entry-changed", {"show": show, "entry": V[i], "got": float(g[i]), "want": want, "cell": cell})
    rec.sample(show, cap=3)


def masked_items():
    """(cell, node, point, {variable: exact partial}): a singular term switched off by a zero weight that is NOT a float (an int from a
    weight list, a bool from a mask, a NumPy integer) plus a regular term in the same variable, at the switched-off term's singular
    point: the entry is the regular term's derivative."""
    a, b_ = ["var", "a"], ["var", "b"]
    out = []
    for zname, zero in (("int-0", ["raw", 0, "int"]), ("False", ["raw", False, "bool"]), ("np.int64(0)", ["raw", 0, "npi64"]), ("float-0", ["raw", 0.0, "float"]),
                        ("Constant(0)", ["const", 0, "int"])):
        for aname, atom, sv in (("abs", ["fn", "abs", a], 0.0), ("sqrt", ["fn", "sqrt", a], 0.0), ("log", ["fn", "log", a], 0.0), ("recip", ["bin", "/", ["raw", 1.0, "float"], a], 0.0)):
            node = ["bin", "+", ["bin", "+", ["bin", "*", zero, atom], ["bin", "*", ["raw", 3.0, "float"], a]], ["bin", "**", b_, ["raw", 2, "int"]]]
            out.append((f"masked:{zname}*{aname}", node, {"a": sv, "b": 1.5}, {"a": 3.0, "b": 3.0}))
            node2 = ["bin", "+", ["bin", "*", atom, zero], ["bin", "*", a, b_]]
            out.append((f"masked:{aname}*{zname}", node2, {"a": sv, "b": 1.5}, {"a": 1.5, "b": sv}))
    # a power that is constant, (x ** 0).sum() / x[0] ** 0, next to regular terms in the same variable, at x = 0: the derivative of the
    # constant is 0 (not 0 * x ** -1), the entry is the regular term's derivative
    x = ["vec", "x"]
    O4 = {f"x[{i}]": 0.0 for i in range(4)}
    sq = ["bin", "**", ["bin", "+", a, ["el", x, 0]], ["raw", 2, "int"]]
    for wname, const_pow in (("sum(x^0)", ["sum", ["vpow", x, 0]]), ("sum(x[0:2]^0)", ["sum", ["vpow", ["slice", x, 0, 2, None], 0]]), ("x0^0", ["bin", "**", ["el", x, 0], ["raw", 0, "int"]]),
                             ("sum(x^0.0)", ["sum", ["vpow", x, 0.0]])):
        out.append((f"masked:minus {wname}", ["bin", "-", sq, const_pow], {"a": 1.5, **O4}, {"a": 3.0, "x[0]": 3.0}))
        out.append((f"masked:times {wname}", ["bin", "*", sq, const_pow], {"a": 1.5, **O4}, {"a": 3.0 * (4.0 if wname in ("sum(x^0)", "sum(x^0.0)") else 2.0 if "0:2" in wname else 1.0),
                                                                                              "x[0]": 3.0 * (4.0 if wname in ("sum(x^0)", "sum(x^0.0)") else 2.0 if "0:2" in wname else 1.0)}))
    return out


def run_masked(rec, rng, cell, node, pt, partials, k):
    from optyx.core import autodiff as AD
    from optyx.core import compiler as C

    rec.case({"masked": cell, "k": k}, nontrivial=True)
    V = ["a", "b"] if k % 2 == 0 else ["b", "zz", "a"]
    if any(nm.startswith("x[") for nm in pt):
        V = ["a", "x[0]", "x[1]", "x[2]", "x[3]"] if k % 2 == 0 else ["x[3]", "x[1]", "zz", "a", "x[0]", "x[2]"]
    point = {"zz": 0.3, **pt}
    show = {"expr": A.render(node), "V": V, "point": {nm: point[nm] for nm in V}}
    try:
        b = B.Builder(DECLS)
        e = b.S(node)
    except Exception as ex:
        rec.events["unsupported-build:" + type(ex).__name__] += 1
        return
    Vobjs = b.variables(V)
    x = B.point_array(V, point)
    for route, mk in (("gradient", lambda: C.compile_gradient(e, Vobjs)), ("jacobian", lambda: AD.compile_jacobian([e], Vobjs)), ("hessian", lambda: AD.compile_hessian(e, Vobjs))):
        rec.cmp(1, f"{cell.split('*')[0].split(':')[0]}|{route}")
        try:
            with np.errstate(all="ignore"):
                got = np.asarray(mk()(x.copy()), dtype=float)
        except Exception as ex:
            rec.violation(f"{route}:raises-at-singular-point:{type(ex).__name__}", {"show": show, "error": repr(ex)[:200], "cell": cell})
            continue
        if not np.all(np.isfinite(got)):
            rec.violation(f"{route}(masked):non-finite-entry", {"show": show, "got": repr(got.reshape(-1).tolist()), "cell": cell})
            continue
        if route != "hessian":
            g = got.reshape(-1)
            for i, nm in enumerate(V):
                want = partials.get(nm, 0.0)
                if not close(g[i], want, RTOL, 10.0)[0]:
                    rec.violation(f"{route}(masked):regular-entry-changed", {"show": show, "entry": nm, "got": float(g[i]), "want": want, "cell": cell})
                    break


def _sumsq(vec, size):
    n = None
    for i in range(size):
        t = ["bin", "**", ["el", vec, i], ["raw", 2, "int"]]
        n = t if n is None else ["bin", "+", n, t]
    return n


def directed_items():
    items = []
    for k, aname in enumerate(SCALAR_ATOMS):
        for coef in (1.0, 3.0, -2.0):
            for reg in (0, 1):
                items.append({"terms": [(coef, aname, "a", True)], "regular": reg if coef != -2.0 or reg == 0 else 3, "vrel": VRELS[(k + reg) % 4],
                              "multirow": coef != 3.0, "cell": aname})
        # two atoms, one singular one regular
        other = list(SCALAR_ATOMS)[(k + 5) % len(SCALAR_ATOMS)]
        items.append({"terms": [(1.0, aname, "a", True), (2.0, other, "b", False)], "regular": 2, "vrel": "superset_permuted",
                      "multirow": True, "cell": aname})
    for k, aname in enumerate(VECTOR_ATOMS):
        for vrel in VRELS:
            for sidx in ((0,), (1, 3), (0, 1, 2, 3), ()):
                for coef in (1.0, -1.5):
                    items.append({"terms": [(coef, aname, "x", sidx)], "regular": (k + len(sidx)) % 4, "vrel": vrel,
                                  "cell": aname, "vec_cell": True})
    # declared bounds that exclude the singular point: the callables must behave the same
    for k, aname in enumerate(VECTOR_ATOMS):
        for sidx in ((0,), (1, 3)):
            items.append({"terms": [(1.0, aname, "x", sidx)], "regular": k % 2, "vrel": VRELS[k % 4], "cell": "bounded:" + aname, "vec_cell": False, "decls": "positive-lb"})
    for k, aname in enumerate(SCALAR_ATOMS):
        items.append({"terms": [(1.0, aname, "a", True), (2.0, "abs@0", "b", False)], "regular": 1, "vrel": VRELS[k % 4], "cell": "bounded:" + aname, "decls": "positive-lb"})
    # deep accumulations (iterative gradient / compiler): every atom, both positions
    for k, aname in enumerate(SCALAR_ATOMS):
        other = list(SCALAR_ATOMS)[(k + 3) % len(SCALAR_ATOMS)]
        for where in ("inner", "outer"):
            items.append({"terms": [(1.0 if where == "inner" else -2.0, aname, "a", True), (1.5, other, "b", False)], "regular": 1 if k % 2 else 0,
                          "vrel": VRELS[k % 4], "cell": "deep:" + aname, "deep": 405 + 10 * (k % 3), "where": where})
    for k, aname in enumerate(VECTOR_ATOMS):
        for where, sidx in (("inner", (0, 2)), ("outer", (1,))):
            items.append({"terms": [(1.0, aname, "x", sidx), (1.0, "abs@0", "b", False)], "regular": k % 2, "vrel": VRELS[(k + 1) % 4], "cell": "deep:" + aname,
                          "deep": 402 + k, "where": where})
    for vrel in VRELS:
        items.append({"terms": [(1.0, "norm2", "y", "origin")], "regular": 0, "vrel": vrel, "cell": "norm2@origin"})
        items.append({"terms": [(2.0, "norm2", "y", "origin")], "regular": 1, "vrel": vrel, "cell": "norm2@origin"})
        items.append({"terms": [(1.0, "norm2", "y", (1,))], "regular": 1, "vrel": vrel, "cell": "norm2@one-zero"})
    return items


def random_item(rng):
    terms = []
    svars = ["a", "b", "c"]
    rng.shuffle(svars)
    for v in svars[: rng.randint(0, 2)]:
        terms.append((rng.choice([1.0, 2.5, -1.0, -0.5]), rng.choice(list(SCALAR_ATOMS)), v, rng.random() < 0.7))
    if rng.random() < 0.8 or not terms:
        an = rng.choice(list(VECTOR_ATOMS) + ["norm2"])
        if an == "norm2":
            sidx = rng.choice(["origin", (0,), (1, 2), ()])
            terms.append((rng.choice([1.0, -2.0]), "norm2", "y", sidx))
        else:
            sidx = tuple(sorted(rng.sample(range(4), rng.randint(0, 4))))
            terms.append((rng.choice([1.0, 2.0, -1.5]), an, "x", sidx))
    item = {"terms": terms, "regular": rng.randrange(4), "vrel": rng.choice(VRELS), "multirow": rng.random() < 0.3, "cell": "random"}
    if rng.random() < 0.04:
        item.update(deep=rng.choice([399, 400, 401, 450]), where=rng.choice(["inner", "outer"]))
    return item


def run(ctx, rec):
    rng = ctx.rng
    for i, item in enumerate(directed_items()):
        if ctx.mine(i):
            run_item(rec, rng, item)
    k = 0
    for cell, node, spt in composite_items():
        for rep in range(4):
            k += 1
            if ctx.mine(k):
                run_composite(rec, rng, cell, node, spt, k)
    for cell, node, pt, partials in masked_items():
        k += 1
        if ctx.mine(k):
            run_masked(rec, rng, cell, node, pt, partials, k)
    n = 0
    while n < N_RANDOM[ctx.tier] and not rec.out_of_time():
        n += 1
        run_item(rec, rng, random_item(rng))


def replay(w, rec):
    import random

    item = w["show"]["item"]
    item["terms"] = [tuple(t[:3]) + ((tuple(t[3]) if isinstance(t[3], list) else t[3]),) for t in item["terms"]]
    run_item(rec, random.Random(0), item)


# workloads added after the seventh round of seeded changes (DESIGN section 9): part of the rule of this check
_RULE_ADDENDUM = 'components that are exactly -0.0 (finite, paths agree); summed vector expressions with poles of both signs nested as factor / base'
_info_base = info


def info(tier):  # noqa: F811
    d = _info_base(tier)
    d["rule"] = d["rule"] + "; " + _RULE_ADDENDUM
    return d
