"""C12 - parameter updates are honoured by every later evaluation and solve.

Histories over {p.set(v), solve(method), evaluate, compile-now, call a callable
compiled earlier} on models with parameters in every position the property
names (objective coefficient, constant term, constraint rhs and coefficient,
function argument, exponent, Hessian entry, VectorParameter elements,
MatrixParameter @ x, bare-parameter sub-derivatives).
Oracles:
 * evaluation-type observations: reference interpreter with the *current*
   parameter values;
 * solves: twin process building a fresh model with fresh Parameter objects at
   the current values (same solver path => tight), and the literal twin of the
   statement with Constants (may take another path: objective only, loose).
"""
from __future__ import annotations

import warnings

import numpy as np

from ..harness import close
from ..monitors.twin import Twin, TwinError, literalize, with_params
from ..recipes import ast as A
from ..recipes import build as B
from ..recipes import ref as R

LEVEL = "exploration"
BUDGET_S = {"quick": 420, "thorough": 1500}
N_HIST = {"quick": 10, "thorough": 320}
LEN = {"quick": (4, 20), "thorough": (10, 200)}

_x = ["vec", "x"]
x0, x1 = ["el", _x, 0], ["el", _x, 1]
P_, Q_ = ["par", "p"], ["par", "q"]
PV = [0.5, 1.0, 1.5, 2.0, 3.0]
QV = [-1.0, -0.5, 0.5, 1.0, 2.0]
SPD = [[[2.0, 0.5], [0.5, 1.0]], [[1.0, 0.0], [0.0, 4.0]], [[3.0, -1.0], [-1.0, 2.0]], [[1.5, 0.25], [0.25, 0.75]], [[1.0, 0.0], [0.0, 1.0]]]


def sq(e):
    return ["bin", "**", e, ["raw", 2, "int"]]


def model(name):
    """(decls, objective, constraints, sense)"""
    base = [{"k": "vec", "name": "x", "n": 2, "lb": -3.0, "ub": 5.0}, {"k": "par", "name": "p", "val": 1.5}, {"k": "par", "name": "q", "val": 0.5}]
    lin = lambda a, b: ["bin", "+", a, b]  # noqa: E731
    mul = lambda a, b: ["bin", "*", (["raw", a, "float"] if isinstance(a, float) else a), b]  # noqa: E731
    if name == "coef+rhs":
        obj = lin(lin(mul(P_, sq(x0)), sq(["bin", "-", x1, Q_])), mul(["raw", 0.5, "float"], mul(x0, x1)))
        cons = [["rel", ">=", lin(x0, x1), ["bin", "-", Q_, ["raw", 1.0, "float"]], "direct"]]
        return base, obj, cons, "min"
    if name == "fn-arg+cons-coef":
        obj = lin(lin(["fn", "exp", mul(P_, x0)], ["fn", "exp", ["neg", x0]]), sq(["bin", "-", x1, Q_]))
        cons = [["rel", "<=", lin(mul(P_, x0), x1), ["raw", 4.0, "float"], "direct"]]
        return base, obj, cons, "min"
    if name == "vector-param":
        d = base + [{"k": "vpar", "name": "r", "vals": [1.0, -2.0, 0.5]}]
        obj = lin(lin(mul(["pel", "r", 0], x0), mul(["pel", "r", 1], x1)), ["dot", _x, _x])
        cons = [["rel", ">=", ["sum", _x], ["pel", "r", 2], "direct"]]
        return d, obj, cons, "min"
    if name == "lp-like":
        d = [{"k": "vec", "name": "x", "n": 2, "lb": 0.0, "ub": 5.0}] + base[1:]
        obj = lin(mul(P_, x0), mul(lin(Q_, ["raw", 3.25, "float"]), x1))
        cons = [["rel", ">=", lin(x0, x1), ["raw", 1.0, "float"], "direct"], ["rel", "<=", ["bin", "-", x0, x1], P_, "direct"]]
        return d, obj, cons, "min"
    if name == "exponent":
        obj = lin(["bin", "**", lin(sq(x0), ["raw", 1.0, "float"]), P_], sq(["bin", "-", x1, Q_]))
        return base, obj, [], "min"
    if name == "matrix-param":
        d = base + [{"k": "mpar", "name": "S", "vals": SPD[0], "sym": True}, {"k": "vpar", "name": "r", "vals": [1.0, -2.0]}]
        obj = lin(["dotP", _x, "S", _x], ["matmul", ["vparv", "r"], _x])
        cons = [["rel", "==", ["sum", _x], ["raw", 1.0, "float"], "direct"]]
        return d, obj, cons, "min"
    if name == "bare-param-derivative":
        obj = lin(lin(mul(P_, x0), mul(Q_, x1)), mul(["raw", 0.5, "float"], lin(sq(x0), sq(x1))))
        return base, obj, [], "min"
    if name == "max-concave":
        obj = ["neg", lin(mul(P_, sq(["bin", "-", x0, Q_])), ["fn", "cosh", ["bin", "-", mul(P_, x1), Q_]])]
        cons = [["rel", "<=", lin(x0, mul(["raw", 2.0, "float"], x1)), lin(P_, ["raw", 2.0, "float"]), "reflected"]]
        return base, obj, cons, "max"
    if name == "constant-term":
        obj = lin(lin(sq(["bin", "-", x0, ["raw", 1.0, "float"]]), sq(x1)), mul(P_, Q_))
        cons = [["rel", "<=", ["sum", _x], P_, "direct"]]
        return base, obj, cons, "min"
    if name == "vector-param-on-the-right":
        # `vector @ VectorParameter` and `vector-expression @ VectorParameter` (the parameter vector as the RIGHT operand)
        d = base + [{"k": "vpar", "name": "r", "vals": [1.0, -2.0]}]
        obj = lin(lin(["matmul", _x, ["vparv", "r"]], ["matmul", ["vbin", "+", _x, ["raw", 1.0, "float"]], ["vparv", "r"]]), ["dot", _x, _x])
        cons = [["rel", ">=", ["sum", _x], ["bin", "-", Q_, ["raw", 1.0, "float"]], "direct"]]
        return d, obj, cons, "min"
    if name == "divisor-params-linear":
        # linear in the variables, the parameters appear only as divisors
        d = [{"k": "vec", "name": "x", "n": 2, "lb": 0.0, "ub": 10.0}] + base[1:]
        obj = lin(["bin", "/", x0, P_], ["bin", "/", mul(1.25, x1), ["raw", 1.0, "float"]])
        cons = [["rel", ">=", lin(x0, x1), ["raw", 2.0, "float"], "direct"], ["rel", "<=", ["bin", "/", ["bin", "-", x0, x1], P_], ["raw", 4.0, "float"], "direct"]]
        return d, obj, cons, "min"
    if name in ("matrix-param-function-api:quadratic_form", "matrix-param-function-api:matmul"):
        # the MatrixParameter handed to quadratic_form() / matmul() directly (if the API accepts it, it must follow set())
        d = base + [{"k": "mpar", "name": "S", "vals": SPD[0], "sym": True}, {"k": "vpar", "name": "r", "vals": [1.0, -2.0]}]
        obj = lin(["dotP", _x, "S", _x, name.split(":")[1]], ["matmul", ["vparv", "r"], _x])
        cons = [["rel", "==", ["sum", _x], ["raw", 1.0, "float"], "direct"]]
        return d, obj, cons, "min"
    if name == "param-times-reduction":
        # the WHOLE objective / constraint is `parameter * reduction` (+ scalar): forms with a per-node Jacobian row
        obj = lin(mul(P_, ["dot", _x, _x]), ["raw", 1.0, "float"])
        cons = [["rel", ">=", ["bin", "*", ["sum", _x], P_], ["raw", 1.0, "float"], "direct"],
                ["rel", "<=", mul(Q_, ["matmul", ["arr", [1.0, -1.0]], _x]), ["raw", 4.0, "float"], "direct"]]
        return base, obj, cons, "min"
    if name == "deep-accumulated":
        # an objective accumulated term by term beyond the depth at which the iterative compiler / differentiator take over,
        # with the parameters inside the accumulation
        obj = mul(P_, sq(["bin", "-", x0, Q_]))
        for i in range(1, 412):
            v = x0 if i % 2 == 0 else x1
            t = mul(0.01, sq(["bin", "-", v, ["raw", 0.25 * (i % 5), "float"]]))
            if i % 50 == 7:
                t = mul(0.01, mul(P_, sq(["bin", "-", v, Q_])))
            obj = lin(obj, t)
        cons = [["rel", ">=", lin(x0, x1), ["bin", "-", Q_, ["raw", 1.0, "float"]], "direct"]]
        return base, obj, cons, "min"
    if name == "fn-of-parameters-only":
        # functions whose argument holds parameters and no variable (a discount factor exp(-rate*t), a scale cosh(q)): constant
        # with respect to the variables, not constant with respect to set()
        disc = ["fn", "exp", ["neg", mul(P_, ["raw", 0.5, "float"])]]
        obj = lin(lin(mul(disc, sq(["bin", "-", x0, ["raw", 1.0, "float"]])), mul(["fn", "cosh", Q_], sq(x1))), mul(["fn", "sin", lin(P_, Q_)], x1))
        cons = [["rel", ">=", lin(x0, x1), ["fn", "tanh", Q_], "direct"]]
        return base, obj, cons, "min"
    raise KeyError(name)


MODELS = ["coef+rhs", "fn-arg+cons-coef", "vector-param", "lp-like", "exponent", "matrix-param", "bare-param-derivative",
          "max-concave", "constant-term", "deep-accumulated", "vector-param-on-the-right", "divisor-params-linear"]
OPTIONAL_MODELS = ["matrix-param-function-api:quadratic_form", "matrix-param-function-api:matmul"]  # may be rejected at build time
MODELS = MODELS + ["param-times-reduction", "fn-of-parameters-only"] + OPTIONAL_MODELS
METHODS = ["auto", "SLSQP", "trust-constr"]


def info(tier):
    return {
        "level": LEVEL,
        "rule": "random histories (length %d-%d) over {set, solve(auto|SLSQP|trust-constr), evaluate, compile-now, call earlier "
        "callable} on %d parameterised model families; every observation compared with the reference at current parameter "
        "values or with the twin process (fresh Parameter objects; literal Constants); distinct = distinct (model, history) hashes"
        % (LEN[tier][0], LEN[tier][1], len(MODELS)),
        "required_cells": [f"model:{m}" for m in MODELS if m not in OPTIONAL_MODELS] + ["obs:evaluate", "obs:compiled-value", "obs:compiled-gradient", "obs:compiled-jacobian",
                                                            "obs:compiled-hessian", "obs:solve-vs-fresh-parameters", "obs:solve-vs-constants",
                                                            "after-set", "solve:warm-start-at-previous-solution", "set:small-relative-change", "set:tiny-value", "vector-parameter:integer-typed-initial-data", "set:vector-as-integers", "parameter-data:narrow-dtype"],
        "assumptions": [
            "twin process: same interpreter / NumPy / SciPy; the solvers are deterministic, so same-path comparisons are tight (1e-7 rel on objective)",
            "literal-Constant twin may legitimately use the LP path: compared on objective only (1e-4), status differences non-comparable unless the same-path twin disagrees too",
        ],
    }


def run_history(rec, rng, twin, mname, length):
    import copy

    decls, obj, cons, sense = model(mname)
    decls = copy.deepcopy(decls)
    # initial parameter values vary per history and include structural values (0 / 1 entries, identity and diagonal
    # matrices): an expression whose *shape* was decided from the initial values must still follow later updates
    for d in decls:
        if d["k"] == "par":
            d["val"] = rng.choice(PV if d["name"] == "p" else QV + [0.0, 1.0])
        elif d["k"] == "vpar":
            d["vals"] = [rng.choice([0.0, 0.0, 1.0, -2.0, 0.5]) for _ in d["vals"]]
            if mname == "vector-param":
                d["vals"][2] = rng.choice([-1.0, 0.0, 0.5])
            if rng.random() < 0.5:
                # integer-valued initial data handed over as ints (list / integer array): later updates are fractional
                d["vals"] = [float(round(v)) for v in d["vals"]]
                d["as"] = rng.choice(["int-list", "int-array", "float32-array"])
                rec.cmp(1, "vector-parameter:integer-typed-initial-data")
        elif d["k"] == "mpar":
            d["vals"] = [list(r) for r in rng.choice([SPD[1], SPD[4], SPD[0]])]
    D = R.Decls(decls)
    prob = {"decls": decls, "objective": obj, "sense": sense, "constraints": cons}
    try:
        b = B.Builder(decls)
        P = b.problem(prob)
    except Exception as ex:
        if mname in OPTIONAL_MODELS:
            rec.events[f"model-rejected-at-build:{mname}:{type(ex).__name__}"] += 1
            return
        raise
    names = ["x[0]", "x[1]"]
    Vobjs = b.variables(names)
    e_obj = P.objective
    cur_p = {d["name"]: d["val"] for d in decls if d["k"] == "par"}
    cur_vp = {d["name"]: list(d["vals"]) for d in decls if d["k"] == "vpar"}
    cur_mp = {d["name"]: [list(r) for r in d["vals"]] for d in decls if d["k"] == "mpar"}
    hist = []
    last_values = None
    compiled = []  # (step, kind, fn)
    n_sets = 0
    show = {"model": mname, "objective": A.render(obj), "constraints": [A.render(c) for c in cons], "sense": sense}

    def params_now():
        pv = dict(cur_p)
        for nm, vals in cur_vp.items():
            for i, v in enumerate(vals):
                pv[f"{nm}[{i}]"] = v
        return pv

    def bad(what, **kw):
        rec.violation(what, {"model": mname, "history": list(hist), "show": show, "params": {"p": dict(cur_p), "vp": dict(cur_vp), "mp": dict(cur_mp)}, **kw})

    def rand_point():
        return {"x[0]": round(rng.uniform(-1.5, 2.0), 3), "x[1]": round(rng.uniform(-1.5, 2.0), 3)}

    from optyx.core import autodiff as AD
    from optyx.core import compiler as C

    for step in range(length):
        r = rng.random()
        if r < 0.35:
            # ---- set ----
            choices = list(cur_p) + list(cur_vp) + list(cur_mp)
            nm = rng.choice(choices)
            if nm in cur_p:
                v = rng.choice(PV if nm == "p" else QV)
                rr = rng.random()
                if rr < 0.25 and cur_p[nm] != 0:
                    # a small update (bump-and-revalue sensitivity): the new value is the one passed to set(), however close
                    v = cur_p[nm] * (1.0 + rng.choice([1e-6, -1e-6, 3e-7]))
                    rec.cmp(1, "set:small-relative-change")
                elif rr < 0.35 and nm != "p" and mname not in ("divisor-params-linear",):
                    v = rng.choice([5e-9, -2e-9, 0.0])
                    rec.cmp(1, "set:tiny-value")
                b.env[nm].set(v)
                cur_p[nm] = v
            elif nm in cur_vp:
                v = [rng.choice([-2.0, -1.0, 0.5, 1.0, 2.0]) for _ in cur_vp[nm]]
                if mname == "vector-param":
                    v[2] = rng.choice([-1.0, 0.0, 0.5])
                rr = rng.random()
                if rr < 0.3 and all(float(t).is_integer() for t in v):
                    b.env[nm].set([int(t) for t in v] if rr < 0.15 else np.array([int(t) for t in v]))
                    rec.cmp(1, "set:vector-as-integers")
                else:
                    b.env[nm].set(v)
                cur_vp[nm] = v
            else:
                v = rng.choice(SPD)
                b.env[nm].set(np.array(v))
                cur_mp[nm] = [list(rr) for rr in v]
            hist.append(["set", nm, v])
            n_sets += 1
            continue
        tag = "after-set" if n_sets else None
        if r < 0.50:
            # ---- evaluate ----
            pt = rand_point()
            hist.append(["evaluate", pt])
            want, t = R.ref_value(D, obj, pt, params=params_now(), mpars=cur_mp)
            try:
                got = float(np.asarray(e_obj.evaluate(dict(pt))).reshape(-1)[0])
            except Exception as ex:
                bad("evaluate-raises:" + type(ex).__name__, error=repr(ex)[:200])
                continue
            ok, d = close(got, want, 1e-9, t.mag)
            rec.cmp(1, "obs:evaluate")
            rec.cmp(1, tag)
            if not ok:
                bad("evaluate-stale-or-wrong", got=got, want=want)
            for k, c in enumerate(P.constraints):
                alg = R.FloatAlg(pt, params_now())
                it = R.Interp(D, alg, cur_mp)
                rel = cons[k]
                wantc = float(alg.sub(it.S(rel[2]), it.S(rel[3]) if rel[3][0] != "raw" else alg.const(rel[3][1])))
                if rel[4] == "reflected":
                    wantc = -wantc
                gotc = float(c.expr.evaluate(dict(pt)))
                rec.cmp(1, "obs:evaluate")
                if not close(gotc, wantc, 1e-9, alg.t.mag)[0]:
                    bad("constraint-evaluate-stale-or-wrong", constraint=k, got=gotc, want=wantc)
        elif r < 0.58:
            # ---- compile now ----
            try:
                compiled.append((step, "value", C.compile_expression(e_obj, Vobjs)))
                compiled.append((step, "gradient", C.compile_gradient(e_obj, Vobjs)))
                compiled.append((step, "jacobian", AD.compile_jacobian([e_obj] + [c.expr for c in P.constraints], Vobjs)))
                compiled.append((step, "hessian", AD.compile_hessian(e_obj, Vobjs)))
                hist.append(["compile"])
            except Exception as ex:
                bad("compile-raises:" + type(ex).__name__, error=repr(ex)[:200])
        elif r < 0.78 and compiled:
            # ---- call a callable compiled at an earlier moment ----
            cstep, kind, fn = rng.choice(compiled)
            pt = rand_point()
            hist.append(["call", kind, cstep, pt])
            x = B.point_array(names, pt)
            j, t = R.ref_jet(D, obj, names, pt, order=2, params=params_now(), mpars=cur_mp)
            try:
                got = np.asarray(fn(x.copy()), dtype=float)
            except Exception as ex:
                bad(f"compiled-{kind}-raises:" + type(ex).__name__, error=repr(ex)[:200])
                continue
            if kind == "value":
                want = np.array([j.v])
            elif kind == "gradient":
                want = np.array(j.g)
            elif kind == "hessian":
                want = np.array(j.H)
            else:
                rows = [np.array(j.g)]
                for k, rel in enumerate(cons):
                    alg = R.JetAlg(1, names, pt, params_now())
                    it = R.Interp(D, alg, cur_mp)
                    dj = alg.sub(it.S(rel[2]), it.S(rel[3]) if rel[3][0] != "raw" else alg.const(rel[3][1]))
                    rows.append(np.array(dj.g) * (-1.0 if rel[4] == "reflected" else 1.0))
                want = np.array(rows)
            rec.cmp(1, f"obs:compiled-{kind}")
            rec.cmp(1, tag)
            g, w = got.reshape(-1), want.reshape(-1)
            if g.shape != w.shape or not all(close(a_, b_, 1e-7, max(t.mag, t.dmag))[0] for a_, b_ in zip(g, w)):
                bad(f"compiled-{kind}-stale-or-wrong", compiled_at_step=cstep, got=g.tolist(), want=w.tolist(), point=pt)
        else:
            # ---- solve ----
            method = rng.choice(METHODS)
            hist.append(["solve", method])
            kw = {"maxiter": 500} if method == "trust-constr" else {}
            if last_values is not None and rng.random() < 0.4:
                # warm start at the point the previous solve returned (the first evaluation of this solve is at the last
                # evaluated point of the previous one)
                kw["x0"] = [last_values[nm] for nm in names]
                hist[-1].append("warm-start")
                rec.cmp(1, "solve:warm-start-at-previous-solution")
            try:
                with warnings.catch_warnings():
                    warnings.simplefilter("ignore")
                    sol = P.solve(method=method, **{**kw, **({"x0": np.array(kw["x0"], dtype=float)} if "x0" in kw else {})})
                if sol.values and all(nm in sol.values and np.isfinite(sol.values[nm]) for nm in names):
                    last_values = dict(sol.values)
            except Exception as ex:
                bad("solve-raises:" + type(ex).__name__, error=repr(ex)[:200])
                continue
            dnow = with_params(decls, cur_p, cur_vp, cur_mp)
            job = {"op": "solve", "prob": {"decls": dnow, "objective": obj, "sense": sense, "constraints": cons}, "method": method, "kwargs": kw}
            try:
                tw = twin.call(job)
            except TwinError as ex:
                rec.inconclusive.append("twin: " + str(ex))
                return
            if "error" in tw:
                rec.noncomp["twin-error:" + tw["error"][:40]] += 1
                continue
            rec.cmp(1, "obs:solve-vs-fresh-parameters")
            rec.cmp(1, tag)
            same_status = tw["status"] == sol.status.value
            if not same_status:
                bad("solve-status-differs-from-fresh-model", got=sol.status.value, want=tw["status"], method=method)
                continue
            if sol.status.value == "optimal":
                d = abs(sol.objective_value - tw["objective"]) / (1 + abs(tw["objective"]))
                rec.disc("solve-vs-fresh-parameters", d)
                dx = max(abs(sol.values[k] - tw["values"][k]) for k in tw["values"])
                if d > 1e-7 or dx > 1e-5:
                    bad("solve-result-differs-from-fresh-model", got=[sol.objective_value, sol.values], want=[tw["objective"], tw["values"]], method=method)
                    continue
                # the literal twin of the statement: Constants instead of Parameters
                lit = {"decls": [d_ for d_ in dnow if d_["k"] not in ("par", "vpar", "mpar")], "objective": literalize(obj, dnow),
                       "sense": sense, "constraints": [literalize(c, dnow) for c in cons]}
                try:
                    tl = twin.call({"op": "solve", "prob": lit, "method": method, "kwargs": kw})
                except TwinError as ex:
                    rec.inconclusive.append("twin: " + str(ex))
                    return
                if "error" in tl or tl["status"] != "optimal":
                    rec.noncomp["constant-twin-not-optimal"] += 1
                    continue
                rec.cmp(1, "obs:solve-vs-constants")
                d2 = abs(sol.objective_value - tl["objective"]) / (1 + abs(tl["objective"]))
                rec.disc("solve-vs-constants", d2)
                # with method="auto" the Constant model may take the exact LP path while the parameterised
                # model goes through trust-constr / SLSQP (solver accuracy ~1e-3 on LP-like models)
                if d2 > (5e-3 if method == "auto" else 1e-4):
                    bad("solve-objective-differs-from-constant-model", got=sol.objective_value, want=tl["objective"], method=method)
    rec.cmp(1, f"model:{mname}")
    rec.case({"m": mname, "h": hist})
    rec.sample({"model": mname, "history": hist[:12]}, cap=2)


def run_narrow_data(rec, dtype_name, kind):
    """Parameters created from / updated with data in a narrow NumPy dtype (int8 counts, uint8 pixels, int16, float32 prices): the
    parameter stands for its *number* - evaluate and compiled callables at integer and float points, before and after set(), equal
    the arithmetic on Python numbers"""
    import optyx
    from optyx.core import compiler as C

    rec.case({"narrow-data": dtype_name, "kind": kind})
    dt = getattr(np, dtype_name)
    first = [100, 90, 7] if dtype_name != "float32" else [0.5, 0.25, 3.0]
    second = [120, 5, 3] if dtype_name != "float32" else [1.5, 0.75, 0.125]
    x = optyx.VectorVariable("x", 3)
    if kind == "vector":
        q = optyx.VectorParameter("q", 3, np.array(first, dtype=dt))
        qs = [q[0], q[1], q[2]]
        setter = lambda vals: q.set(np.array(vals, dtype=dt))  # noqa: E731
    else:
        qs = [optyx.Parameter(f"q{i}", dt(first[i])) for i in range(3)]
        setter = lambda vals: [qs[i].set(dt(vals[i])) for i in range(3)]  # noqa: E731
    e = qs[0] * x[0] + qs[1] * x[1] + qs[2] * x[2] + qs[0] * x[1] * 2 + qs[1]
    fn = C.compile_expression(e, list(x))
    for vals, phase in ((first, "initial"), (second, "after-set")):
        if phase == "after-set":
            setter(vals)
        for pt in ([1, 2, 3], [2, 3, 1], [1.5, 2.25, -0.5]):
            want = vals[0] * pt[0] + vals[1] * pt[1] + vals[2] * pt[2] + vals[0] * pt[1] * 2 + vals[1]
            obs = {"evaluate": lambda: e.evaluate({f"x[{i}]": pt[i] for i in range(3)}), "compiled(list)": lambda: fn(list(pt)), "compiled(array)": lambda: fn(np.array(pt))}
            for route, call in obs.items():
                rec.cmp(1, "parameter-data:narrow-dtype")
                try:
                    got = float(np.asarray(call()).reshape(-1)[0])
                except Exception as ex:
                    rec.violation("narrow-parameter-data:raises:" + type(ex).__name__, {"dtype": dtype_name, "kind": kind, "route": route, "error": repr(ex)[:200]})
                    continue
                if abs(got - want) > 1e-12 * max(1.0, abs(want)):
                    rec.violation("parameter-arithmetic-in-the-dtype-of-its-data", {"dtype": dtype_name, "kind": kind, "phase": phase, "route": route, "point": pt, "got": got, "want": want})
                    return


def run(ctx, rec):
    rng = ctx.rng
    for i, (dn, kd) in enumerate([(d_, k_) for d_ in ("int8", "uint8", "int16", "int32", "float32") for k_ in ("vector", "scalar")]):
        if ctx.mine(i + 2):
            run_narrow_data(rec, dn, kd)
    twin = Twin().start()
    try:
        n = 0
        k = ctx.shard
        lo, hi = LEN[ctx.tier]
        while n < N_HIST[ctx.tier] and not rec.out_of_time():
            n += 1
            k += 1
            run_history(rec, rng, twin, MODELS[k % len(MODELS)], rng.randint(lo, hi))
            if rec.inconclusive:
                break
    finally:
        twin.close()


def replay(w, rec):
    rec.inconclusive.append("C12 histories replay by seed: VERIF_SEED=<seed> ./check C12 (history recorded in the witness)")


# workloads added after the seventh round of seeded changes (DESIGN section 9): part of the rule of this check
_RULE_ADDENDUM = 'vector parameters created from integer-typed data and updated as ints / floats; parameters holding narrow-dtype data (int8 ... float32) evaluated at integer and float points before and after set()'
_info_base = info


def info(tier):  # noqa: F811
    d = _info_base(tier)
    d["rule"] = d["rule"] + "; " + _RULE_ADDENDUM
    return d
