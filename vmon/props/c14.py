"""C14 - independent models do not interfere through process-wide caches.

For a model M (an expression with its derivatives, or a problem to solve) and a
prefix of k other models designed to collide with it - same variable names
with other bounds / domains / positions, same parameter names with other
values, structurally identical expressions rebuilt so that the identity-keyed
LRU caches churn beyond their capacities (k up to 1100 quick / 5000 thorough),
bare-leaf expressions (the only name-keyed cache entries) - the observations on
M after the prefix must equal the observations on M alone in a *fresh process*
(twin oracle, one new interpreter per M) and the reference interpreter.
The monitored process never clears its caches; cache_info() deltas taken while
M is observed show that M was in fact served through the shared caches.
"""
from __future__ import annotations

import copy
import warnings

import numpy as np

from .. import exprcase as X
from ..harness import close
from ..monitors.twin import Twin, TwinError
from ..recipes import ast as A
from ..recipes import build as B
from ..recipes import lpgen as L
from ..recipes import nlpgen as NG
from ..recipes import ref as R

LEVEL = "exploration"
BUDGET_S = {"quick": 420, "thorough": 2400}
N_PAIRS = {"quick": 10, "thorough": 190}
KS = {"quick": [1, 10, 1100], "thorough": [1, 10, 1100, 5000]}  # + k = 6 in the directed family sweep


def info(tier):
    return {
        "level": LEVEL,
        "rule": "(prefix, M) pairs: M = random or directed-family expression recipe (value, compiled value, gradient, Jacobian, Hessian, degree) or LP / "
        "convex NLP problem (solve); prefix = k in %s colliding models (the last ones always M's own recipe with other data, bounds, parameter values or symmetric flags; in half of the pairs all data arrays of the process live in shared buffers rewritten in place); M observed after the prefix, and in the order M, prefix, M "
        "again; compared with a fresh-process twin (1e-12 for evaluation-type observations, 1e-9 for solves) and the reference "
        "interpreter; distinct = canonical (M, k) hashes" % KS[tier],
        "required_cells": [f"k:{k}" for k in KS[tier]] + ["M:expression", "M:directed-family-sweep", "M:deep-copy-of-a-compiled-model", "M:built-from-objects-shared-with-an-earlier-model", "M:shares-a-constraint-object-with-an-earlier-model", "M:expression-with-parameters", "M:lp", "M:nlp", "order:prefix-then-M",
                                                          "order:M-prefix-M", "collision:same-names-other-bounds", "collision:same-parameter-names-other-values",
                                                          "collision:rebuilt-identical", "collision:bare-leaves", "collision:shifted-positions",
                                                          "collision:same-recipe-other-data-or-structure", "collision:same-declarations-bounds-edited-in-place", "collision:same-skeleton-lower-degree", "M:directed-family", "buffers:shared-in-place", "buffers:fresh-arrays"],
        "assumptions": ["fresh-process twin: same interpreter, PYTHONHASHSEED=0; NumPy arithmetic is deterministic, so equality is demanded to 1e-12",
                        "cache capacities are those of the tree under test (1024 / 4096 / 1024); k=1100 exceeds the compile and degree caches, k=5000 all three"],
    }


class _NoInfo:
    hits = misses = currsize = 0
    maxsize = -1


def cache_infos():
    """cache_info() of the three process-wide LRU caches - evidence only: a tree without them (refactored caches) is fine"""
    out = {}
    for name, modname, attr in (("compile", "optyx.core.compiler", "_compile_cached"), ("gradient", "optyx.core.autodiff", "_gradient_cached"),
                                ("degree", "optyx.analysis", "_compute_degree_cached")):
        try:
            import importlib

            out[name] = getattr(importlib.import_module(modname), attr).cache_info()
        except Exception:
            out[name] = _NoInfo()
    return out


TWIN_MEMO = {}  # the fresh-process observation of the current directed M (shared by the two orders it is run in)
POOL = {}  # data-array buffers shared by every model of the monitored process that is built in "shared-buffers" mode


def perturb_node(n, j, views=True):
    """the same recipe with other data: every float array / matrix constant rescaled and shifted"""
    if not isinstance(n, list) or not n:
        return n
    f = 1.5 + (j % 4)

    def num(v):
        if isinstance(v, list):
            return [num(u) for u in v]
        return v * f + 0.25 if isinstance(v, float) else v

    if n[0] in ("arr", "arr2") and len(n) == 2:
        return [n[0], num(n[1])]
    if n[0] in ("qf", "dotQ"):
        return [n[0], perturb_node(n[1], j, views), num(n[2])] + [perturb_node(x, j, views) for x in n[3:]]
    if n[0] == "mv":
        return [n[0], num(n[1]), perturb_node(n[2], j, views)] + list(n[3:])
    if n[0] == "slice" and views and isinstance(n[1], list):
        # another view with the same generated name and size but other elements / another order
        a_, b_, c_ = n[2], n[3], n[4]
        if (a_, b_, c_) == (None, None, -1):
            return ["slice", perturb_node(n[1], j, views), None, None, None]
        if (a_, b_, c_) == (None, None, None):
            return ["slice", perturb_node(n[1], j, views), None, None, -1]
        if isinstance(a_, int) and isinstance(b_, int) and c_ in (None, 1) and 0 < a_ < b_:
            return ["slice", perturb_node(n[1], j, views), b_ - 1, a_ - 1, -1]
        if isinstance(a_, int) and isinstance(b_, int) and c_ == -1 and a_ > b_ >= 0:
            return ["slice", perturb_node(n[1], j, views), b_ + 1, a_ + 1, None]
    if n[0] == "row" and views and isinstance(n[1], list):
        return ["rows", perturb_node(n[1], j, views), n[2], None, None, -1]
    if n[0] == "rows" and views and isinstance(n[1], list) and n[5] in (None, 1) and isinstance(n[3], int) and isinstance(n[4], int):
        # another window of the same row with the same length (A[i, 0:2] / A[i, 1:3] are both "A[i,:]")
        return ["rows", perturb_node(n[1], j, views), n[2], n[3] + 1, n[4] + 1, n[5]] if j % 2 else ["rows", perturb_node(n[1], j, views), n[2], max(0, n[3] - 1), n[4] - 1 if n[3] > 0 else n[4], n[5]]
    return [perturb_node(x, j, views) if isinstance(x, list) else x for x in n]


def _has_vars(n):
    return any(x[0] in ("var", "vec", "mat") for x in A.walk(n))


def strip_nonlinear(n):
    """the same recipe skeleton (same reductions over vector expressions of the same sizes, same names) with the non-linearity taken
    out: powers and elementary functions dropped, products of two non-constant factors turned into sums.  An earlier model of this
    shape has the same *kinds* of nodes as M with a lower degree - summaries such as `VectorExpressionSum(size=3)` coincide."""
    if not isinstance(n, list) or not n or not isinstance(n[0], str):
        return n
    k = n[0]
    if k == "vpow":
        return strip_nonlinear(n[1])
    if k in ("vfn", "fn"):
        return strip_nonlinear(n[2])
    if k == "bin" and n[1] == "**":
        return strip_nonlinear(n[2])
    if k in ("bin", "vbin", "mbin") and n[1] in ("*", "/") and _has_vars(n[2]) and _has_vars(n[3]):
        return [k, "+", strip_nonlinear(n[2]), strip_nonlinear(n[3])] if n[1] == "*" else strip_nonlinear(n[2])
    if k in ("vrbin", "mrbin") and n[1] == "/" and _has_vars(n[3]):
        return strip_nonlinear(n[3])
    if k == "norm":
        return ["sum", strip_nonlinear(n[1])]
    if k == "fro":
        return ["msum", strip_nonlinear(n[1])]
    return [strip_nonlinear(x) if isinstance(x, list) else x for x in n]


def perturb_decls(decls, j, what):
    """the same names with other structure: bounds, domains, parameter values, the symmetric flag of square matrices
    (what: 0 bounds, 1 symmetric flags, 2 parameter values, 3 flags + parameters, 4 everything)"""
    d2 = copy.deepcopy(decls)
    for d in d2:
        if d["k"] in ("var", "vec", "mat") and what in (0, 4):
            d["lb"], d["ub"] = -3.0 - j % 2, 4.0 + j % 3
        if d["k"] == "mat" and d["r"] == d["c"] and what in (1, 3, 4):
            d["sym"] = not d.get("sym")
        if d["k"] == "par" and what in (2, 3, 4):
            d["val"] = 7.0 + j % 5
        if d["k"] == "vpar" and what in (2, 3, 4):
            d["vals"] = [3.0 + (j + i) % 4 for i in range(len(d["vals"]))]
        if d["k"] == "mpar" and what in (2, 3, 4):
            d["vals"] = [[(v * 2.0 + 1.0) for v in row] for row in d["vals"]]
    return d2


def run_perturbed_twin(Mrec, j, pool, rec, what):
    """N_j = M's own recipe with other data / structure, observed or solved exactly as M will be"""
    if what == 6:
        # the de-nonlinearised skeleton of M (same reductions, lower degree), classified and solved like M will be
        rec.cells["collision:same-skeleton-lower-degree"] += 1
        if "node" in Mrec:
            case2 = dict(Mrec)
            case2["node"] = strip_nonlinear(Mrec["node"])
            touch_expr(case2, pool, rec, rotate=0)
        else:
            prob2 = dict(Mrec["prob"])
            prob2["objective"] = strip_nonlinear(prob2["objective"])
            prob2["constraints"] = [strip_nonlinear(c) for c in prob2["constraints"]]
            b = B.Builder(prob2["decls"], buffers=pool)
            P = b.problem(prob2)
            from optyx import analysis as AN

            AN.compute_degree(P.objective)
            P._is_linear_problem()
            with warnings.catch_warnings():
                warnings.simplefilter("ignore")
                P.solve(method="auto", **({} if P._is_linear_problem() else {"maxiter": 2}))
        return
    if what == 5:
        # the very same declarations; after the model is written some element bounds are edited in place (v.lb = ..., v.ub = ...:
        # fixing / tightening a decision for this model only) and the model is solved
        rec.cells["collision:same-declarations-bounds-edited-in-place"] += 1
        if "node" in Mrec:
            return
        prob2 = dict(Mrec["prob"])
        b = B.Builder(prob2["decls"], buffers=pool)
        P = b.problem(prob2)
        vs = list(P.variables)
        for v in (vs[:1] + vs[-1:] + vs[len(vs) // 2: len(vs) // 2 + 1]):
            lo = v.lb if v.lb is not None else -1.0
            v.lb, v.ub = lo, lo + 0.25
        with warnings.catch_warnings():
            warnings.simplefilter("ignore")
            P.solve(method=Mrec["method"], **({} if "lp" in Mrec.get("kind", "") else {"maxiter": 3}))
        return
    if "node" in Mrec:
        case2 = dict(Mrec)
        case2["decls"] = perturb_decls(Mrec["decls"], j, what)
        case2["node"] = perturb_node(Mrec["node"], j, views=what in (1, 3, 4))
        touch_expr(case2, pool, rec, rotate=(1 + j % 3) if what in (0, 4) else 0)
        if what == 4:
            touch_expr(case2, pool, rec, rotate=0)
    else:
        prob2 = dict(Mrec["prob"])
        prob2["decls"] = perturb_decls(prob2["decls"], j, what)
        prob2["objective"] = perturb_node(prob2["objective"], j, views=what in (1, 3, 4))
        prob2["constraints"] = [perturb_node(c, j, views=what in (1, 3, 4)) for c in prob2["constraints"]]
        b = B.Builder(prob2["decls"], buffers=pool)
        P = b.problem(prob2)
        with warnings.catch_warnings():
            warnings.simplefilter("ignore")
            kw_ = {} if Mrec["method"] in ("linprog", "highs", "highs-ds", "highs-ipm") or j % 2 else {"maxiter": 2}
            if "lp" in Mrec.get("kind", ""):
                kw_ = {}
            P.solve(method=Mrec["method"], **kw_)
    rec.cells["collision:same-recipe-other-data-or-structure"] += 1


def touch_expr(case, pool, rec, rotate=0):
    """every observation route of observe_expr on a prefix model, each on its own (a structural change may rename variables:
    the variable list is M's list extended by the model's own variables, missing point coordinates are filled in)"""
    from optyx.core import autodiff as AD
    from optyx.core import compiler as C
    from optyx.core.expressions import get_all_variables

    b = B.Builder(case["decls"], buffers=pool)
    e = b.S(case["node"])
    own = sorted(get_all_variables(e), key=lambda v: v.name)
    names = list(case["V"]) + [v.name for v in own if v.name not in case["V"]]
    if rotate and len(names) > 1:
        # the same variables at other positions of the variable list
        r_ = rotate % len(names)
        names = names[r_:] + names[:r_]
    Vobjs = b.variables(names)
    pt = dict(case["points"][0])
    for i, nm in enumerate(names):
        pt.setdefault(nm, 0.6 + 0.07 * (i % 9))
    x = np.array([pt[nm] for nm in names], dtype=float)
    for label, f in (("evaluate", lambda: e.evaluate(dict(pt))), ("compiled", lambda: C.compile_expression(e, Vobjs)(x)),
                     ("gradient", lambda: C.compile_gradient(e, Vobjs)(x)), ("jacobian", lambda: AD.compile_jacobian([e], Vobjs)(x)),
                     ("hessian", lambda: AD.compile_hessian(e, Vobjs)(x) if len(names) <= 9 else None), ("degree", lambda: e.degree),
                     ("jacobian-own-order", lambda: AD.compile_jacobian([e], own)(np.linspace(0.5, 1.2, len(own))))):
        try:
            with np.errstate(all="ignore"):
                f()
            rec.events["prefix-twin-observations"] += 1
        except Exception:
            rec.events["prefix-twin-observation-raised:" + label] += 1


def collide(rng, decls, k, rec, Vnames=None, Mrec=None, pool=None):
    """Build, compile, differentiate and solve k models that collide with `decls`."""
    import optyx
    from optyx import analysis as AN
    from optyx.core import autodiff as AD
    from optyx.core import compiler as C

    names = [d["name"] for d in decls]
    n_twins = 0
    for j in range(k):
        mode = j % 5
        if Mrec is not None and ((j % 7 == 3 and ("node" in Mrec or j < 30)) or j >= k - 4):
            # the last models before M are always structurally identical twins with other data
            # the first and the last twin differ from M in everything at once (first-wins and last-wins memos), the others in one respect
            n_twins += 1
            what = 4 if n_twins == 1 or j == k - 1 else (n_twins + k) % 4
            if j == k - 1:
                # right before the last twin: the same declarations with bounds edited in place, and M's skeleton with a lower degree
                for w_ in (6, 5):
                    try:
                        run_perturbed_twin(Mrec, j, pool, rec, w_)
                    except Exception as ex_:
                        rec.events["perturbed-twin-raised:" + ("bounds-edited" if w_ == 5 else "lower-degree") + ":" + type(ex_).__name__] += 1
            try:
                run_perturbed_twin(Mrec, j, pool, rec, what)
            except Exception:
                rec.events["perturbed-twin-raised"] += 1
            continue
        d2 = copy.deepcopy(decls)
        if mode == 0:
            rec.cells["collision:same-names-other-bounds"] += 1
            for d in d2:
                if d["k"] in ("var", "vec", "mat"):
                    d["lb"], d["ub"] = -7.0 - j % 3, 9.0 + j % 4
                    if j % 2:
                        d["dom"] = "integer"
        elif mode == 1:
            rec.cells["collision:same-parameter-names-other-values"] += 1
            for d in d2:
                if d["k"] == "par":
                    d["val"] = 10.0 + j % 7
                elif d["k"] == "vpar":
                    d["vals"] = [5.0 + (j + i) % 3 for i in range(len(d["vals"]))]
            if not any(d["k"] == "par" for d in d2):
                d2.append({"k": "par", "name": "p", "val": 10.0 + j % 7})
        elif mode == 2:
            rec.cells["collision:shifted-positions"] += 1
            for d in d2:
                if d["k"] == "vec":
                    d["n"] = d["n"] + 1 + j % 2
            d2.insert(0, {"k": "var", "name": "a0"})
        elif mode == 3:
            rec.cells["collision:rebuilt-identical"] += 1
        else:
            rec.cells["collision:bare-leaves"] += 1
            for d in d2:
                if d["k"] == "par":
                    d["val"] = 20.0 + j % 7
                elif d["k"] == "vpar":
                    d["vals"] = [30.0 + (j + i) % 3 for i in range(len(d["vals"]))]
        try:
            b = B.Builder(d2)
            svars = list(b.scalars.values())
            if not svars:
                continue
            v0 = svars[j % len(svars)]
            others = svars[: 4]
            if mode == 4 and Vnames:
                # leaf-only expressions compiled against M's own variable list: the name-keyed cache entries
                VM = b.variables(list(Vnames))
                xm = np.linspace(0.4, 1.3, len(VM))
                for vo in VM[:3]:
                    C.compile_expression(vo, VM)(xm)
                for pn, po in list(b.params.items()):
                    C.compile_expression(po, VM)(xm)
                    for vo in VM[:3]:
                        C.compile_gradient(po * vo, VM)(xm)
                        AD.compile_jacobian([po * vo + vo * vo], VM)(xm)
                    if len(VM) >= 2 and len(VM) <= 6:
                        AD.compile_hessian(po * VM[0] * VM[1] + VM[0] ** 2, VM)(xm)
                        AD.compile_hessian(po * VM[-1] * VM[0], VM)(xm)
            if mode == 4:
                # leaf-only expressions: the name-keyed cache entries
                C.compile_expression(v0, others if v0 in others else [v0] + others)(np.arange(1.0, 6.0 + len(others))[: len(others) + (0 if v0 in others else 1)])
                AD.gradient(v0, v0)
                for pn, po in list(b.params.items())[:2]:
                    C.compile_expression(po, others)(np.ones(len(others)))
                    AD.gradient(po * v0, v0)
                    float(np.asarray(C.compile_gradient(po * v0 + v0 * v0, [v0])(np.array([0.5]))).reshape(-1)[0])
                continue
            # a small model over the same names; Python bool / int literals as operands where a later model writes floats
            flag, off = bool(j % 2), (j % 3 == 0)
            e = (v0 * 2.0 + 1.0) ** 2 + optyx.sin(svars[(j + 1) % len(svars)]) * (1.0 + j % 3)
            e = e + flag * (v0 - 3) ** 2 + (not flag) * v0 + (v0 + off) * 1 + 0 * v0 + optyx.exp(v0 * True) * False
            for pn, po in list(b.params.items())[:1]:
                e = e + po * v0
            V = sorted(e.get_variables(), key=lambda v: v.name)
            xs = np.linspace(0.3, 1.1, len(V))
            C.compile_expression(e, V)(xs)
            C.compile_gradient(e, V)(xs)
            AN.compute_degree(e)
            _ = e.degree
            if j % 50 == 0:
                P = optyx.Problem().minimize(e)
                with warnings.catch_warnings():
                    warnings.simplefilter("ignore")
                    # some earlier models are solved with their own keyword options (a cheap probe with maxiter / tol)
                    P.solve(**([{}, {"maxiter": 2}, {"tol": 1e-2, "maxiter": 3}][(j // 50) % 3]))
            if j % 97 == 0:
                lin = v0 * 3.0 + svars[(j + 1) % len(svars)] + 2.0
                P = optyx.Problem().minimize(lin).subject_to(v0 >= -1).subject_to(svars[(j + 1) % len(svars)] >= 0.5)
                with warnings.catch_warnings():
                    warnings.simplefilter("ignore")
                    P.solve()
        except Exception:
            rec.events["prefix-model-raised"] += 1
    rec.events["prefix-models"] += k


def observe_expr(case, pool=None):
    """Observations on an expression M in the monitored process (same content as the twin's 'observe' job)."""
    from optyx.core import autodiff as AD
    from optyx.core import compiler as C

    b = B.Builder(case["decls"], buffers=pool)
    e = b.S(case["node"])
    V = case["V"]
    Vobjs = b.variables(V)
    pt = case["points"][0]
    x = np.array([pt[n] for n in V], dtype=float)
    out = {
        "evaluate": float(np.asarray(e.evaluate(dict(pt))).reshape(-1)[0]),
        "compiled": float(np.asarray(C.compile_expression(e, Vobjs)(x)).reshape(-1)[0]),
        "gradient": np.asarray(C.compile_gradient(e, Vobjs)(x), dtype=float).reshape(-1).tolist(),
        "jacobian": np.asarray(AD.compile_jacobian([e], Vobjs)(x), dtype=float).reshape(-1).tolist(),
    }
    if len(V) <= 6:
        out["hessian"] = np.asarray(AD.compile_hessian(e, Vobjs)(x), dtype=float).tolist()
    out["degree"] = e.degree
    return out, (b, e, Vobjs, x)


def reobserve_same_objects(state):
    from optyx.core import autodiff as AD
    from optyx.core import compiler as C

    b, e, Vobjs, x = state
    return {
        "compiled": float(np.asarray(C.compile_expression(e, Vobjs)(x)).reshape(-1)[0]),
        "gradient": np.asarray(C.compile_gradient(e, Vobjs)(x), dtype=float).reshape(-1).tolist(),
        "jacobian": np.asarray(AD.compile_jacobian([e], Vobjs)(x), dtype=float).reshape(-1).tolist(),
        "degree": e.degree,
    }


def same(a, b, tol):
    if isinstance(a, (list, tuple)) and isinstance(b, (list, tuple)):
        return len(a) == len(b) and all(same(x, y, tol) for x, y in zip(a, b))
    if isinstance(a, (int, float)) and isinstance(b, (int, float)) and not isinstance(a, bool):
        if a != a and b != b:
            return True
        return abs(a - b) <= tol * max(1.0, abs(b))
    return a == b


def run_expr_pair(rec, rng, twin, k, order, with_params, directed=None):
    case = None
    if directed is not None:
        case = directed
        rec.cells["M:directed-family-sweep"] += 1
    if with_params and rng.random() < 0.5:
        # directed: sub-derivatives that are bare parameters (d(p*a)/da = p), parameters as coefficients / arguments
        a_, b_ = ["var", "a"], ["var", "b"]
        fam = rng.choice([
            ["bin", "+", ["bin", "*", ["par", "p"], a_], ["fn", "sin", ["bin", "*", ["par", "p"], b_]]],
            ["bin", "+", ["bin", "+", ["bin", "*", ["par", "p"], a_], ["bin", "*", ["pel", "r", 1], b_]], ["bin", "*", ["raw", 0.5, "float"], ["bin", "*", a_, b_]]],
            ["bin", "+", ["bin", "*", ["pel", "r", 0], ["el", ["vec", "x"], 1]], ["bin", "*", ["par", "p"], ["sum", ["vec", "x"]]]],
            # parameter-scaled bilinear term: the mixed second derivative is the bare parameter
            ["bin", "+", ["bin", "*", ["bin", "*", ["par", "p"], a_], b_], ["bin", "+", ["bin", "**", a_, ["raw", 2, "int"]], ["bin", "**", b_, ["raw", 2, "int"]]]],
        ])
        case = X.finish_case(rng, X.D0, fam, rng.choice(X.VRELS), "directed-parameters", n_points=1)
    if case is None and not with_params and rng.random() < 0.5:
        # directed: every node family of the grammar, bare and in the top-level forms `f - c`, `c * f` (the forms with dedicated fast paths)
        fam, node = rng.choice(X.directed_families())
        wrap = rng.randrange(3)
        if wrap == 1:
            node = ["bin", "-", node, ["raw", 0.5, "float"]]
        elif wrap == 2:
            node = ["bin", "*", ["raw", 2.0, "float"], node]
        try:
            case = X.finish_case(rng, X.D0, node, rng.choice(X.VRELS), "directed:" + fam, n_points=1)
        except (R.ShapeError, R.OutOfModel):
            case = None
        if case is not None and len(case["V"]) > 8:
            case = None
    for _ in range(20):
        if case is not None:
            break
        case = X.random_case(rng, n_points=1, params=with_params, max_depth=3)
        if case is not None and len(case["V"]) <= 8 and (not with_params or any(x[0] in ("par", "pel") for x in A.walk(case["node"]))):
            break
        case = None
    if case is None:
        return
    rec.case({"M": case["node"], "d": case["decls"], "k": k, "o": order})
    show = {**X.show(case), "k": k, "order": order}
    job = {"op": "observe", "decls": case["decls"], "node": case["node"], "V": case["V"], "point": case["points"][0], "hessian": len(case["V"]) <= 6}
    try:
        jk = A.canon(job) if directed is not None else None
        want = TWIN_MEMO.get(jk) if jk is not None else None
        if want is None:
            want = twin.fresh_process_call(job)
            if jk is not None:
                TWIN_MEMO.clear()
                TWIN_MEMO[jk] = want
    except TwinError as ex:
        rec.inconclusive.append("twin: " + str(ex))
        return
    if "error" in want:
        rec.events["twin-error:" + want["error"][:30]] += 1
        return
    if with_params and rng.random() < 0.5:
        # M obtained as a deep copy of an already compiled model with other parameter values, then set() to M's values
        try:
            import copy as _copy

            d2 = perturb_decls(case["decls"], k, 2)
            b2 = B.Builder(d2)
            e2 = b2.S(case["node"])
            V2 = b2.variables(case["V"])
            xpt = np.array([case["points"][0][n] for n in case["V"]], dtype=float)
            reobserve_same_objects((b2, e2, V2, xpt))  # the template has been through every cache
            e3, V3, P3 = _copy.deepcopy((e2, V2, b2.params))
            Dm = R.Decls(case["decls"])
            for pn, pv in Dm.param_values().items():
                if pn in P3:
                    P3[pn].set(pv)
            got3 = reobserve_same_objects((None, e3, V3, xpt))
            rec.cmp(1, "M:deep-copy-of-a-compiled-model")
            compare_obs(rec, got3, {kk: want[kk] for kk in got3 if kk in want}, show, "M as a deep copy of a compiled model, parameters set afterwards", k, case)
        except Exception as ex:
            rec.events["deepcopy-mode-raised:" + type(ex).__name__] += 1
    state = None
    before = cache_infos()
    pool = POOL if rng.random() < 0.5 else None
    rec.cells["buffers:shared-in-place" if pool is not None else "buffers:fresh-arrays"] += 1
    show["buffers"] = "shared" if pool is not None else "fresh"
    try:
        if order == "M-prefix-M":
            first, state = observe_expr(case, pool)
            compare_obs(rec, first, want, show, "first observation of M", k, case)
        collide(rng, case["decls"], k, rec, case["V"], Mrec=case, pool=pool)
        mid = cache_infos()
        got, state2 = observe_expr(case, pool)
        after = cache_infos()
    except Exception as ex:
        rec.violation("observation-raises-after-prefix:" + type(ex).__name__, {"case": case, "show": show, "error": repr(ex)[:300]})
        return
    for name in after:
        rec.paths[f"{name}-cache-hits-while-observing-M"] += after[name].hits - mid[name].hits
        if mid[name].currsize == mid[name].maxsize and mid[name].misses - before[name].misses > 0:
            rec.paths[f"{name}-cache-full-during-prefix"] += 1
    rec.cmp(1, f"k:{k}")
    rec.cmp(1, f"order:{order}")
    rec.cmp(1, "M:expression-with-parameters" if with_params else "M:expression")
    compare_obs(rec, got, want, show, "M after the prefix", k, case)
    if state is not None:
        try:
            again = reobserve_same_objects(state)
            compare_obs(rec, again, {kk: want[kk] for kk in again}, show, "the same M objects re-observed after the prefix", k, case)
        except Exception as ex:
            rec.violation("re-observation-raises:" + type(ex).__name__, {"case": case, "show": show, "error": repr(ex)[:300]})
    # and against the reference
    j, t = R.ref_jet(R.Decls(case["decls"]), case["node"], case["V"], case["points"][0], order=1)
    if not close(got["compiled"], float(j.v), 1e-9, t.mag)[0]:
        rec.violation("value-after-prefix-differs-from-reference", {"case": case, "show": show, "got": got["compiled"], "want": float(j.v)})
    rec.sample(show, cap=3)


def compare_obs(rec, got, want, show, label, k, case):
    for key in got:
        if key not in want:
            continue
        rec.cmp(1, None)
        if not same(got[key], want[key], 1e-12):
            rec.violation(f"{key}-differs-from-fresh-process", {"case": case, "show": show, "when": label, "got": got[key], "want": want[key], "k": k})


def run_problem_pair(rec, rng, twin, k, order, kind, family=None):
    if kind == "lp":
        prob = L.draw_lp(rng, kind="optimal", layout=family)
        method = rng.choice(["auto", "highs-ds"])
    else:
        # directed: every constraint is linear, so that the objective alone decides the route "auto" takes
        prob = NG.draw_convex(rng, sense="min", family=family) if family is None else NG.draw_convex(rng, sense="min", family=family, simple_constraints_only=True, scalars=False)
        method = rng.choice(["auto", "SLSQP"]) if family is None else "auto"
    if family is not None:
        rec.cmp(1, "M:directed-family")
    prob = {kk: prob[kk] for kk in ("decls", "objective", "sense", "constraints")}
    rec.case({"P": prob, "k": k, "o": order, "m": method})
    show = {"decls": A.render_decls(prob["decls"]), "objective": A.render(prob["objective"]), "constraints": [A.render(c) for c in prob["constraints"]][:5],
            "method": method, "k": k, "order": order}
    try:
        want = twin.fresh_process_call({"op": "solve", "prob": prob, "method": method})
    except TwinError as ex:
        rec.inconclusive.append("twin: " + str(ex))
        return
    if "error" in want:
        rec.events["twin-error:" + want["error"][:30]] += 1
        return

    pool = POOL if rng.random() < 0.5 else None
    rec.cells["buffers:shared-in-place" if pool is not None else "buffers:fresh-arrays"] += 1
    show["buffers"] = "shared" if pool is not None else "fresh"

    if family is None and rng.random() < 0.4:
        # M and an earlier model N assembled from the SAME expression / constraint objects (f built once, used in two Problems):
        # N = the same objective object with the other sense, or plus one more variable that shifts every position
        try:
            import optyx

            bs = B.Builder(prob["decls"])
            obj_e = bs.S(prob["objective"])
            cons_o = []
            for c_ in prob["constraints"]:
                r_ = bs.rel(c_)
                cons_o.extend(r_ if isinstance(r_, list) else [r_])
            extra = bs.variables([rng.choice(["a0", "zz"])])[0]
            variants = []
            N1 = optyx.Problem()
            (N1.maximize if prob["sense"] == "min" else N1.minimize)(obj_e)
            variants.append(N1)
            N2 = optyx.Problem()
            (N2.minimize if prob["sense"] == "min" else N2.maximize)(obj_e + (2.0 * extra if kind == "lp" else (extra - 0.5) ** 2))
            extra.lb, extra.ub = -1.0, 1.0
            variants.append(N2)
            for Nv in variants:
                for co in cons_o:
                    Nv.subject_to(co)
                with warnings.catch_warnings():
                    warnings.simplefilter("ignore")
                    try:
                        Nv.solve(method=method if kind == "lp" else rng.choice(["trust-constr", method]), **({} if kind == "lp" else {"maxiter": 50}))
                    except Exception:
                        rec.events["shared-object-prefix-solve-raised"] += 1
            Ms = optyx.Problem()
            (Ms.minimize if prob["sense"] == "min" else Ms.maximize)(obj_e)
            for co in cons_o:
                Ms.subject_to(co)
            for meth_ in ([method] if kind == "lp" else [method, "trust-constr"]):
                with warnings.catch_warnings():
                    warnings.simplefilter("ignore")
                    s_ = Ms.solve(method=meth_, **({"maxiter": 300} if meth_ == "trust-constr" else {}))
                got_ = {"status": s_.status.value, "objective": s_.objective_value, "values": s_.values, "variables": [v.name for v in Ms.variables]}
                if meth_ == method:
                    want_ = want
                else:
                    want_ = twin.fresh_process_call({"op": "solve", "prob": prob, "method": meth_, "kwargs": {"maxiter": 300}})
                    if "error" in want_:
                        continue
                rec.cmp(1, "M:built-from-objects-shared-with-an-earlier-model")
                check_solve(rec, got_, want_, {**show, "method": meth_}, "M built from expression / constraint objects an earlier model also used", prob)
        except TwinError as ex:
            rec.inconclusive.append("twin: " + str(ex))
            return
        except Exception as ex:
            rec.events["shared-object-mode-raised:" + type(ex).__name__] += 1

    def solve_here():
        b = B.Builder(prob["decls"], buffers=pool)
        P = b.problem(prob)
        with warnings.catch_warnings():
            warnings.simplefilter("ignore")
            s = P.solve(method=method)
        return {"status": s.status.value, "objective": s.objective_value, "values": s.values, "variables": [v.name for v in P.variables],
                "bounds": [list(t) for t in P.get_bounds()]}, (P,)

    try:
        if order == "M-prefix-M":
            first, (P0,) = solve_here()
            check_solve(rec, first, want, show, "first solve of M", prob)
        collide(rng, prob["decls"], k, rec, Mrec={"prob": prob, "method": method, "kind": kind}, pool=pool)
        got, _ = solve_here()
    except Exception as ex:
        rec.violation("solve-raises-after-prefix:" + type(ex).__name__, {"prob": prob, "show": show, "error": repr(ex)[:300]})
        return
    rec.cmp(1, f"k:{k}")
    rec.cmp(1, f"order:{order}")
    rec.cmp(1, f"M:{kind}")
    check_solve(rec, got, want, show, "M after the prefix", prob)
    if order == "M-prefix-M":
        with warnings.catch_warnings():
            warnings.simplefilter("ignore")
            s = P0.solve(method=method)
        check_solve(rec, {"status": s.status.value, "objective": s.objective_value, "values": s.values}, want, show, "the same problem object re-solved after the prefix", prob)


def check_solve(rec, got, want, show, label, prob):
    rec.cmp(1, None)
    for key in ("status", "variables", "bounds"):
        if key in got and got[key] != want[key]:
            rec.violation(f"solve-{key}-differs-from-fresh-process", {"prob": prob, "show": show, "when": label, "got": got[key], "want": want[key]})
            return
    if got["status"] == "optimal":
        if not same(got["objective"], want["objective"], 1e-9) or not same([got["values"][k] for k in sorted(got["values"])], [want["values"][k] for k in sorted(want["values"])], 1e-7):
            rec.violation("solve-result-differs-from-fresh-process", {"prob": prob, "show": show, "when": label, "got": [got["objective"], got["values"]], "want": [want["objective"], want["values"]]})


def run_shared_constraint_pair(rec, rng, twin, method, variant):
    """Directed: one constraint OBJECT used by two LPs whose variable lists have the same length but place its variables at other
    positions (N: [a0, x[0], x[1]]  /  M: [x[0], x[1], y]); N is extracted / solved first."""
    import optyx

    x = ["vec", "x"]
    decls = [{"k": "vec", "name": "x", "n": 2, "lb": 0.0, "ub": 5.0}, {"k": "var", "name": "y", "lb": 0.0, "ub": 3.0}, {"k": "var", "name": "a0", "lb": 0.0, "ub": 2.0}]
    shared = [["rel", "<=", ["bin", "+", ["el", x, 0], ["bin", "*", ["raw", 2.0, "float"], ["el", x, 1]]], ["raw", 4.0, "float"], "direct"],
              ["rel", ">=", ["matmul", ["arr", [1.0, -1.0]], x], ["raw", -1.0, "float"], "direct"]][: 1 + variant % 2]
    objM = ["bin", "+", ["neg", ["matmul", ["arr", [3.0, 2.0]], x]], ["bin", "*", ["raw", 2.0, "float"], ["var", "y"]]]
    objN = ["bin", "-", ["sum", x], ["var", "a0"]]
    probM = {"decls": decls, "objective": objM, "sense": "min", "constraints": shared + [["rel", ">=", ["bin", "+", ["var", "y"], ["el", x, 0]], ["raw", 0.5, "float"], "direct"]]}
    rec.case({"shared-constraint-pair": variant, "m": method})
    try:
        want = twin.fresh_process_call({"op": "solve", "prob": probM, "method": method})
    except TwinError as ex:
        rec.inconclusive.append("twin: " + str(ex))
        return
    if "error" in want:
        rec.events["twin-error:" + want["error"][:30]] += 1
        return
    b = B.Builder(decls)
    cons_o = []
    for c_ in shared:
        r_ = b.rel(c_)
        cons_o.extend(r_ if isinstance(r_, list) else [r_])
    N = optyx.Problem().maximize(b.S(objN))
    for co in cons_o:
        N.subject_to(co)
    N.subject_to(b.rel(["rel", "<=", ["var", "a0"], ["raw", 1.5, "float"], "direct"]))
    M = optyx.Problem().minimize(b.S(objM))
    for co in cons_o:
        M.subject_to(co)
    M.subject_to(b.rel(probM["constraints"][-1]))
    try:
        with warnings.catch_warnings():
            warnings.simplefilter("ignore")
            N.solve(method=method)
            s_ = M.solve(method=method)
    except Exception as ex:
        rec.violation("solve-raises-after-prefix:" + type(ex).__name__, {"prob": probM, "error": repr(ex)[:200]})
        return
    rec.cmp(1, "M:shares-a-constraint-object-with-an-earlier-model")
    check_solve(rec, {"status": s_.status.value, "objective": s_.objective_value, "values": s_.values, "variables": [v.name for v in M.variables]}, want,
                {"objective": A.render(objM), "shared": [A.render(c) for c in shared], "method": method}, "M shares constraint objects with an earlier LP of equal size", probM)


def run(ctx, rec):
    rng = ctx.rng
    twin = Twin()
    for i, (m_, v_) in enumerate([(m__, v__) for m__ in ("auto", "highs-ds", "linprog", "SLSQP") for v__ in (0, 1)]):
        if ctx.mine(i + 3):
            run_shared_constraint_pair(rec, rng, twin, m_, v_)
    # systematic sweep: every node family of the grammar as M (bare / `f - c` / `c * f`), after a short prefix that ends with M's own
    # recipe under other data, bounds, parameter values and symmetric flags
    a_, b_ = ["var", "a"], ["var", "b"]
    lit = lambda v: ["raw", v, "float"]  # noqa: E731
    sq_ = lambda e: ["bin", "**", e, ["raw", 2, "int"]]  # noqa: E731
    fams = X.directed_families() + [
        # functions of literal constants (the literals 1.0 / 0.0 / 2.0 written as plain Python floats inside the model)
        ("literal:exp(1.0),atan(1.0)", ["bin", "+", sq_(["bin", "-", a_, ["fn", "exp", lit(1.0)]]), sq_(["bin", "-", b_, ["bin", "*", lit(4.0), ["fn", "atan", lit(1.0)]]])]),
        ("literal:cos(0.0),sinh(1.0)", ["bin", "+", ["bin", "*", a_, ["fn", "cos", lit(0.0)]], ["bin", "*", sq_(b_), ["fn", "sinh", lit(1.0)]]]),
        ("literal:log2(2.0),tanh(1.0)", ["bin", "-", ["bin", "*", ["fn", "log2", lit(2.0)], sq_(a_)], ["bin", "*", b_, ["fn", "tanh", lit(1.0)]]]),
        ("literal:negated", ["bin", "+", ["bin", "*", a_, ["neg", ["const", 1.0, "float"]]], ["bin", "*", ["fn", "exp", ["neg", lit(1.0)]], sq_(b_)]]),
    ]
    for fi, (fam, node) in enumerate(fams):
        for wrap in range(3):
            if not ctx.mine(fi):
                continue
            if rec.out_of_time():
                break
            nd = node if wrap == 0 else (["bin", "-", node, ["raw", 0.5, "float"]] if wrap == 1 else ["bin", "*", ["raw", 2.0, "float"], node])
            if ctx.tier == "quick":
                # quick: one order per variable-list relation (a superset relation always first: the relation with most room for
                # position-dependent state); thorough: both orders on a random relation
                rels = [["superset", "superset_permuted"][(fi + wrap + ctx.seed) % 2], ["exact", "permuted"][(fi + wrap + ctx.seed) % 2]]
                for order, vrel in zip(("prefix-then-M", "M-prefix-M"), rels):
                    try:
                        case = X.finish_case(rng, X.D0, nd, vrel, "directed:" + fam, n_points=1)
                    except (R.ShapeError, R.OutOfModel):
                        case = None
                    if case is not None and len(case["V"]) <= 12:
                        run_expr_pair(rec, rng, twin, 6, order, False, directed=case)
                continue
            try:
                case = X.finish_case(rng, X.D0, nd, X.VRELS[(fi // 16 + wrap + ctx.seed) % 4] if ctx.tier == "quick" else rng.choice(X.VRELS), "directed:" + fam, n_points=1)
            except (R.ShapeError, R.OutOfModel):
                case = None
            if case is None or len(case["V"]) > 12:
                continue
            for order in ("prefix-then-M", "M-prefix-M"):
                run_expr_pair(rec, rng, twin, 6, order, False, directed=case)
    # directed problem pairs: every family of the convex generator / every layout of the LP generator as M, solved by "auto" after a
    # short prefix that ends with M's own declarations under in-place bound edits, M's skeleton with a lower degree, and M's recipe
    # with other data
    for di, (kind_, fam_) in enumerate([("nlp", f_) for f_ in NG.FAMILIES] + [("lp", l_) for l_ in L.LAYOUTS]):
        for oi, order in enumerate(("prefix-then-M", "M-prefix-M")):
            if ctx.mine(2 * di + oi + 5) and not rec.out_of_time():
                # prefix-then-M with a prefix of ONE model: the lower-degree skeleton is then the first model of M's shape the process sees
                run_problem_pair(rec, rng, twin, 1 if oi == 0 else 2 + di % 3, order, kind_, family=fam_)
    n = 0
    k_i = ctx.shard
    while n < N_PAIRS[ctx.tier] and not rec.out_of_time():
        n += 1
        k_i += 1
        ks = KS[ctx.tier]
        k = ks[k_i % len(ks)]
        if k >= 5000 and n % 4:
            k = 1100
        order = "prefix-then-M" if n % 2 else "M-prefix-M"
        which = n % 4
        if which == 0:
            run_expr_pair(rec, rng, twin, k, order, False)
        elif which == 1:
            run_expr_pair(rec, rng, twin, k, order, True)
        elif which == 2:
            run_problem_pair(rec, rng, twin, k, order, "lp")
        else:
            run_problem_pair(rec, rng, twin, k, order, "nlp")
        if rec.inconclusive:
            break


def replay(w, rec):
    rec.inconclusive.append("C14 pairs depend on the process history: replay by seed (VERIF_SEED=<seed> ./check C14)")


# workloads added after the seventh round of seeded changes (DESIGN section 9): part of the rule of this check
_RULE_ADDENDUM = "every prefix ends with M's declarations under in-place bound edits and M's skeleton at a lower degree; directed problem pairs per generator family / layout"
_info_base = info


def info(tier):  # noqa: F811
    d = _info_base(tier)
    d["rule"] = d["rule"] + "; " + _RULE_ADDENDUM
    return d
