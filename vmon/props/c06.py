"""C06 - a solution reported OPTIMAL is feasible.

Workload A (real solvers): convex NLPs with manufactured optimum, the same
made infeasible by construction, LPs (feasible / Farkas-infeasible), problems
feasible only on a boundary, x every method of the solve() docstring plus
COBYLA / Powell / TNC / CG, x hostile options (tiny maxiter, far x0, loose and
tight tol).
Workload B (stubbed solver, finite enumeration): scripted OptimizeResults
{success} x {termination message catalogue} x {x feasible / violating a <=, a
>=, an ==, a lower or an upper bound} x {min, max} x {tol given or not} x method
through the `minimize` seam, and linprog statuses 0-4 through the linprog seam.
Oracle: reference evaluation of every constraint recipe and every declared
bound at the returned values; tolerance 1e-5*max(1,|lhs|+|rhs|)
(max(1e-5, 10*tol) when the caller passes tol).
"""
from __future__ import annotations

import warnings

import numpy as np
from scipy.optimize import OptimizeResult

from .. import solvecheck as SC
from ..monitors.seams import Seams
from ..recipes import ast as A
from ..recipes import build as B
from ..recipes import lpgen as L
from ..recipes import nlpgen as NG
from ..recipes import ref as R

LEVEL = "exploration"
BUDGET_S = {"quick": 420, "thorough": 1500}
N_RANDOM = {"quick": 32, "thorough": 900}
NLP_METHODS = ["auto", "SLSQP", "trust-constr", "L-BFGS-B", "BFGS", "Nelder-Mead", "COBYLA", "Powell", "TNC", "CG"]
LP_METHODS = ["auto", "linprog", "highs", "highs-ds", "highs-ipm", "SLSQP", "trust-constr"]


def message_catalogue():
    msgs = {
        "Optimization terminated successfully",
        "Optimization terminated successfully.",
        "Iteration limit reached",
        "Iteration limit exceeded",
        "Maximum number of iterations has been exceeded.",
        "Maximum number of function evaluations has been exceeded.",
        "The maximum number of function evaluations is exceeded.",
        "Inequality constraints incompatible",
        "More equality constraints than independent variables",
        "More than 3*n iterations in LSQ subproblem",
        "Singular matrix C in LSQ subproblem",
        "Singular matrix E in LSQ subproblem",
        "Rank-deficient equality constraint subproblem HFTI",
        "Positive directional derivative for linesearch",
        "Desired error not necessarily achieved due to precision loss.",
        "NaN result encountered.",
        "Did not converge to a solution satisfying the constraints. See `maxcv` for magnitude of violation.",
        "Maximum number of function evaluations has been exceeded.",
        "Rounding errors are becoming damaging in COBYLA subroutine.",
        "CONVERGENCE: REL_REDUCTION_OF_F_<=_FACTR*EPSMCH",
        "CONVERGENCE: NORM OF PROJECTED GRADIENT <= PGTOL",
        "ABNORMAL_TERMINATION_IN_LNSRCH",
        "ABNORMAL: ",
        "STOP: TOTAL NO. OF ITERATIONS REACHED LIMIT",
        "STOP: TOTAL NO. of f AND g EVALUATIONS EXCEEDS LIMIT",
        "`gtol` termination condition is satisfied.",
        "`xtol` termination condition is satisfied.",
        "`callback` function requested termination.",
        "The maximum number of function evaluations is exceeded.",
        "Linear search failed",
        "All lower bounds are equal to the upper bounds",
        "Unable to progress",
        "User requested end of minimization",
        "Infeasible (lower bound > upper bound)",
        "The problem is infeasible.",
        "Constraints are infeasible: positive directional derivative for linesearch",
        "Maximum iterations reached: positive directional derivative",
        "",
    }
    try:
        from scipy.optimize import _optimize

        msgs.update(str(v) for v in _optimize._status_message.values())
    except Exception:
        pass
    try:
        from scipy.optimize._trustregion_constr.minimize_trustregion_constr import TERMINATION_MESSAGES

        msgs.update(str(v) for v in TERMINATION_MESSAGES.values())
    except Exception:
        pass
    return sorted(msgs)


def info(tier):
    return {
        "level": LEVEL,
        "exhaustive": False,
        "rule": "A: generated feasible / infeasible / boundary problems x 10 NLP or 7 LP methods x option sets, real solvers; "
        "B: enumerated stub matrix (scripted solver results: success x %d termination messages x 6 kinds of returned "
        "point x min/max x tol x 5 methods; linprog statuses 0-4); every OPTIMAL solution's constraints and bounds are "
        "re-evaluated by the reference interpreter; distinct = canonical (problem, method, options | stub script) hashes"
        % len(message_catalogue()),
        "required_cells": ["A:feasible", "A:infeasible", "A:boundary", "A:lp-feasible", "A:lp-infeasible", "A:deep-constraint", "A:edit-then-resolve", "A:mixed-degree-vector", "A:view-order-constraint", "A:parametric-linear-after-set", "A:symmetric-matrix-reduction", "A:big-single-vector-lp", "A:variable-free-constraint", "A:bounds-exactly-zero", "A:lp-spelling-sweep"]
        + [f"A:method:{m}" for m in sorted(set(NLP_METHODS + LP_METHODS))]
        + [f"B:point:{p}" for p in ("feasible", "violates-le", "violates-ge", "violates-eq", "violates-lb", "violates-ub")]
        + ["B:success:True", "B:success:False", "B:linprog"],
        "assumptions": [
            "tolerance 1e-5*max(1,|lhs|+|rhs|) is deliberately looser than optyx's 1e-6 and HiGHS' 1e-7; with a caller tol: max(1e-5,10*tol)",
            "a stubbed solver may claim success with an infeasible point (SLSQP does) - the status optyx reports is what is judged",
            "linprog stub scripts keep status 0 consistent with a feasible point (HiGHS is trusted for LP feasibility)",
        ],
    }


def judge(rec, prob, sol, cell, label, tol_user=None, extra=None):
    """OPTIMAL => feasible."""
    rec.cmp(1, cell)
    rec.paths[f"{label}:{sol.status.value}"] += 1
    rec.sample({"cell": cell, "objective": A.render(prob["objective"])[:200], "constraints": [A.render(c)[:120] for c in prob.get("constraints", [])][:4],
                "status": sol.status.value, **({k: v for k, v in (extra or {}).items() if k in ("method", "options", "script")})}, cap=4)
    if sol.status.value != "optimal":
        return
    if not sol.values:
        rec.violation("optimal-without-values", {"prob": prob, "extra": extra})
        return
    tf = 1e-5 if tol_user is None else max(1e-5, 10 * tol_user)
    ok, worst = SC.feasibility(prob, sol.values, tf)
    rec.disc("violation-at-optimal", max(0.0, worst.get("violation", 0.0)) if ok else 0.0)
    if not ok:
        kind = worst["kind"]
        show = {"decls": A.render_decls(prob["decls"]), "objective": A.render(prob["objective"]), "sense": prob["sense"],
                "constraints": [A.render(c) for c in prob.get("constraints", [])], **(extra or {})}
        mech = f"optimal-but-{kind}-violated:{label}"
        rec.violation(mech, {"prob": prob, "worst": worst, "values": sol.values, "message": sol.message[:120], "show": show, "extra": extra})


# ---------------------------------------------------------------------------
# workload A
# ---------------------------------------------------------------------------


def boundary_problem(rng):
    n = rng.randint(2, 3)
    decls = [{"k": "vec", "name": "x", "n": n, "lb": -2.0, "ub": 4.0}]
    x = ["vec", "x"]
    t = NG.q(rng, 0, 2)
    cons = [["rel", ">=", ["el", x, 0], ["raw", t, "float"], "direct"], ["rel", "<=", ["el", x, 0], ["raw", t, "float"], "direct"]]
    if rng.random() < 0.5:
        cons.append(["rel", "==", ["sum", x], ["raw", t + 1.0, "float"], "direct"])
    obj = ["dot", ["vbin", "-", x, ["raw", 1.5, "float"]], ["vbin", "-", x, ["raw", 1.5, "float"]]]
    return {"decls": decls, "objective": obj, "sense": "min", "constraints": cons}


def run_real(rec, rng, prob, cell, method, opts):
    extra = {"method": method, "options": opts}
    rec.case({"p": prob["objective"], "c": prob.get("constraints"), "d": prob["decls"], "m": method, "o": opts})
    try:
        b = B.Builder(prob["decls"])
        P = b.problem(prob)
    except Exception as ex:
        rec.events["unsupported-build:" + type(ex).__name__] += 1
        return
    kw = dict(opts)
    if "x0" in kw:
        names = SC.mentioned(prob)
        kw["x0"] = np.full(len(names), kw["x0"], dtype=float)
    try:
        with warnings.catch_warnings():
            warnings.simplefilter("ignore")
            sol = P.solve(method=method, **kw)
    except Exception as ex:
        rec.events[f"solve-raises:{type(ex).__name__}"] += 1
        rec.cmp(1, cell)
        return
    rec.cmp(1, f"A:method:{method}")
    judge(rec, prob, sol, cell, f"A:{method}", tol_user=opts.get("tol"), extra=extra)


def deep_constraint_problem(rng):
    """a constraint whose left side is accumulated term by term beyond the depth at which optyx switches algorithms"""
    n = rng.choice([410, 450, 520])
    decls = [{"k": "vec", "name": "x", "n": 3, "lb": -2.0, "ub": 3.0}]
    x = ["vec", "x"]
    acc = ["bin", "*", ["raw", 1.0, "float"], ["el", x, 0]]
    for i in range(1, n):
        t = ["bin", "*", ["raw", 0.5 + 0.01 * (i % 7), "float"], ["el", x, i % 3]]
        acc = ["bin", "+", acc, t] if i % 5 else ["bin", "-", acc, ["neg", t]]
    s = rng.choice(["<=", ">="])
    rhs = 40.0 if s == "<=" else 250.0  # cuts off the unconstrained optimum either way
    tgt = ["arr", [2.5, 2.0, -1.5] if s == "<=" else [-1.0, 0.5, 0.0]]
    d = ["vbin", "-", x, tgt]
    return {"decls": decls, "objective": ["dot", d, d], "sense": "min", "constraints": [["rel", s, acc, ["raw", rhs, "float"], "direct"]]}


def view_order_problem(rng):
    """an NLP whose binding constraint is written over a *view* of the vector that holds every problem variable in another
    order (w @ x[::-1], x[::-1].dot(w), rows of a transposed matrix): element k of the view is not variable k"""
    n = rng.choice([3, 4, 5])
    x = ["vec", "x"]
    decls = [{"k": "vec", "name": "x", "n": n, "lb": -4.0, "ub": 6.0}]
    w = [round(0.5 + 0.75 * i, 2) for i in range(n)]  # strictly increasing: not a palindrome
    view = rng.choice([["slice", x, None, None, -1], ["slice", x, n - 1, None, -1]])
    form = rng.choice(["lc", "lc-rev", "dot-list", "sum-of-products"])
    if form == "lc":
        lhs = ["matmul", ["arr", w], view]
    elif form == "lc-rev":
        lhs = ["matmul", view, ["arr", w]]
    elif form == "dot-list":
        lhs = ["dot", view, ["list", w]]
    else:
        lhs = None
        for i in range(n):
            t = ["bin", "*", ["raw", w[i], "float"], ["el", view, i]]
            lhs = t if lhs is None else ["bin", "+", lhs, t]
    # min |x - t|^2 with t violating the constraint: the optimum is the projection onto w . view(x) <= rhs
    tgt = [2.0 + 0.5 * i for i in range(n)]
    d = ["vbin", "-", x, ["arr", tgt]]
    s = rng.choice(["<=", ">="])
    rhs = 1.0 if s == "<=" else 60.0
    obj = ["bin", "+", ["dot", d, d], ["fn", "exp", ["bin", "*", ["raw", 0.1, "float"], ["el", x, 0]]]]
    return {"decls": decls, "objective": obj, "sense": "min", "constraints": [["rel", s, lhs, ["raw", rhs, "float"], "direct"]]}


def symmetric_reduction_problem(rng):
    """an NLP over a symmetric MatrixVariable whose binding constraint is a reduction of the whole matrix (sum, Frobenius norm, sum of
    a block straddling the diagonal): every off-diagonal variable occupies two positions"""
    S = ["mat", "S"]
    decls = [{"k": "mat", "name": "S", "r": 3, "c": 3, "sym": True, "lb": -3.0, "ub": 5.0}]
    tgt = {(0, 0): 1.5, (0, 1): 1.0, (0, 2): 0.75, (1, 1): 2.0, (1, 2): 1.25, (2, 2): 0.5}
    obj = None
    for (i, j), tv in tgt.items():
        t = ["bin", "**", ["bin", "-", ["mel", S, i, j], ["raw", tv, "float"]], ["raw", 2, "int"]]
        obj = t if obj is None else ["bin", "+", obj, t]
    kind = rng.choice(["sum", "sum.T", "fro", "block-sum", "sum-ge"])
    if kind == "sum":
        con = ["rel", "<=", ["msum", S], ["raw", 6.0, "float"], "direct"]       # target sum = 4 + 2*3 = 10
    elif kind == "sum.T":
        con = ["rel", "<=", ["msum", ["T", S]], ["raw", 5.0, "float"], "direct"]
    elif kind == "fro":
        con = ["rel", "<=", ["fro", S], ["raw", 2.0, "float"], "direct"]         # target norm ~ 3.6
    elif kind == "block-sum":
        con = ["rel", "<=", ["msum", ["sub", S, 0, 2, 0, 3]], ["raw", 3.0, "float"], "direct"]
    else:
        con = ["rel", ">=", ["msum", S], ["raw", 16.0, "float"], "direct"]
    return {"decls": decls, "objective": obj, "sense": "min", "constraints": [con]}


def big_vector_lp(rng):
    """a packing LP written entirely over ONE whole VectorVariable with more than ten elements (x[10] sorts after x[9], not after x[1])"""
    n = rng.choice([11, 12, 14])
    x = ["vec", "x"]
    decls = [{"k": "vec", "name": "x", "n": n, "lb": 0.0, "ub": 4.0}]
    w = [float(1 + (3 * i) % 7) for i in range(n)]
    v = [float(2 + (5 * i + 1) % 9) for i in range(n)]
    decls[0]["lb"] = rng.choice([0.0, -1.0])
    # the data as the user has them: counts and weights in unsigned / small integer arrays
    ui = rng.choice(["uint8", "uint16", "uint32", None])
    wa = ["arr", [int(c) for c in w], ui] if ui else ["arr", w]
    cons = [["rel", "<=", ["matmul", wa, x], ["raw", 30.0, "float"], "direct"]]
    cover = [int(1 + i % 3) for i in range(n)]
    cons.append(["rel", ">=", ["matmul", ["arr", cover, rng.choice(["uint8", "uint16", "int8"])], x], ["raw", 2.0, "float"], "direct"])
    if rng.random() < 0.5:
        cons.append(["rel", ">=", ["mv", [[int((i + r_) % 4) for i in range(n)] for r_ in range(2)], x, rng.choice(["uint8", "uint16"])], ["arr", [1.0, 2.0]], "direct"])
    if rng.random() < 0.5:
        cons.append(["rel", "<=", ["sum", x], ["raw", 9.0, "float"], "direct"])
    return {"decls": decls, "objective": ["matmul", ["arr", v], x], "sense": "max", "constraints": cons}


def variable_free_constraint_problem(rng):
    """a feasible-looking model with one violated constraint that mentions no decision variable (a relation between two Parameters, a
    constant row): the problem is infeasible whatever the solver does with it"""
    x = ["vec", "x"]
    decls = [{"k": "vec", "name": "x", "n": 2, "lb": -2.0, "ub": 3.0}, {"k": "par", "name": "p", "val": 2.0}, {"k": "par", "name": "q", "val": 3.5}]
    d = ["vbin", "-", x, ["arr", [1.0, 0.5]]]
    obj = ["bin", "+", ["dot", d, d], ["bin", "*", ["par", "p"], ["el", x, 0]]]
    kind = rng.choice(["par<=par", "const>=1", "par-expr>=par", "const==const"])
    if kind == "par<=par":
        bad = ["rel", "<=", ["par", "q"], ["par", "p"], "direct"]                       # demand 3.5 <= capacity 2.0
    elif kind == "const>=1":
        bad = ["rel", ">=", ["const", 0.0, "float"], ["raw", 1.0, "float"], "direct"]
    elif kind == "par-expr>=par":
        bad = ["rel", ">=", ["bin", "*", ["raw", 2.0, "float"], ["par", "p"]], ["bin", "+", ["par", "q"], ["raw", 1.0, "float"]], "direct"]   # 4 >= 4.5
    else:
        bad = ["rel", "==", ["bin", "+", ["const", 1.0, "float"], ["const", 1.0, "float"]], ["raw", 3.0, "float"], "direct"]
    cons = [["rel", "<=", ["sum", x], ["raw", 2.0, "float"], "direct"], bad]
    if rng.random() < 0.5:
        cons.reverse()
    return {"decls": decls, "objective": obj, "sense": "min", "constraints": cons}


def zero_bound_problem(rng):
    """bounds that are exactly 0 (non-positive / non-negative variables; the fixed-zero off-diagonal entries of diag_matrix) with an
    objective that pushes the variables across them"""
    x = ["vec", "x"]
    kind = rng.choice(["ub=0", "lb=0", "both", "diag_matrix"])
    if kind == "diag_matrix":
        decls = [{"k": "vec", "name": "y", "n": 2, "lb": -1.0, "ub": 4.0}]
        Dm = ["dmat", ["vec", "y"]]
        tgt = [[1.0, 2.0], [-1.5, 0.5]]
        obj = None
        for i in range(2):
            for j in range(2):
                t = ["bin", "**", ["bin", "-", ["mel", Dm, i, j], ["raw", tgt[i][j], "float"]], ["raw", 2, "int"]]
                obj = t if obj is None else ["bin", "+", obj, t]
        return {"decls": decls, "objective": obj, "sense": "min", "constraints": [["rel", ">=", ["trace", Dm], ["raw", 0.5, "float"], "direct"]]}
    lb, ub = {"ub=0": (-3.0, 0.0), "lb=0": (0.0, 3.0), "both": (0.0, 0.0)}[kind]
    decls = [{"k": "vec", "name": "x", "n": 3, "lb": lb, "ub": ub}, {"k": "var", "name": "s", "lb": -2.0, "ub": 2.0}]
    tgt = [1.0, 0.75, 2.0] if kind != "lb=0" else [-1.0, -0.5, -2.0]
    d = ["vbin", "-", x, ["arr", tgt]]
    obj = ["bin", "+", ["dot", d, d], ["bin", "**", ["bin", "-", ["var", "s"], ["raw", 0.5, "float"]], ["raw", 2, "int"]]]
    cons = [["rel", "<=", ["bin", "+", ["sum", x], ["var", "s"]], ["raw", 4.0, "float"], "direct"]] if rng.random() < 0.6 else []
    return {"decls": decls, "objective": obj, "sense": "min", "constraints": cons}


def mixed_degree_problem(rng):
    """an otherwise linear model with one vector operand whose elements have different degrees (the non-linear one not last)"""
    n = 3
    decls = [{"k": "vec", "name": "x", "n": n, "lb": 0.0, "ub": 20.0}]
    x = ["vec", "x"]
    k = rng.randrange(n - 1)
    elems = [["bin", "*", ["raw", 2.0, "float"], ["bin", "**", ["el", x, i], ["raw", 2, "int"]]] if i == k else ["el", x, i] for i in range(n)]
    vec = ["velems", elems]
    w = ["arr", [1.0, 1.0, 1.0]]
    form = rng.choice(["lc", "lc-rev", "dot"])
    lhs = ["matmul", w, vec] if form == "lc" else (["matmul", vec, w] if form == "lc-rev" else ["dot", vec, ["velems", [["const", 1.0, "float"]] * n]])
    cons = [["rel", "<=", lhs, ["raw", 10.0, "float"], "direct"]]
    obj = ["matmul", ["arr", [3.0, 1.0, 2.0]], x]
    return {"decls": decls, "objective": obj, "sense": "max", "constraints": cons}


def run_edit_then_resolve(rec, rng, prob, later, cell, method):
    """solve; then add `later` (a list of constraints) with one subject_to([...]) call; solve again; judge against all."""
    rec.case({"p": prob["objective"], "c": prob.get("constraints"), "l": later, "d": prob["decls"], "m": method})
    full = dict(prob, constraints=list(prob.get("constraints", [])) + list(later))
    try:
        b = B.Builder(prob["decls"])
        P = b.problem(prob)
        kw = {"maxiter": 300} if method == "trust-constr" else {}
        with warnings.catch_warnings():
            warnings.simplefilter("ignore")
            P.solve(method=method, **kw)
            lst = []
            for r in later:
                c = b.rel(r)
                lst.extend(c if isinstance(c, list) else [c])
            P.subject_to(lst)
            sol = P.solve(method=method, **kw)
    except Exception as ex:
        rec.events[f"edit-history-raises:{type(ex).__name__}"] += 1
        return
    rec.cmp(1, f"A:method:{method}")
    judge(rec, full, sol, cell, f"A:{method}:after-adding-constraints", extra={"method": method, "history": "solve; subject_to([...]); solve"})


def run_parametric_resolve(rec, rng, method):
    """A model linear in its variables with Parameters as coefficients and right-hand sides: solve, Parameter.set(), solve the same
    problem again; every OPTIMAL is judged against the constraints at the parameter values current at that solve."""
    import copy

    n = rng.choice([2, 3])
    x = ["vec", "x"]
    decls = [{"k": "vec", "name": "x", "n": n, "lb": 0.0, "ub": 10.0}, {"k": "par", "name": "p", "val": 1.0}, {"k": "par", "name": "q", "val": 2.0}]
    w = [1.0 + 0.5 * i for i in range(n)]
    lin = rng.random() < 0.7
    obj = ["matmul", ["arr", w], x] if lin else ["bin", "+", ["matmul", ["arr", w], x], ["bin", "*", ["raw", 0.05, "float"], ["dot", x, x]]]
    cons = [["rel", ">=", ["bin", "+", ["bin", "*", ["par", "p"], ["el", x, 0]], ["el", x, 1]], ["par", "q"], "direct"],
            ["rel", "<=", ["sum", x], ["raw", 9.0, "float"], "direct"]]
    if rng.random() < 0.5:
        cons.append(["rel", "<=", ["bin", "-", ["el", x, 0], ["bin", "*", ["par", "q"], ["el", x, n - 1]]], ["raw", 1.0, "float"], "direct"])
    prob = {"decls": decls, "objective": obj, "sense": "min", "constraints": cons}
    rec.case({"parametric": prob, "m": method})
    updates = [{"p": 0.5, "q": 6.0}, {"p": 2.0, "q": 15.0}, {"p": 0.25, "q": 40.0}, {"p": 1.0, "q": 1.0}]
    rng.shuffle(updates)
    try:
        b = B.Builder(decls)
        P = b.problem(prob)
    except Exception as ex:
        rec.events["unsupported-build:" + type(ex).__name__] += 1
        return
    cur = {"p": 1.0, "q": 2.0}
    for step, upd in enumerate([None] + updates[:3]):
        if upd is not None:
            for k_, v_ in upd.items():
                b.params[k_].set(v_)
            cur = dict(upd)
        now = copy.deepcopy(prob)
        for d in now["decls"]:
            if d["k"] == "par":
                d["val"] = cur[d["name"]]
        try:
            with warnings.catch_warnings():
                warnings.simplefilter("ignore")
                sol = P.solve(method=method, **({"maxiter": 300} if method == "trust-constr" else {}))
        except Exception as ex:
            rec.events[f"parametric-solve-raises:{type(ex).__name__}"] += 1
            return
        rec.cmp(1, f"A:method:{method}")
        judge(rec, now, sol, "A:parametric-linear-after-set", f"A:{method}:parametric-solve-{'first' if step == 0 else 'after-set'}",
              extra={"method": method, "history": f"solve #{step + 1}, parameters {cur}"})


def option_sets(rng, method, lp):
    if lp and method in ("linprog", "highs", "highs-ds", "highs-ipm", "auto"):
        return [{}]
    out = [{}]
    r = rng.random()
    if r < 0.35:
        out.append({"maxiter": rng.choice([1, 3])})
    elif r < 0.6:
        out.append({"x0": rng.choice([50.0, -30.0, 7.5])})
    elif r < 0.8:
        out.append({"tol": rng.choice([1e-2, 1e-10])})
    return out


def workload_a(ctx, rec):
    rng = ctx.rng
    # directed sweep on the LP route (no post-solve check there): every vector / block spelling of the LP writer x sense, the optimum
    # pushed against the written constraint
    i = 0
    for form in L.VECTOR_FORMS + L.BLOCK_FORMS:
        for s_ in ("<=", ">=", "=="):
            i += 1
            if ctx.mine(i):
                prob = L.form_lp(rng, form, s_) if form in L.VECTOR_FORMS else L.block_lp(rng, form, s_)
                for m in ("auto", "highs-ds", "SLSQP"):
                    run_real(rec, rng, prob, "A:lp-spelling-sweep", m, {})
    n = 0
    k = ctx.shard
    while n < N_RANDOM[ctx.tier] and not rec.out_of_time():
        n += 1
        k += 1
        which = k % 9
        lp = False
        if which == 6 and n % 3 == 1:
            prob = zero_bound_problem(rng)
            for m in ("auto", "SLSQP", "trust-constr", "L-BFGS-B", "COBYLA", "BFGS"):
                run_real(rec, rng, prob, "A:bounds-exactly-zero", m, {"maxiter": 300} if m == "trust-constr" else {})
            continue
        if which == 7 and n % 2:
            prob = big_vector_lp(rng)
            for m in ("auto", "linprog", "highs-ds", "highs-ipm"):
                run_real(rec, rng, prob, "A:big-single-vector-lp", m, {})
            continue
        if which == 5 and n % 2:
            prob = variable_free_constraint_problem(rng)
            for m in ("auto", "SLSQP", "trust-constr", "COBYLA"):
                run_real(rec, rng, prob, "A:variable-free-constraint", m, {"maxiter": 300} if m == "trust-constr" else {})
            continue
        if which == 8 and n % 3 == 0:
            prob = symmetric_reduction_problem(rng)
            for m in ("auto", "SLSQP", "trust-constr"):
                run_real(rec, rng, prob, "A:symmetric-matrix-reduction", m, {"maxiter": 300} if m == "trust-constr" else {})
            continue
        if which == 8 and n % 2:
            for m in ("auto", "SLSQP", "trust-constr", "highs-ds"):
                run_parametric_resolve(rec, rng, m)
            continue
        if which == 8:
            prob = view_order_problem(rng)
            for m in ("auto", "SLSQP", "trust-constr", "COBYLA"):
                run_real(rec, rng, prob, "A:view-order-constraint", m, {"maxiter": 300} if m == "trust-constr" else {})
            continue
        if which == 7:
            prob = mixed_degree_problem(rng)
            for m in ("auto", "linprog", "highs-ds", "SLSQP"):
                run_real(rec, rng, prob, "A:mixed-degree-vector", m, {})
            continue
        if which == 5:
            prob = deep_constraint_problem(rng)
            for m in ("auto", "SLSQP", "trust-constr"):
                run_real(rec, rng, prob, "A:deep-constraint", m, {"maxiter": 300} if m == "trust-constr" else {})
            continue
        if which == 6:
            if n % 2:
                base = NG.draw_convex(rng, bounds=rng.random() < 0.5)
                inf = NG.infeasible_variant(rng, base)
                later = inf["constraints"][len(base["constraints"]):]
                for m in ("auto", "SLSQP", "trust-constr"):
                    run_edit_then_resolve(rec, rng, {kk: base[kk] for kk in ("decls", "objective", "sense", "constraints")}, later, "A:edit-then-resolve", m)
            else:
                lpm = L.draw_lp(rng, kind="infeasible")
                cut = max(0, len(lpm["constraints"]) - 2)
                base = dict(lpm, constraints=lpm["constraints"][:cut])
                for m in ("auto", "highs-ds", "SLSQP"):
                    run_edit_then_resolve(rec, rng, {kk: base[kk] for kk in ("decls", "objective", "sense", "constraints")}, lpm["constraints"][cut:], "A:edit-then-resolve", m)
            continue
        if which == 0:
            prob, cell = NG.draw_convex(rng, bounds=rng.random() < 0.7), "A:feasible"
        elif which == 1:
            prob, cell = NG.infeasible_variant(rng, NG.draw_convex(rng, bounds=rng.random() < 0.5)), "A:infeasible"
        elif which == 2:
            prob, cell = boundary_problem(rng), "A:boundary"
        elif which == 3:
            prob, cell, lp = L.draw_lp(rng, kind="optimal"), "A:lp-feasible", True
        else:
            prob, cell, lp = L.draw_lp(rng, kind="infeasible"), "A:lp-infeasible", True
        methods = LP_METHODS if lp else NLP_METHODS
        # every method on every problem in thorough; a rotating subset of 4 in quick
        if ctx.tier == "quick":
            off = rng.randrange(len(methods)); ms = [methods[(off + j * 3) % len(methods)] for j in range(4)]
        else:
            ms = methods
        for m in dict.fromkeys(ms):
            for opts in option_sets(rng, m, lp):
                if m == "trust-constr" and "maxiter" not in opts:
                    opts = {**opts, "maxiter": 300}
                run_real(rec, rng, prob, cell, m, opts)


# ---------------------------------------------------------------------------
# workload B: stubbed solver
# ---------------------------------------------------------------------------

STUB_DECLS = [{"k": "var", "name": "v", "lb": -3.0, "ub": 3.0}, {"k": "var", "name": "w", "lb": 0.0, "ub": 4.0}]
_v, _w = ["var", "v"], ["var", "w"]
STUB_OBJ = ["bin", "+", ["bin", "**", ["bin", "-", _v, ["raw", 2.0, "float"]], ["raw", 2, "int"]], ["bin", "**", _w, ["raw", 2, "int"]]]
STUB_CONS = {
    "le": ["rel", "<=", ["bin", "+", _v, _w], ["raw", 1.0, "float"], "direct"],
    "ge": ["rel", ">=", ["bin", "-", _v, _w], ["raw", -1.0, "float"], "direct"],
    "eq": ["rel", "==", ["bin", "+", _v, ["bin", "*", ["raw", 2.0, "float"], _w]], ["raw", 1.0, "float"], "direct"],
    "none": None,
}
# returned points (v, w): feasible for every constraint kind / violating exactly the named item
STUB_POINTS = {
    "feasible": {"le": (0.5, 0.25), "ge": (0.5, 0.25), "eq": (0.5, 0.25), "none": (0.5, 0.25)},
    "violates-le": {"le": (2.0, 1.0)},
    "violates-ge": {"ge": (-2.5, 2.0)},
    "violates-eq": {"eq": (1.0, 1.0)},
    "violates-lb": {"le": (-3.5, 0.5), "ge": (0.5, -0.5), "eq": (2.0, -0.5), "none": (-4.0, 1.0)},
    "violates-ub": {"le": (-3.0, 4.5), "ge": (3.5, 0.5), "eq": (3.5, -1.25), "none": (0.0, 5.0)},
}
STUB_METHODS = ["SLSQP", "trust-constr", "L-BFGS-B", "BFGS", "COBYLA"]


def workload_b(ctx, rec, seams):
    msgs = message_catalogue()
    i = 0
    for ck, crel in STUB_CONS.items():
        for pname, table in STUB_POINTS.items():
            if ck not in table:
                continue
            point = table[ck]
            for sense in ("min", "max"):
                for tol in (None, 1e-3):
                    for method in STUB_METHODS:
                        i += 1
                        if not ctx.mine(i):
                            continue
                        obj = STUB_OBJ if sense == "min" else ["neg", STUB_OBJ]
                        prob = {"decls": STUB_DECLS, "objective": obj, "sense": sense, "constraints": [crel] if crel else []}
                        # self-check of the table against the reference
                        ok, _ = SC.feasibility(prob, {"v": point[0], "w": point[1]}, 1e-5)
                        if ok != (pname == "feasible"):
                            rec.inconclusive.append(f"stub table self-check failed for {ck}/{pname}")
                            continue
                        for success in (True, False):
                            for msg in (msgs if not success else ["Optimization terminated successfully", "Positive directional derivative for linesearch", "`gtol` termination condition is satisfied."]):
                                script = {"success": success, "message": msg, "x": list(point), "point": pname, "constraint": ck,
                                          "sense": sense, "tol": tol, "method": method}
                                rec.case(script)
                                b = B.Builder(STUB_DECLS)
                                P = b.problem(prob)
                                fval = (point[0] - 2.0) ** 2 + point[1] ** 2
                                seams.reset()
                                seams.min_stub = lambda call, s=script, f=fval: OptimizeResult(
                                    x=np.array(s["x"], dtype=float), success=s["success"], status=0 if s["success"] else 4,
                                    message=s["message"], fun=f, nit=3, nfev=5)
                                try:
                                    with warnings.catch_warnings():
                                        warnings.simplefilter("ignore")
                                        kw = {} if tol is None else {"tol": tol}
                                        sol = P.solve(method=method, **kw)
                                except Exception as ex:
                                    rec.violation("stubbed-solve-raises:" + type(ex).__name__, {"script": script, "error": repr(ex)[:200]})
                                    continue
                                finally:
                                    seams.min_stub = None
                                rec.cmp(1, f"B:success:{success}")
                                rec.paths[f"B:map:success={success}:{msg[:40]!r}->{sol.status.value}"] += 1
                                judge(rec, prob, sol, f"B:point:{pname}", "B:stub", tol_user=tol, extra={"script": script})
    # linprog statuses
    lpdecls = [{"k": "vec", "name": "x", "n": 2, "lb": 0.0, "ub": 5.0}]
    x = ["vec", "x"]
    lpprob0 = {"decls": lpdecls, "objective": ["matmul", ["arr", [1.0, 2.0]], x], "sense": "min",
               "constraints": [["rel", ">=", ["sum", x], ["raw", 1.0, "float"], "direct"], ["rel", "<=", ["el", x, 0], ["raw", 3.0, "float"], "direct"]]}
    for status in range(5):
        for xname, xv in (("feasible", [1.0, 0.5]), ("infeasible", [0.2, 0.1]), ("out-of-bounds", [-1.0, 6.0]), ("none", None)):
            for sense in ("min", "max"):
                for method in ("auto", "highs-ds"):
                    i += 1
                    if not ctx.mine(i):
                        continue
                    if status == 0 and xname != "feasible":
                        continue  # HiGHS is trusted: success comes with a feasible point
                    prob = dict(lpprob0, sense=sense)
                    script = {"linprog_status": status, "x": xv, "point": xname, "sense": sense, "method": method}
                    rec.case(script)
                    b = B.Builder(lpdecls)
                    P = b.problem(prob)
                    seams.reset()
                    seams.lp_stub = lambda s=script, **kw: OptimizeResult(
                        x=None if s["x"] is None else np.array(s["x"], dtype=float), success=s["linprog_status"] == 0,
                        status=s["linprog_status"], message=f"scripted status {s['linprog_status']}",
                        fun=None if s["x"] is None else float(np.dot(kw["c"], s["x"])), nit=2)
                    try:
                        sol = P.solve(method=method)
                    except Exception as ex:
                        rec.violation("stubbed-lp-solve-raises:" + type(ex).__name__, {"script": script, "error": repr(ex)[:200]})
                        continue
                    finally:
                        seams.lp_stub = None
                    rec.paths[f"B:linprog:{status}->{sol.status.value}"] += 1
                    if status != 0 and sol.status.value == "optimal":
                        rec.violation("linprog-failure-status-mapped-to-optimal", {"script": script})
                    judge(rec, prob, sol, "B:linprog", "B:linprog-stub", extra={"script": script})


def run(ctx, rec):
    seams = Seams().install()
    try:
        workload_b(ctx, rec, seams)
    finally:
        seams.uninstall()
    workload_a(ctx, rec)


def replay(w, rec):
    import random

    class C:
        tier = "quick"
        shard = 0
        rng = random.Random(0)

        @staticmethod
        def mine(i):
            return True

    extra = w.get("extra") or {}
    if "script" in extra:
        rec.inconclusive.append("replay of stub scripts: run ./check C06 (the stub matrix is enumerated completely on every run)")
        return
    run_real(rec, C.rng, w["prob"], "A:replay", extra.get("method", "auto"), extra.get("options", {}))


# workloads added after the seventh round of seeded changes (DESIGN section 9): part of the rule of this check
_RULE_ADDENDUM = 'on the LP route additionally every vector / block spelling x sense with the optimum pushed against the written constraint'
_info_base = info


def info(tier):  # noqa: F811
    d = _info_base(tier)
    d["rule"] = d["rule"] + "; " + _RULE_ADDENDUM
    return d
