"""C20 - a failed or interrupted solve leaves the process and the problem intact.

Fault enumeration.  For problems covering both solver paths and the lazily
inserted Hessian (SLSQP with constraints, trust-constr, L-BFGS-B, an
SLSQP -> trust-constr retry, linprog), a counting run measures how many times
each callback kind (objective, gradient, Hessian, constraint function,
constraint Jacobian) is entered; then for every entry index k (all k in
thorough; {1, 2, K/2, K-1, K} in quick) x exception class {ValueError,
FloatingPointError, MemoryError, KeyboardInterrupt, a custom BaseException} a
fresh problem is solved with a sys.monitoring failpoint raising inside the k-th
callback frame.  Further fault points: the solver entry itself (seam raising
before / after j callback evaluations), first-time cache construction
(compile_expression / compile_jacobian / compile_hessian raising on their j-th
call), the retry solve, and bodies of increased_recursion_limit that raise.
After every fault: the call must have returned FAILED or propagated;
warnings.showwarning, warnings.filters, sys.getrecursionlimit() and np.geterr()
must be what they were; two further unarmed solves of the same problem must
equal the baseline of an undisturbed problem.
"""
from __future__ import annotations

import sys
import warnings

import numpy as np
from scipy.optimize import OptimizeResult

from ..monitors.failpoints import FailpointError, Failpoints
from ..monitors.seams import Seams
from ..recipes import build as B

LEVEL = "fault_enumeration"
BUDGET_S = {"quick": 420, "thorough": 2400}


class Sabotage(BaseException):
    """a BaseException that is not an Exception"""


# what the injected exception *says* must not matter: a failure whose message happens to contain a word the status mapping looks for
# (bound, infeasible, maximum ... iterations, unbounded, positive directional derivative) is still a failure
MESSAGES = ["injected", "x0 violates bound constraints", "index 2 is out of bounds for axis 0 with size 2", "the problem is infeasible",
            "maximum number of iterations has been exceeded", "objective is unbounded", "Positive directional derivative for linesearch",
            "Optimization terminated successfully"]
_msg_counter = [0]


def _msg():
    _msg_counter[0] += 1
    return MESSAGES[_msg_counter[0] % len(MESSAGES)]


EXC = {
    "ValueError": lambda: ValueError(_msg()),
    "FloatingPointError": lambda: FloatingPointError(_msg()),
    "MemoryError": lambda: MemoryError(_msg()),
    "KeyboardInterrupt": lambda: KeyboardInterrupt(),
    "BaseException": lambda: Sabotage(_msg()),
    "IndexError": lambda: IndexError(_msg()),
}

_x = ["vec", "x"]


def sq(e):
    return ["bin", "**", e, ["raw", 2, "int"]]


PROBLEMS = {
    "slsqp-constrained": {
        "decls": [{"k": "vec", "name": "x", "n": 3, "lb": -2.0, "ub": 3.0}],
        "objective": ["bin", "+", ["dot", ["vbin", "-", _x, ["arr", [1.0, 0.5, -0.5]]], ["vbin", "-", _x, ["arr", [1.0, 0.5, -0.5]]]], ["fn", "exp", ["el", _x, 0]]],
        "sense": "min",
        "constraints": [["rel", "<=", ["sum", _x], ["raw", 0.5, "float"], "direct"], ["rel", ">=", ["el", _x, 1], ["raw", 0.0, "float"], "direct"],
                        ["rel", "==", ["bin", "-", ["el", _x, 0], ["el", _x, 2]], ["raw", 0.25, "float"], "direct"]],
        "method": "SLSQP",
    },
    "trust-constr-hessian": {
        "decls": [{"k": "var", "name": "a", "lb": -1.0, "ub": 2.0}, {"k": "var", "name": "b"}],
        "objective": ["bin", "+", ["bin", "+", sq(["bin", "-", ["var", "a"], ["raw", 0.5, "float"]]), sq(["bin", "-", ["var", "b"], ["var", "a"]])], ["fn", "cosh", ["var", "b"]]],
        "sense": "min",
        "constraints": [["rel", "<=", ["bin", "+", ["var", "a"], ["var", "b"]], ["raw", 1.0, "float"], "direct"]],
        "method": "trust-constr",
        "kwargs": {"maxiter": 60},
    },
    "lbfgsb-unconstrained": {
        "decls": [{"k": "vec", "name": "x", "n": 4, "lb": -1.0, "ub": 1.5}],
        "objective": ["bin", "-", ["sum", ["vpow", _x, 4]], ["matmul", ["arr", [1.0, -2.0, 0.5, 3.0]], _x]],
        "sense": "min",
        "constraints": [],
        "method": "L-BFGS-B",
    },
    "auto-maximize": {
        "decls": [{"k": "vec", "name": "x", "n": 2, "lb": 0.0, "ub": 2.0}],
        "objective": ["neg", ["bin", "+", ["qf", _x, [[2.0, 0.5], [0.5, 1.0]]], ["neg", ["sum", _x]]]],
        "sense": "max",
        "constraints": [["rel", "<=", ["sum", _x], ["raw", 1.5, "float"], "direct"]],
        "method": "auto",
    },
    "linprog": {
        "decls": [{"k": "vec", "name": "x", "n": 3, "lb": 0.0, "ub": 4.0}],
        "objective": ["bin", "+", ["matmul", ["arr", [1.0, 2.0, -1.0]], _x], ["raw", 0.5, "float"]],
        "sense": "min",
        "constraints": [["rel", ">=", ["sum", _x], ["raw", 1.0, "float"], "direct"], ["rel", "<=", ["el", _x, 2], ["raw", 2.0, "float"], "direct"]],
        "method": "auto",
    },
    "linprog-maximize": {
        "decls": [{"k": "vec", "name": "x", "n": 3, "lb": 0.5, "ub": 10.0}],
        "objective": ["bin", "-", ["matmul", ["arr", [3.0, 4.0, -1.0]], _x], ["raw", 2.0, "float"]],
        "sense": "max",
        "constraints": [["rel", "<=", ["sum", _x], ["raw", 12.0, "float"], "direct"], ["rel", "<=", ["el", _x, 1], ["raw", 2.0, "float"], "direct"]],
        "method": "highs-ds",
    },
}
def _deep_objective(nterms):
    acc = sq(["bin", "-", ["el", _x, 0], ["raw", 0.5, "float"]])
    for i in range(1, nterms):
        acc = ["bin", "+", acc, ["bin", "*", ["raw", 0.01, "float"], sq(["bin", "-", ["el", _x, i % 3], ["raw", 0.1 * (i % 7), "float"]])]]
    return acc


# objectives accumulated term by term (a few hundred levels deep, below and above the switch depth of the iterative algorithms)
PROBLEMS["deep-objective-260"] = {
    "decls": [{"k": "vec", "name": "x", "n": 3, "lb": -2.0, "ub": 3.0}],
    "objective": _deep_objective(260), "sense": "min",
    "constraints": [["rel", ">=", ["sum", _x], ["raw", 0.5, "float"], "direct"]], "method": "SLSQP",
}
PROBLEMS["deep-objective-430"] = {
    "decls": [{"k": "vec", "name": "x", "n": 3, "lb": -2.0, "ub": 3.0}],
    "objective": _deep_objective(430), "sense": "min", "constraints": [], "method": "L-BFGS-B",
}
CALLBACK_KINDS = ["fun", "jac", "hess", "cfun", "cjac"]
BUILD_KINDS = ["build:compile_expression", "build:compile_jacobian", "build:compile_hessian"]


def info(tier):
    return {
        "level": LEVEL,
        "exhaustive": tier == "thorough",
        "rule": "fault points = (problem in %d) x (callback kind x entry index k | k-th entry of a closure produced by the compilers, i.e. inside "
        "the compiled callables below the wrappers | k-th entry of an analysis / LP-extraction function or Problem method | solver entry after j evaluations | cache-construction call j | retry solve | "
        "increased_recursion_limit bodies under 3 prior limits) x 5 exception classes; thorough enumerates every k <= K, quick {1,2,K/2,K-1,K}; "
        "each fault point is one injected solve on a fresh problem followed by two unarmed re-solves compared with an "
        "undisturbed baseline; distinct = distinct fault points" % len(PROBLEMS),
        "required_cells": [f"problem:{p}" for p in PROBLEMS] + [f"fault:{k}" for k in CALLBACK_KINDS + BUILD_KINDS]
        + [f"exc:{e}" for e in EXC] + ["fault:solver-entry", "fault:linprog-entry", "fault:solver-entry+other-kwargs", "fault:linprog-entry+other-kwargs", "fault:retry", "fault:recursion-limit-body", "fault:inside-compiled-callable", "fault:inside-analysis-or-problem-method",
                                       "recursion-limit-prior:as-is", "recursion-limit-prior:application-set", "recursion-limit-prior:nested",
                                       "outcome:failed-returned", "outcome:propagated", "state:checked", "resolve:checked"],
        "assumptions": ["sys.monitoring PY_START failpoints raise inside the entered callback frame (verified by the fired counter)",
                        "warnings.showwarning and sys.getrecursionlimit() are verdict-bearing as in the statement; warnings.filters and np.geterr() are also compared"],
    }


def snapshot():
    return {"showwarning": warnings.showwarning, "filters": list(warnings.filters), "reclimit": sys.getrecursionlimit(), "geterr": dict(np.geterr())}


def state_diff(before):
    now = snapshot()
    out = []
    if now["showwarning"] is not before["showwarning"]:
        out.append("warnings.showwarning")
    if now["reclimit"] != before["reclimit"]:
        out.append("sys.getrecursionlimit")
    if now["filters"] != before["filters"]:
        out.append("warnings.filters")
    if now["geterr"] != before["geterr"]:
        out.append("np.geterr")
    return out


BAD_X0 = [["a", 1.0], [None, 1.0, 2.0], [[1.0, 2.0], [3.0]], [1.0] * 17, "start", [1.0, float("nan")], object()]


def build(pname):
    prob = PROBLEMS[pname]
    b = B.Builder(prob["decls"])
    return b.problem(prob), prob["method"], dict(prob.get("kwargs") or {})


def solve_plain(P, method, kw):
    s = P.solve(method=method, **kw)
    return {"status": s.status.value, "objective": s.objective_value, "values": dict(s.values)}


def same_result(a, b):
    if a["status"] != b["status"]:
        return False
    if a["objective"] is None or b["objective"] is None:
        return a["objective"] == b["objective"]
    if abs(a["objective"] - b["objective"]) > 1e-9 * (1 + abs(b["objective"])):
        return False
    return set(a["values"]) == set(b["values"]) and all(abs(a["values"][k] - b["values"][k]) <= 1e-7 * (1 + abs(b["values"][k])) for k in a["values"])


def inject(rec, pname, baseline, label, cell, exc_name, arm, disarm, expect_fire=True, armed_kw=None, judge_outcome=True):
    """One fault point: fresh problem, armed solve, state check, two unarmed re-solves.
    armed_kw: extra keyword arguments given to the failing attempt only (the re-solves are plain: nothing of the failed attempt may stick)."""
    rec.case({"p": pname, "f": label, "e": exc_name, "kw": sorted(armed_kw or {})})
    P, method, kw = build(pname)
    if armed_kw and judge_outcome:
        cell = cell + "+other-kwargs"
    w = {"problem": pname, "method": method, "fault": label, "exception": exc_name, "show": {"problem": pname, "fault": label, "exception": exc_name}}
    before = snapshot()
    outcome = None
    arm()
    try:
        try:
            s = P.solve(method=method, **{**kw, **(armed_kw or {})})
            outcome = ("returned", s.status.value, s.message[:80])
        except BaseException as ex:  # noqa: BLE001 - every exception class is an outcome here
            outcome = ("propagated", type(ex).__name__, str(ex)[:80])
    finally:
        fired = disarm()
    if expect_fire and not fired:
        rec.events["fault-point-not-reached"] += 1
        return
    rec.cmp(1, cell)
    rec.cmp(1, f"problem:{pname}")
    rec.cmp(1, f"exc:{exc_name}")
    if outcome[0] == "returned":
        if outcome[1] != "failed" and judge_outcome:
            rec.violation(f"fault-swallowed:returned-{outcome[1]}", {**w, "outcome": outcome})
        rec.cmp(1, "outcome:failed-returned")
    else:
        if outcome[1] not in (exc_name, "Sabotage") and not (exc_name == "BaseException" and outcome[1] == "Sabotage"):
            # a different exception escaped (e.g. optyx wrapping it) - allowed by the statement, recorded
            rec.events["propagated-as-other:" + outcome[1]] += 1
        rec.cmp(1, "outcome:propagated")
    rec.paths[f"{cell}:{exc_name}->{outcome[0]}:{outcome[1]}"] += 1
    rec.cmp(1, "state:checked")
    diff = state_diff(before)
    if diff:
        verdict = [d for d in diff if d in ("warnings.showwarning", "sys.getrecursionlimit")]
        rec.violation("process-state-not-restored:" + "+".join(diff), {**w, "outcome": outcome, "verdict_bearing": verdict})
        warnings.showwarning = before["showwarning"]
        warnings.filters[:] = before["filters"]
        sys.setrecursionlimit(before["reclimit"])
        np.seterr(**before["geterr"])
    for again in (1, 2):
        try:
            r = solve_plain(P, method, kw)
        except BaseException as ex:  # noqa: BLE001
            rec.violation("re-solve-after-fault-raises:" + type(ex).__name__, {**w, "outcome": outcome, "error": repr(ex)[:200], "resolve": again})
            return
        rec.cmp(1, "resolve:checked")
        if not same_result(r, baseline):
            rec.violation("re-solve-after-fault-differs-from-baseline", {**w, "outcome": outcome, "got": r, "want": baseline, "resolve": again})
            return
    rec.sample(w["show"], cap=3)


def ks_for(K, tier):
    if K <= 0:
        return []
    if tier == "thorough" or K <= 6:
        return list(range(1, K + 1))
    return sorted({1, 2, max(1, K // 2), K - 1, K})


def run(ctx, rec):
    try:
        fp = Failpoints().discover().install()
    except FailpointError as ex:
        rec.inconclusive.append("failpoints: " + str(ex))
        return
    seams = Seams().install()
    warnings.simplefilter("ignore")
    limit_at_entry = sys.getrecursionlimit()
    # an application that set its own limit after importing optyx: restoring "the default" instead of this value is a violation
    sys.setrecursionlimit(limit_at_entry + 321)
    try:
        i = 0
        for pname in PROBLEMS:
            P, method, kw = build(pname)
            fp.reset()
            baseline = solve_plain(P, method, kw)
            counts = dict(fp.counts)
            n_min_calls = len(seams.min_calls)
            seams.reset()
            rec.paths[f"baseline:{pname}:{baseline['status']}"] += 1
            rec.paths[f"callback-entries:{pname}:" + ",".join(f"{k}={v}" for k, v in sorted(counts.items()))] += 1
            # (1) callbacks and cache-construction calls
            for kind in CALLBACK_KINDS + BUILD_KINDS:
                K = counts.get(kind, 0)
                for k in ks_for(K, ctx.tier):
                    for exc_name, mk in EXC.items():
                        i += 1
                        if not ctx.mine(i) or rec.out_of_time():
                            continue
                        inject(rec, pname, baseline, f"{kind}#{k}/{K}", f"fault:{kind}", exc_name,
                               arm=lambda kind=kind, k=k, mk=mk: fp.arm(kind, k, mk),
                               disarm=lambda: (fp.fired, fp.disarm())[0])
            # (1a) the failing attempt is made with a start point the solver cannot take (non-numeric entry, None entry, ragged
            # nesting, wrong length): whatever raises and wherever, the hooks are back afterwards and the plain re-solves agree with
            # the baseline.  No verdict on the outcome itself (a tree that validates or ignores the argument is as good).
            for bi, bad_x0 in enumerate(BAD_X0):
                i += 1
                if not ctx.mine(i) or rec.out_of_time():
                    continue
                inject(rec, pname, baseline, f"malformed-x0#{bi}", "fault:malformed-start-point", "ValueError",
                       arm=lambda: None, disarm=lambda: True, armed_kw={"x0": bad_x0}, judge_outcome=False)
            # (1b) faults raised below the wrappers, inside the compiled callables themselves
            for kind in sorted(k_ for k_ in counts if k_.startswith(("analysis:", "problem:"))):
                K = counts[kind]
                for k in sorted({1, 2, K} & set(range(1, K + 1))) if ctx.tier == "quick" else ks_for(min(K, 12), "thorough"):
                    for exc_name, mk in EXC.items():
                        i += 1
                        if not ctx.mine(i) or rec.out_of_time():
                            continue
                        inject(rec, pname, baseline, f"{kind}#{k}/{K}", "fault:inside-analysis-or-problem-method", exc_name,
                               arm=lambda kind=kind, k=k, mk=mk: fp.arm(kind, k, mk),
                               disarm=lambda: (fp.fired, fp.disarm())[0])
                        rec.paths[f"method-fault-kind:{kind}"] += 1
            for kind in sorted(k_ for k_ in counts if k_.startswith("inner:")):
                K = counts[kind]
                ks = ks_for(K, "quick") if ctx.tier == "quick" or K > 40 else ks_for(K, ctx.tier)
                if ctx.tier == "thorough" and K > 40:
                    ks = sorted(set(ks) | {1 + (K - 1) * q // 24 for q in range(25)})
                for k in ks:
                    for exc_name, mk in EXC.items():
                        i += 1
                        if not ctx.mine(i) or rec.out_of_time():
                            continue
                        inject(rec, pname, baseline, f"{kind}#{k}/{K}", "fault:inside-compiled-callable", exc_name,
                               arm=lambda kind=kind, k=k, mk=mk: fp.arm(kind, k, mk),
                               disarm=lambda: (fp.fired, fp.disarm())[0])
                        rec.paths[f"inner-fault-kind:{kind}"] += 1
            # (2) the solver entry itself: raise before / after j evaluations of the objective
            is_lp = pname.startswith("linprog")
            for j in (0, 1, 3):
                for exc_name, mk in EXC.items():
                    i += 1
                    if not ctx.mine(i) or rec.out_of_time():
                        continue
                    fired = [0]

                    def arm(j=j, mk=mk, fired=fired, is_lp=is_lp):
                        def stub_min(call):
                            for _ in range(j):
                                call["fun"](np.array(call["x0"], dtype=float))
                            fired[0] += 1
                            raise mk()

                        def stub_lp(**kwargs):
                            fired[0] += 1
                            raise mk()

                        if is_lp:
                            seams.lp_stub = stub_lp
                        else:
                            seams.min_stub = stub_min

                    def disarm(fired=fired):
                        seams.lp_stub = None
                        seams.min_stub = None
                        return fired[0]

                    if is_lp and j:
                        continue
                    inject(rec, pname, baseline, f"solver-entry-after-{j}-evaluations", "fault:linprog-entry" if is_lp else "fault:solver-entry",
                           exc_name, arm, disarm)
                    # the failing attempt made with other keyword arguments than the later plain solves
                    other = {"options": {"maxiter": 0}} if is_lp else ({"tol": 1e-2, "maxiter": 2} if j == 0 else {"maxiter": 1})
                    inject(rec, pname, baseline, f"solver-entry-after-{j}-evaluations", "fault:linprog-entry" if is_lp else "fault:solver-entry",
                           exc_name, arm, disarm, armed_kw=other)
        # (3) fault during the SLSQP -> trust-constr retry solve
        pname = "slsqp-constrained"
        P, method, kw = build(pname)
        baseline = solve_plain(P, method, kw)
        for exc_name, mk in EXC.items():
            for when in ("retry-entry", "retry-first-callback"):
                i += 1
                if not ctx.mine(i) or rec.out_of_time():
                    continue
                fired = [0]

                def arm(mk=mk, fired=fired, when=when):
                    state = {"n": 0}

                    def stub(call):
                        state["n"] += 1
                        if state["n"] == 1:
                            # SLSQP claims success at a point violating the constraints => optyx retries with trust-constr
                            return OptimizeResult(x=np.array([3.0, 3.0, 3.0]), success=True, status=0, message="Optimization terminated successfully", fun=1.0, nit=1)
                        if when == "retry-first-callback":
                            call["fun"](np.array(call["x0"], dtype=float))
                        fired[0] += 1
                        raise mk()

                    seams.min_stub = stub

                def disarm(fired=fired):
                    seams.min_stub = None
                    return fired[0]

                inject(rec, pname, baseline, when, "fault:retry", exc_name, arm, disarm)
        # (4) increased_recursion_limit bodies that raise
        import optyx

        entry_limit = sys.getrecursionlimit()
        for exc_name, mk in list(EXC.items()) + [("none", None)]:
            for limit in (1500, 5000, 50):
                for prior in ("as-is", "application-set", "nested"):
                    i += 1
                    if not ctx.mine(i):
                        continue
                    rec.case({"reclimit": limit, "e": exc_name, "prior": prior})
                    # the limit in force before the block: the process's own, one set by the application, or an enclosing block's
                    if prior == "application-set":
                        sys.setrecursionlimit(entry_limit + 777)
                    outer = optyx.increased_recursion_limit(7321) if prior == "nested" else None
                    if outer is not None:
                        outer.__enter__()
                    before = snapshot()
                    inside = None
                    try:
                        with optyx.increased_recursion_limit(limit):
                            inside = sys.getrecursionlimit()
                            if mk is not None:
                                raise mk()
                            P, method, kw = build("lbfgsb-unconstrained")
                            P.solve(method=method, **kw)
                    except BaseException:  # noqa: BLE001
                        pass
                    rec.cmp(1, "fault:recursion-limit-body")
                    if mk is not None:
                        rec.cmp(1, f"exc:{exc_name}")
                    rec.cmp(1, f"recursion-limit-prior:{prior}")
                    d = state_diff(before)
                    if d:
                        rec.violation("recursion-limit-not-restored-after-%s-body" % ("raising" if mk is not None else "normal"),
                                      {"limit": limit, "exception": exc_name, "diff": d, "prior": prior, "before": before["reclimit"], "after": sys.getrecursionlimit()})
                    elif inside != limit:
                        rec.events["recursion-limit-not-applied-inside"] += 1
                    if outer is not None:
                        try:
                            outer.__exit__(None, None, None)
                        except BaseException:  # noqa: BLE001
                            pass
                    sys.setrecursionlimit(entry_limit)
    finally:
        sys.setrecursionlimit(limit_at_entry)
        seams.uninstall()
        fp.uninstall()


def replay(w, rec):
    rec.inconclusive.append("fault points are enumerated deterministically: run ./check C20")
