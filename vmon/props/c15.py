"""C15 - results do not depend on depth or association of the expression tree.

For a term list t_1..t_n and op in {+,-,*,/} the left-deep accumulation, the
balanced tree and (for linear sums) the vectorised expression are built, below
and above the depth at which optyx switches to its iterative algorithms
(n = T-1, T, T+1 around the real threshold 400; 450 and 900 for
compile / evaluate / solve; 5000 and 20000 for gradient, degree and variable
discovery), and with every threshold lowered to 2 so that the iterative
algorithms run on the whole random grammar.  Observed: variable discovery,
degree, symbolic gradient value, evaluate, compiled value and gradient, solve
result; any exception on the deep build (RecursionError included).
Oracle: the reference algebra folded *iteratively* over the term list, and
pairwise agreement of the builds.
"""
from __future__ import annotations

import math
import sys
import warnings

import numpy as np

from .. import exprcase as X
from ..harness import close
from ..recipes import ast as A
from ..recipes import build as B
from ..recipes import ref as R

LEVEL = "exploration"
BUDGET_S = {"quick": 420, "thorough": 2400}
N_RANDOM = {"quick": 60, "thorough": 3000}

DECLS = [{"k": "vec", "name": "x", "n": 5}, {"k": "vec", "name": "y", "n": 3}, {"k": "par", "name": "p", "val": 1.25}]
_x, _y = ["vec", "x"], ["vec", "y"]
NAMES = ["x[0]", "x[1]", "x[2]", "x[3]", "x[4]", "y[0]", "y[1]", "y[2]"]
Q3 = [[2.0, -0.5, 0.25], [1.0, 1.5, 0.0], [-0.75, 0.5, 3.0]]


QUICK = [False]
NV = [5]  # number of distinct x-variables the chain terms cycle through


def xi(i):
    return ["el", _x, i % NV[0]]


def _pos(e):
    return ["bin", "+", ["bin", "**", e, ["raw", 2, "int"]], ["raw", 1.5, "float"]]


def _unit(e):
    return ["bin", "*", ["fn", "tanh", e], ["raw", 0.9, "float"]]


def base_term(kind, i):
    """the i-th base term of the given kind (an O(1)-sized scalar recipe)"""
    v = xi(i)
    if kind.startswith("fn:"):
        f = kind[3:]
        arg = v
        if f in ("log", "log2", "log10", "sqrt", "acosh"):
            arg = _pos(v)
        elif f in ("asin", "acos", "atanh"):
            arg = _unit(v)
        return ["fn", f, arg]
    if kind == "neg":
        return ["neg", v]
    if kind == "var":
        return v
    if kind == "lin":
        return ["bin", "*", ["raw", 1.0 + (i % 7) * 0.25, "float"], v]
    if kind == "pow2":
        return ["bin", "**", ["bin", "-", v, ["raw", 0.1 * (i % 9), "float"]], ["raw", 2, "int"]]
    if kind == "pow3":
        return ["bin", "**", v, ["raw", 3, "int"]]
    if kind == "const":
        return ["const", 0.5 + (i % 3), "float"] if i % 4 else v
    if kind == "par":
        return ["bin", "*", ["par", "p"], v]
    if kind == "par-offset":
        return ["bin", "-", ["bin", "*", v, v], ["par", "p"]] if i % 2 else ["bin", "*", ["bin", "+", ["par", "p"], ["raw", 0.5, "float"]], v]
    if kind == "vsum":
        return ["sum", _y] if i % 2 else ["sum", ["slice", _x, i % 3, (i % 3) + 2, None]]
    if kind == "dot":
        return ["dot", _y, _y] if i % 2 else ["dot", _y, ["slice", _x, 1, 4, None]]
    if kind == "lc":
        return ["matmul", ["arr", [1.0, -0.5, 0.25]], _y]
    if kind == "norm2":
        return ["norm", _y, 2, "method"]
    if kind == "norm1":
        return ["norm", ["vbin", "+", _y, ["raw", 3.0, "float"]], 1]
    if kind == "qf":
        return ["qf", _y, Q3]
    if kind == "vpowsum":
        return ["sum", ["vpow", _y, 2]]
    if kind == "vunarysum":
        return ["sum", ["vfn", ["sin", "cos", "exp", "tanh"][i % 4], _y]]
    if kind == "vexprsum":
        return ["sum", ["vbin", "*", _y, ["raw", 2.0, "float"]]]
    raise KeyError(kind)


KINDS = [f"fn:{f}" for f in R.FUNCS] + ["neg", "var", "lin", "pow2", "pow3", "const", "par", "par-offset", "vsum", "dot", "lc", "norm2", "norm1", "qf",
                                       "vpowsum", "vunarysum", "vexprsum"]
OPS = ["+", "-", "*", "/"]
T = 400


def damp(op, term):
    """keep products / quotients of hundreds of terms in range: 1 + 1e-3 * tanh(term)"""
    if op in ("*", "/"):
        return ["bin", "+", ["raw", 1.0, "float"], ["bin", "*", ["raw", 1e-3, "float"], ["fn", "tanh", term]]]
    return term


def info(tier):
    return {
        "level": LEVEL,
        "rule": "term kinds (%d: every unary function, every vector node kind, parameters, constants, powers) x op {+,-,*,/} x "
        "n in {399,400,401,450,900} (value/gradient/compile/solve) and {5000,20000} (gradient, degree, variables; +,-) x builds "
        "{left-deep, left-deep after degree queries, left-deep with a fresh Variable object per mention, balanced, vectorised}; parameter kinds re-observed after Parameter.set();  all four switch thresholds lowered to 2 on random grammar recipes; compared with the "
        "iteratively folded reference and pairwise; distinct = (kind, op, n, build) cells + canonical random recipes" % len(KINDS),
        "required_cells": [f"kind:{k}" for k in KINDS] + [f"op:{o}" for o in OPS] + [f"n:{n}" for n in (60, 120, 399, 400, 401, 450, 900, 5000, 20000)]
        + ["build:left-deep", "build:left-deep-fresh-leaves", "build:balanced", "build:vectorised", "obs:after-set", "obs:variables", "obs:degree", "obs:gradient", "obs:evaluate",
           "obs:compiled-value", "obs:compiled-gradient", "obs:solve", "thresholds-lowered", "spelling:constant-minus-reduction", "spelling:quotient-of-reductions-at-zero-denominator", "spelling:heterogeneous-term-list", "spelling:constant-products-in-an-lp", "spelling:objective-with-outside-variables-in-constraints"] + [f"outer:{f}" for f in R.FUNCS],
        "assumptions": ["reference folds the term list iteratively (no recursion limit involved)",
                        "chains draw their terms from <= 8 variables (depth is what matters)"],
    }


# ---------------------------------------------------------------------------
def fold_ref(alg, it, terms, op):
    acc = it.S(terms[0])
    for t in terms[1:]:
        v = it.S(t)
        acc = {"+": alg.add, "-": alg.sub, "*": alg.mul, "/": alg.div}[op](acc, v)
    return acc


def build_left(b, terms, op, prequery=False):
    import operator

    f = {"+": operator.add, "-": operator.sub, "*": operator.mul, "/": operator.truediv}[op]
    acc = b.S(terms[0])
    if prequery:
        # a user inspecting pieces of the model first: the term itself and a few shorter accumulations are classified
        # (and cache their degree on the node) before the full accumulation is
        acc.degree
    for i, t in enumerate(terms[1:], 1):
        tt = b.S(t)
        if prequery and i in (1, 2, 50, 398):
            tt.degree
            tt.is_linear()
        acc = f(acc, tt)
        if prequery and i in (3, 60, 397, 405):
            acc.degree
    return acc


def build_balanced(b, terms, op):
    def tree(objs, f):
        while len(objs) > 1:
            nxt = [f(objs[i], objs[i + 1]) if i + 1 < len(objs) else objs[i] for i in range(0, len(objs), 2)]
            objs = nxt
        return objs[0]

    import operator

    objs = [b.S(t) for t in terms]
    if op == "+":
        return tree(objs, operator.add)
    if op == "*":
        return tree(objs, operator.mul)
    if len(objs) == 1:
        return objs[0]
    if op == "-":
        return objs[0] - tree(objs[1:], operator.add)
    return objs[0] / tree(objs[1:], operator.mul)


def run_chain(rec, rng, kind, op, n, heavy, outer=None):
    """heavy: value/compile/solve observations too (n <= 900).
    outer: a unary function applied to the whole accumulation, f(t_1 + ... + t_n) (argument mapped into f's domain)."""
    from optyx import analysis as AN
    from optyx.core import autodiff as AD
    from optyx.core import compiler as C
    from optyx.core.expressions import get_all_variables

    D = R.Decls(DECLS)
    # the derivative of a product / quotient chain is O(n) per variable: 2 variables there, 5 for sums
    NV[0] = 2 if op in ("*", "/") else 5
    terms = [damp(op, base_term(kind, i)) for i in range(n)]
    rec.case({"k": kind, "op": op, "n": n, "outer": outer})
    pt = {nm: round(0.35 + 0.11 * j, 3) for j, nm in enumerate(NAMES)}
    show = {"kind": kind, "op": op, "n": n, "first_terms": [A.render(t) for t in terms[:3]], **({"outer": f"{outer}(accumulation)"} if outer else {})}
    cells = [f"kind:{kind}", f"op:{op}", f"n:{n}"] + ([f"outer:{outer}"] if outer else [])

    def wrap_ref(alg, acc):
        # f(acc) with the argument mapped into the domain exactly as wrap_obj does
        if outer is None:
            return acc
        if outer in ("log", "log2", "log10", "sqrt", "acosh"):
            acc = alg.add(alg.mul(acc, acc), alg.const(1.5))
        elif outer in ("asin", "acos", "atanh"):
            acc = alg.mul(alg.fn("tanh", alg.mul(acc, alg.const(1e-3))), alg.const(0.9))
        elif outer in ("exp", "sinh", "cosh", "tan"):
            acc = alg.mul(acc, alg.const(1e-3))
        return alg.fn(outer, acc)

    def wrap_obj(e):
        import optyx

        if outer is None:
            return e
        if outer in ("log", "log2", "log10", "sqrt", "acosh"):
            e = e * e + 1.5
        elif outer in ("asin", "acos", "atanh"):
            e = optyx.tanh(e * 1e-3) * 0.9
        elif outer in ("exp", "sinh", "cosh", "tan"):
            e = e * 1e-3
        return getattr(optyx, "abs_" if outer == "abs" else outer)(e)

    def bad(what, build, **kw):
        rec.violation(what, {"kind": kind, "op": op, "n": n, "build": build, "show": show, **kw})

    # reference (iterative fold)
    used = set()
    sa = R.SetAlg()
    its = R.Interp(D, sa)
    for t in terms[: min(n, 40)]:
        used |= its.S(t)
    V = R.natural_sorted(used)
    jalg = R.JetAlg(1, V, pt, D.param_values())
    with np.errstate(all="ignore"):
        jref = wrap_ref(jalg, fold_ref(jalg, R.Interp(D, jalg), terms, op))
    if not math.isfinite(float(jref.v)) or not jalg.t.regular(1e-3, 1e12):
        rec.noncomp["reference-irregular"] += 1
        return
    mag = max(jalg.t.mag, jalg.t.dmag)

    results = {}
    for build in ("left-deep", "left-deep-prequeried", "left-deep-fresh-leaves", "balanced"):
        res = {}
        results[build] = res
        if build == "left-deep-fresh-leaves" and (n > 900 or (QUICK[0] and op in ("*", "/") and n > 130 and (KINDS.index(kind) + n) % 3)):
            continue
        try:
            b = B.Builder(DECLS, fresh_leaves=build.endswith("fresh-leaves"))
            e = build_left(b, terms, op, prequery=build.endswith("prequeried")) if build.startswith("left-deep") else build_balanced(b, terms, op)
            e = wrap_obj(e)
        except Exception as ex:
            bad(f"build-raises:{type(ex).__name__}", build, error=repr(ex)[:200])
            continue
        Vobjs = b.variables(V)
        for c in cells + [f"build:{build}"]:
            rec.cmp(1, c)

        def attempt(label, fn):
            try:
                return fn()
            except RecursionError as ex:
                deriv = label in ("gradient-evaluate", "compile-gradient", "compiled-gradient-call", "compile-jacobian", "compiled-jacobian-call")
                if deriv and op in ("*", "/") and build.startswith("left-deep") and n >= 399:
                    # the derivative tree of a left-deep product / quotient accumulation is itself ~n..3n deep
                    mech = f"RecursionError:derivative-of-deep-left-nested-{'product' if op == '*' else 'quotient'}-chain"
                else:
                    mech = f"RecursionError:{label}:{op}:n={n}:{build}"
                bad(mech, build, error=repr(ex)[:120], stage=label)
            except Exception as ex:
                bad(f"raises:{label}:{type(ex).__name__}", build, error=repr(ex)[:200])
            return None

        got = attempt("variables", lambda: sorted(v.name for v in get_all_variables(e)))
        if got is not None:
            rec.cmp(1, "obs:variables")
            if got != sorted(V):
                bad("variables-differ", build, got=got, want=sorted(V))
        res["degree"] = attempt("degree", lambda: ("deg", AN.compute_degree(e)))
        rec.cmp(1, "obs:degree")
        wrt_idx = sorted({0, len(V) // 2, len(V) - 1})
        for j in wrt_idx:
            g = attempt("gradient", lambda j=j: AD.gradient(e, Vobjs[j]))
            if g is None:
                continue
            def ev(g=g):
                if n > 900:
                    # evaluating a derivative tree thousands of levels deep is outside the supported depth of
                    # evaluate(): the harness walks it under a raised limit, only the *value* is judged
                    old_lim = sys.getrecursionlimit()
                    sys.setrecursionlimit(200000)
                    try:
                        return float(np.asarray(g.evaluate(dict(pt))).reshape(-1)[0])
                    finally:
                        sys.setrecursionlimit(old_lim)
                return float(np.asarray(g.evaluate(dict(pt))).reshape(-1)[0])

            val = attempt("gradient-evaluate", ev)
            if val is None:
                continue
            rec.cmp(1, "obs:gradient")
            ok, d = close(val, float(jref.g[j]), 1e-7, mag)
            rec.disc("gradient", d if ok else 0.0)
            if not ok:
                bad("gradient-value-wrong", build, wrt=V[j], got=val, want=float(jref.g[j]))
        if not heavy:
            continue
        val = attempt("evaluate", lambda: float(np.asarray(e.evaluate(dict(pt))).reshape(-1)[0]))
        if val is not None:
            rec.cmp(1, "obs:evaluate")
            if not close(val, float(jref.v), 1e-9, mag)[0]:
                bad("evaluate-value-wrong", build, got=val, want=float(jref.v))
        x = B.point_array(V, pt)
        fn = attempt("compile", lambda: C.compile_expression(e, Vobjs))
        if fn is not None:
            val = attempt("compiled-call", lambda: float(np.asarray(fn(x)).reshape(-1)[0]))
            if val is not None:
                rec.cmp(1, "obs:compiled-value")
                if not close(val, float(jref.v), 1e-9, mag)[0]:
                    bad("compiled-value-wrong", build, got=val, want=float(jref.v))
        gfn = attempt("compile-gradient", lambda: C.compile_gradient(e, Vobjs))
        if gfn is not None:
            garr = attempt("compiled-gradient-call", lambda: np.asarray(gfn(x), dtype=float).reshape(-1))
            if garr is not None:
                rec.cmp(len(V), "obs:compiled-gradient")
                for j in range(len(V)):
                    if not close(garr[j], float(jref.g[j]), 1e-7, mag)[0]:
                        bad("compiled-gradient-wrong", build, wrt=V[j], got=float(garr[j]), want=float(jref.g[j]))
                        break
        if kind.startswith("par") and fn is not None and gfn is not None:
            # the parameter is updated after compilation: deep and balanced callables must both follow (same objects, no rebuild)
            newp = {"p": -0.75}
            b.params["p"].set(newp["p"])
            jalg2 = R.JetAlg(1, V, pt, newp)
            with np.errstate(all="ignore"):
                jref2 = wrap_ref(jalg2, fold_ref(jalg2, R.Interp(D, jalg2), terms, op))
            if math.isfinite(float(jref2.v)) and jalg2.t.regular(1e-3, 1e12):
                mag2 = max(jalg2.t.mag, jalg2.t.dmag)
                rec.cmp(1, "obs:after-set")
                v2 = attempt("compiled-call-after-set", lambda: float(np.asarray(fn(x)).reshape(-1)[0]))
                if v2 is not None and not close(v2, float(jref2.v), 1e-9, mag2)[0]:
                    bad("compiled-value-ignores-parameter-update", build, got=v2, want=float(jref2.v))
                g2 = attempt("compiled-gradient-call-after-set", lambda: np.asarray(gfn(x), dtype=float).reshape(-1))
                if g2 is not None and not all(close(g2[j], float(jref2.g[j]), 1e-7, mag2)[0] for j in range(len(V))):
                    bad("compiled-gradient-ignores-parameter-update", build, got=g2.tolist(), want=[float(w) for w in jref2.g])
                v3 = attempt("evaluate-after-set", lambda: float(np.asarray(e.evaluate(dict(pt))).reshape(-1)[0]))
                if v3 is not None and not close(v3, float(jref2.v), 1e-9, mag2)[0]:
                    bad("evaluate-ignores-parameter-update", build, got=v3, want=float(jref2.v))
        if op in ("+", "-"):
            jfn = attempt("compile-jacobian", lambda: AD.compile_jacobian([e], Vobjs))
            if jfn is not None:
                attempt("compiled-jacobian-call", lambda: np.asarray(jfn(x), dtype=float))
    da, db = results.get("left-deep", {}).get("degree"), results.get("balanced", {}).get("degree")
    dq = results.get("left-deep-prequeried", {}).get("degree")
    if da is not None and db is not None and da != db:
        bad("degree-differs-between-associations", "both", left_deep=da[1], balanced=db[1])
    if da is not None and dq is not None and da != dq:
        bad("degree-depends-on-earlier-degree-queries", "left-deep-prequeried", fresh=da[1], after_queries=dq[1])
    rec.sample(show, cap=3)


def run_solve(rec, rng, op, n):
    """min sum (x_j - a_i)^2 accumulated term by term vs the analytic optimum, and vs the vectorised spelling."""
    import optyx

    rec.case({"solve": op, "n": n})
    a = [round(0.2 + 0.05 * (i % 13), 3) for i in range(n)]
    b = B.Builder(DECLS)
    x = b.env["x"]
    if op == "+":
        acc = (x[0] - a[0]) ** 2
        for i in range(1, n):
            acc = acc + (x[i % 5] - a[i]) ** 2
        P = optyx.Problem().minimize(acc)
    else:
        acc = 10.0 - (x[0] - a[0]) ** 2
        for i in range(1, n):
            acc = acc - (x[i % 5] - a[i]) ** 2
        P = optyx.Problem().maximize(acc)
    want = [float(np.mean([a[i] for i in range(n) if i % 5 == j])) for j in range(5)]
    rec.cmp(1, "obs:solve")
    rec.cmp(1, f"n:{n}")
    try:
        with warnings.catch_warnings():
            warnings.simplefilter("ignore")
            sol = P.solve()
    except RecursionError as ex:
        rec.violation(f"RecursionError:solve:{op}", {"op": op, "n": n, "error": repr(ex)[:100]})
        return
    except Exception as ex:
        rec.violation(f"solve-raises:{type(ex).__name__}", {"op": op, "n": n, "error": repr(ex)[:200]})
        return
    if sol.status.value != "optimal" or max(abs(sol.values[f"x[{j}]"] - want[j]) for j in range(5)) > 1e-4:
        rec.violation("deep-solve-differs-from-analytic-optimum", {"op": op, "n": n, "status": sol.status.value, "got": sol.values, "want": want, "message": sol.message[:100]})


def run_vectorised(rec, rng, n):
    """c . x written term by term (deep) vs c @ x (vectorised): all observations must agree."""
    import optyx
    from optyx import analysis as AN
    from optyx.core import autodiff as AD
    from optyx.core import compiler as C

    rec.case({"vectorised": n})
    x = optyx.VectorVariable("x", n)
    c = np.array([1.0 + (i % 7) * 0.25 for i in range(n)])
    deep = c[0] * x[0]
    for i in range(1, n):
        deep = deep + float(c[i]) * x[i]
    vec = c @ x
    pt = {f"x[{i}]": 0.5 + 0.001 * (i % 100) for i in range(n)}
    xs = np.array([pt[f"x[{i}]"] for i in range(n)])
    V = list(x)
    rec.cmp(1, "build:vectorised")
    try:
        from optyx.core.expressions import get_all_variables

        obs = {}
        want0 = float(c @ xs)
        for name, e in (("deep", deep), ("vectorised", vec)):
            small = n <= 900 or name == "vectorised"  # evaluate / compile of the deep build only within the supported depth
            obs[name] = {
                "vars": sorted(v.name for v in get_all_variables(e)),
                "degree": AN.compute_degree(e),
                "value": float(e.evaluate(pt)) if small else want0,
                "compiled": float(C.compile_expression(e, V)(xs)) if small else want0,
                "grad_mid": float(np.asarray(AD.gradient(e, x[n // 2]).evaluate(pt))),
                "jac": np.asarray(AD.compile_jacobian([e], V)(xs), dtype=float).reshape(-1) if n <= 900 else c,
            }
    except RecursionError as ex:
        rec.violation("RecursionError:vectorised-comparison", {"n": n, "error": repr(ex)[:100]})
        return
    except Exception as ex:
        rec.violation(f"raises:vectorised-comparison:{type(ex).__name__}", {"n": n, "error": repr(ex)[:200]})
        return
    want = float(c @ xs)
    for k in ("vars", "degree"):
        rec.cmp(1, "obs:" + ("variables" if k == "vars" else "degree"))
        if obs["deep"][k] != obs["vectorised"][k]:
            rec.violation(f"deep-vs-vectorised:{k}-differ", {"n": n, "deep": obs["deep"][k] if k != "vars" else len(obs["deep"][k]), "vectorised": obs["vectorised"][k] if k != "vars" else len(obs["vectorised"][k])})
    for name in ("deep", "vectorised"):
        rec.cmp(3, "obs:compiled-value")
        o = obs[name]
        if not (close(o["value"], want, 1e-9, want)[0] and close(o["compiled"], want, 1e-9, want)[0]):
            rec.violation("deep-vs-vectorised:value-wrong", {"n": n, "build": name, "got": [o["value"], o["compiled"]], "want": want})
        if not close(o["grad_mid"], float(c[n // 2]), 1e-9)[0] or not np.allclose(o["jac"], c, rtol=1e-9):
            rec.violation("deep-vs-vectorised:gradient-wrong", {"n": n, "build": name})


def run_spellings(rec, rng, n):
    """The same formula accumulated term by term and written with vector reductions, for the forms `constant - reduction` (which have
    a per-node Jacobian shortcut of their own) and for quotients of reductions evaluated where the denominator is exactly zero."""
    import optyx
    from optyx.core import autodiff as AD
    from optyx.core import compiler as C

    rec.case({"spellings": n})
    x = optyx.VectorVariable("x", n)
    V = list(x)
    a = np.array([1.0 + (i % 5) * 0.5 for i in range(n)])
    xs = np.array([0.3 + 0.01 * (i % 37) for i in range(n)])

    def acc(first, terms, minus=True):
        e = first
        for t in terms:
            e = e - t if minus else e + t
        return e

    forms = {
        "c - x.x": (10.0 - x.dot(x), acc(10.0 - x[0] * x[0], [x[i] * x[i] for i in range(1, n)]), -2.0 * xs),
        "c - sum x^2": (10.0 - (x ** 2).sum(), acc(10.0 - x[0] ** 2, [x[i] ** 2 for i in range(1, n)]), -2.0 * xs),
        "c - a@x": (7.0 - a @ x, acc(7.0 - float(a[0]) * x[0], [float(a[i]) * x[i] for i in range(1, n)]), -a),
        "c - sum x": (3.0 - x.sum(), acc(3.0 - x[0], [x[i] for i in range(1, n)]), -np.ones(n)),
        "c - 2*sum x^3": (1.0 - 2.0 * (x ** 3).sum(), acc(1.0 - 2.0 * x[0] ** 3, [2.0 * x[i] ** 3 for i in range(1, n)]), -6.0 * xs ** 2),
        "c - (x.x + 1)": (5.0 - (x.dot(x) + 1.0), acc(5.0 - (x[0] * x[0] + 1.0), [x[i] * x[i] for i in range(1, n)]), -2.0 * xs),
    }
    for name, (vec, deep, want) in forms.items():
        for build, e in (("vectorised", vec), ("left-deep", deep)):
            for route, mk in (("compile_jacobian", lambda e=e: AD.compile_jacobian([e], V)), ("compile_gradient", lambda e=e: C.compile_gradient(e, V))):
                try:
                    got = np.asarray(mk()(xs), dtype=float).reshape(-1)
                except RecursionError as ex:
                    rec.violation(f"RecursionError:spelling:{route}", {"form": name, "n": n, "build": build, "error": repr(ex)[:100]})
                    continue
                except Exception as ex:
                    rec.violation(f"raises:spelling:{route}:{type(ex).__name__}", {"form": name, "n": n, "build": build, "error": repr(ex)[:200]})
                    continue
                rec.cmp(n, "spelling:constant-minus-reduction")
                if got.shape != want.shape or not np.allclose(got, want, rtol=1e-9, atol=1e-12):
                    rec.violation("derivative-depends-on-the-spelling-of-the-formula", {"form": name, "n": n, "build": build, "route": route,
                                                                                      "got": got[:6].tolist(), "want": want[:6].tolist()})
    # quotients of reductions at a point where the denominator is exactly zero: both builds must answer alike
    m = 4
    y = optyx.VectorVariable("y", m)
    Vy = list(y)
    filler = [0.001 * (y[i % m] - 0.1 * (i % 3)) ** 2 for i in range(n)]
    quots = {"1/sum y^2": lambda: 1.0 / (y ** 2).sum(), "sum y^4 / sum y^2": lambda: (y ** 4).sum() / (y ** 2).sum(), "log(sum y^2)": lambda: optyx.log((y ** 2).sum()),
             "2/y.y": lambda: 2.0 / y.dot(y)}

    def balanced(objs):
        while len(objs) > 1:
            objs = [objs[i] + objs[i + 1] if i + 1 < len(objs) else objs[i] for i in range(0, len(objs), 2)]
        return objs[0]

    zero = np.zeros(m)
    for qn, mkq in quots.items():
        outs = {}
        for build in ("left-deep", "balanced"):
            try:
                q_ = mkq()
                e = acc(q_, filler, minus=False) if build == "left-deep" else balanced([q_] + list(filler))
                with np.errstate(all="ignore"):
                    v = float(np.asarray(C.compile_expression(e, Vy)(zero)).reshape(-1)[0])
                    g = np.asarray(C.compile_gradient(e, Vy)(zero), dtype=float).reshape(-1)
                outs[build] = ("returns", "nan" if v != v else ("inf" if abs(v) == float("inf") else "finite"), bool(np.all(np.isfinite(g))))
            except Exception as ex:
                outs[build] = ("raises", type(ex).__name__, None)
        rec.cmp(1, "spelling:quotient-of-reductions-at-zero-denominator")
        if outs.get("left-deep") != outs.get("balanced"):
            rec.violation("behaviour-at-a-singular-point-depends-on-the-association", {"form": qn, "n": n, "left_deep": outs.get("left-deep"), "balanced": outs.get("balanced")})


def run_mixed_spellings(rec, rng, k):
    """A heterogeneous term list (degrees 1, 2, non-polynomial in varying order) as a term-by-term sum, a balanced sum, and the
    vectorised spellings w @ VectorExpression(terms), VectorExpression(terms).dot(w), VectorExpression(terms).sum(): degree,
    linearity and solve results must not depend on the spelling.  And products of a variable with several constants in every
    association, solved as an LP."""
    import optyx
    from optyx import analysis as AN
    from optyx.core.vectors import VectorExpression

    rec.case({"mixed-spellings": k})
    x = optyx.VectorVariable("x", 4, lb=-1.0, ub=3.0)
    pools = [
        [x[0], x[1] ** 2, 3.0 * x[2] + 1.0, x[3]],
        [2.0 * x[0], x[1], optyx.sin(x[2]), x[3] ** 2],
        [x[0] + 1.0, x[1] * x[2], x[3], x[0] ** 3],
        [x[0], x[1], x[2] - 2.0, 0.5 * x[3]],
        [x[0] ** 2, x[1], x[2], x[3]],
        [x[0], x[1], x[2], optyx.exp(x[3])],
    ]
    terms = pools[k % len(pools)]
    ones = np.ones(len(terms))
    spell = {
        "left-deep": lambda: ((terms[0] + terms[1]) + terms[2]) + terms[3],
        "balanced": lambda: (terms[0] + terms[1]) + (terms[2] + terms[3]),
        "w@vexpr": lambda: ones @ VectorExpression(list(terms)),
        "vexpr@w": lambda: VectorExpression(list(terms)) @ ones,
        "vexpr.dot(w)": lambda: VectorExpression(list(terms)).dot(ones),
        "vexpr.sum()": lambda: VectorExpression(list(terms)).sum(),
        "dot(vexpr,vexpr-of-ones)": lambda: VectorExpression(list(terms)).dot(VectorExpression([optyx.Constant(1.0)] * len(terms))),
    }
    obs = {}
    for name, mk in spell.items():
        try:
            e = mk()
            obs[name] = {"degree": AN.compute_degree(e), "is_linear": bool(AN.is_linear(e)), "is_quadratic": bool(AN.is_quadratic(e)), "attr": e.degree}
        except Exception as ex:
            obs[name] = {"error": type(ex).__name__}
    rec.cmp(len(obs), "spelling:heterogeneous-term-list")
    ref_ = obs["left-deep"]
    for name, o in obs.items():
        if "error" in o:
            rec.events["spelling-unsupported:" + name] += 1
            continue
        if "error" not in ref_ and o != ref_:
            rec.violation("classification-depends-on-the-spelling-of-the-formula", {"terms": k % len(pools), "spelling": name, "got": o, "left_deep": ref_})
    # a variable times several constants, every association, in an LP
    c = [(1.5, 2.0, 0.5), (2.0, -1.0, 3.0), (0.5, 4.0, 1.0), (-1.0, 2.0, 2.0)]
    K = optyx.Constant
    assoc = {
        "((x*p)*f)*t": lambda v, p, f, t: ((v * K(p)) * K(f)) * K(t),
        "(x*p)*(f*t)": lambda v, p, f, t: (v * K(p)) * (K(f) * K(t)),
        "(p*f)*(t*x)": lambda v, p, f, t: (K(p) * K(f)) * (K(t) * v),
        "x*((p*f)*t)": lambda v, p, f, t: v * ((K(p) * K(f)) * K(t)),
        "(p*(f*t))*x": lambda v, p, f, t: (K(p) * (K(f) * K(t))) * v,
        "(x*(p+0))*(f*t)": lambda v, p, f, t: (v * (K(p) + K(0.0))) * (K(f) * K(t)),
    }
    want_c = np.array([p * f * t for p, f, t in c])
    results = {}
    for name, mk in assoc.items():
        try:
            obj = None
            for i, (p, f, t) in enumerate(c):
                term = mk(x[i], p, f, t)
                obj = term if obj is None else obj + term
            P = optyx.Problem().maximize(obj).subject_to(x.sum() <= 4.0)
            with warnings.catch_warnings():
                warnings.simplefilter("ignore")
                sol = P.solve(method="highs-ds" if k % 2 else "auto")
            results[name] = (sol.status.value, None if sol.objective_value is None else round(float(sol.objective_value), 9))
        except Exception as ex:
            results[name] = ("raises", type(ex).__name__)
    rec.cmp(len(results), "spelling:constant-products-in-an-lp")
    # closed form: maximise want_c . x over the box [-1,3]^4 with sum x <= 4 (solved by hand through scipy on the data)
    from scipy.optimize import linprog

    r = linprog(-want_c, A_ub=np.ones((1, 4)), b_ub=[4.0], bounds=[(-1.0, 3.0)] * 4, method="highs")
    want = ("optimal", round(float(-r.fun), 9))
    for name, got in results.items():
        if got != want and not (got[0] == "optimal" and got[1] is not None and abs(got[1] - want[1]) <= 1e-7 * (1 + abs(want[1]))):
            rec.violation("lp-result-depends-on-the-association-of-constant-products", {"association": name, "got": got, "want": want})


def run_outside_variable(rec, rng, k):
    """One LP, its objective c . x written vectorised (c @ x, x.dot(c)), as a left-deep accumulation (deep for n >= 401) and balanced;
    the constraints are built in a loop and mention two scalar variables that are NOT elements of x.  Status, objective, the variable
    list and the values must not depend on how the objective is spelled (reference: scipy.optimize.linprog on the data)."""
    import optyx
    from scipy.optimize import linprog

    n = [405, 40, 450, 12][k % 4]
    rec.case({"outside-variable": k, "n": n})
    cvec = np.array([1.0 + (i % 7) for i in range(n)])
    idx = list(range(0, n, max(1, n // 9)))

    def build(spelling):
        x = optyx.VectorVariable("x", n, lb=0.0, ub=10.0)
        t = optyx.Variable("t", lb=0.0, ub=5.0)
        s_ = optyx.Variable("s", lb=0.0, ub=2.0)
        if spelling == "c@x":
            obj = cvec @ x
        elif spelling == "x.dot(c)":
            obj = x.dot(cvec)
        elif spelling == "left-deep":
            obj = cvec[0] * x[0]
            for i in range(1, n):
                obj = obj + cvec[i] * x[i]
        else:
            terms = [cvec[i] * x[i] for i in range(n)]
            while len(terms) > 1:
                terms = [terms[i] + terms[i + 1] if i + 1 < len(terms) else terms[i] for i in range(0, len(terms), 2)]
            obj = terms[0]
        P = optyx.Problem().maximize(obj)
        for i in idx:
            P.subject_to(x[i] <= t + 0.5 * s_)
        P.subject_to(t + s_ <= 6.0)
        return P

    # reference on the data: variables [s, t, x_0 .. x_{n-1}]
    A_ub = np.zeros((len(idx) + 1, n + 2))
    for r_, i in enumerate(idx):
        A_ub[r_, 2 + i], A_ub[r_, 1], A_ub[r_, 0] = 1.0, -1.0, -0.5
    A_ub[-1, 0] = A_ub[-1, 1] = 1.0
    b_ub = np.zeros(len(idx) + 1)
    b_ub[-1] = 6.0
    r = linprog(-np.concatenate([[0.0, 0.0], cvec]), A_ub=A_ub, b_ub=b_ub, bounds=[(0, 2), (0, 5)] + [(0, 10)] * n, method="highs")
    want_obj = float(-r.fun)
    want_names = sorted(["s", "t"] + [f"x[{i}]" for i in range(n)])
    for spelling in ("c@x", "x.dot(c)", "left-deep", "balanced"):
        rec.cmp(1, "spelling:objective-with-outside-variables-in-constraints")
        try:
            P = build(spelling)
            with warnings.catch_warnings():
                warnings.simplefilter("ignore")
                sol = P.solve(method="auto" if k % 2 == 0 else "highs-ds")
            got_names = sorted(v.name for v in P.variables)
        except RecursionError as ex:
            rec.violation("RecursionError:solve:outside-variable-model", {"spelling": spelling, "n": n, "error": repr(ex)[:100]})
            continue
        except Exception as ex:
            rec.violation("solve-raises:" + type(ex).__name__, {"spelling": spelling, "n": n, "error": repr(ex)[:200], "model": "objective over x, loop-built constraints with t and s"})
            continue
        ok = sol.status.value == "optimal" and sol.objective_value is not None and abs(sol.objective_value - want_obj) <= 1e-7 * (1 + abs(want_obj))
        if got_names != want_names or P.n_variables != n + 2:
            rec.violation("variable-list-depends-on-the-spelling-of-the-objective", {"spelling": spelling, "n": n, "missing": sorted(set(want_names) - set(got_names))[:5], "n_variables": P.n_variables})
        elif not ok:
            rec.violation("result-depends-on-the-spelling-of-the-objective", {"spelling": spelling, "n": n, "status": sol.status.value, "got": sol.objective_value, "want": want_obj})


def with_thresholds(value, fn):
    from optyx import analysis as AN
    from optyx.core import autodiff as AD
    from optyx.core import compiler as C
    from optyx.core import expressions as EX

    mods = [AN, AD, C, EX]
    old = [m._RECURSION_THRESHOLD for m in mods]
    try:
        for m in mods:
            m._RECURSION_THRESHOLD = value
        return fn()
    finally:
        for m, o in zip(mods, old):
            m._RECURSION_THRESHOLD = o


def lowered_thresholds(rec, rng, n_cases):
    """All four switch thresholds = 2: the iterative algorithms on the whole grammar."""
    from optyx import analysis as AN
    from optyx.core import autodiff as AD
    from optyx.core import compiler as C
    from optyx.core import expressions as EX

    mods = [AN, AD, C, EX]
    old = [m._RECURSION_THRESHOLD for m in mods]
    k = 0
    try:
        while k < n_cases and not rec.out_of_time():
            k += 1
            case = X.random_case(rng, n_points=1, params=(k % 4 == 0))
            if case is None:
                continue
            decls, node, V = case["decls"], case["node"], case["V"]
            D = R.Decls(decls)
            pt = case["points"][0]
            rec.case({"lowered": node, "d": decls})
            outs = {}
            for mode in ("default", "lowered"):
                for m, o in zip(mods, old):
                    m._RECURSION_THRESHOLD = o if mode == "default" else 2
                try:
                    b = B.Builder(decls)
                    e = b.S(node)
                    Vobjs = b.variables(V)
                    x = B.point_array(V, pt)
                    outs[mode] = {
                        "vars": sorted(v.name for v in EX.get_all_variables(e)),
                        "degree": AN.compute_degree(e),
                        "value": float(np.asarray(C.compile_expression(e, Vobjs)(x)).reshape(-1)[0]),
                        "grad": [float(np.asarray(AD.gradient(e, vo).evaluate(dict(pt))).reshape(-1)[0]) for vo in Vobjs],
                    }
                except Exception as ex:
                    outs[mode] = {"error": type(ex).__name__ + ": " + str(ex)[:150]}
            rec.cmp(1, "thresholds-lowered")
            a_, b_ = outs["default"], outs["lowered"]
            if "error" in a_:
                rec.events["unsupported-build-or-default-error"] += 1
                continue
            show = X.show(case)
            if "error" in b_:
                rec.violation("iterative-algorithms-raise:" + b_["error"].split(":")[0], {"case": case, "show": show, "error": b_["error"]})
                continue
            j, t = R.ref_jet(D, node, V, pt, order=1)
            mag = max(t.mag, t.dmag)
            if a_["vars"] != b_["vars"]:
                rec.violation("iterative-variable-discovery-differs", {"case": case, "show": show, "default": a_["vars"], "lowered": b_["vars"]})
            if a_["degree"] != b_["degree"]:
                rec.violation("iterative-degree-differs", {"case": case, "show": show, "default": a_["degree"], "lowered": b_["degree"]})
            if not close(b_["value"], float(j.v), 1e-9, mag)[0]:
                rec.violation("iterative-compiled-value-wrong", {"case": case, "show": show, "got": b_["value"], "want": float(j.v)})
            for gi, (g1, w) in enumerate(zip(b_["grad"], j.g)):
                if not close(g1, float(w), 1e-7, mag)[0]:
                    rec.violation("iterative-gradient-wrong", {"case": case, "show": show, "wrt": V[gi], "got": g1, "want": float(w)})
                    break
    finally:
        for m, o in zip(mods, old):
            m._RECURSION_THRESHOLD = o


def run(ctx, rec):
    rng = ctx.rng
    QUICK[0] = ctx.tier == "quick"
    sys.setrecursionlimit(1000)  # the library's own budget, measured from a shallow stack
    i = 0
    for ki, kind in enumerate(KINDS):
        for oi, op in enumerate(OPS):
            if op in ("+", "-"):
                sizes_heavy = [T - 1, T, T + 1, 450, 900]
            elif kind.startswith("fn:") or kind in ("neg", "var", "lin", "pow2", "pow3", "const", "par", "par-offset"):
                sizes_heavy = [120, T - 1, T, T + 1, 450, 900]
            else:
                # the derivative of a product of vector nodes is O(n^2) to build: these chains stay short and the
                # switch thresholds are lowered to 30 instead, so that the iterative algorithms still run on them
                sizes_heavy = [60, 61]
            if ctx.tier == "quick":
                # quick: every (kind, op) once per run, the chain length rotating with kind and seed; the 900-term
                # products / quotients (8 s each) are left to the thorough tier, 900-term sums stay
                if op in ("*", "/") and 900 in sizes_heavy:
                    sizes_heavy = [n_ for n_ in sizes_heavy if n_ != 900]
                sizes_heavy = [sizes_heavy[(ki + oi + ctx.seed) % len(sizes_heavy)]]
            for n in sizes_heavy:
                i += 1
                # spread the expensive operators evenly over the shards (i alone would put every '*' chain on 4 shards)
                if not ctx.mine(ki * 5 + oi * 9 + sizes_heavy.index(n) * 3):
                    continue
                if rec.out_of_time():
                    rec.inconclusive.append("time budget reached in the chain matrix")
                    return
                if n < 100:
                    with_thresholds(30, lambda: run_chain(rec, rng, kind, op, n, heavy=True))
                else:
                    run_chain(rec, rng, kind, op, n, heavy=True)
    # the two listed findings (known_findings.json) are exercised on every run and seed, whatever the rotation above picked
    for oi, op in enumerate(("*", "/")):
        if ctx.mine(7 + 5 * oi) and not rec.out_of_time():
            run_chain(rec, rng, "var", op, 900 if op == "*" else 450, heavy=True)  # products recurse from ~500 terms on, quotients from ~330
    # every unary function applied to a whole deep accumulation: f(t_1 + ... + t_n)
    for fi, f in enumerate(R.FUNCS):
        for ni, n in enumerate((450, 900)):
            i += 1
            if not ctx.mine(i * 3 + 1):
                continue
            if ctx.tier == "quick" and (fi + ni + ctx.seed) % 2:
                continue
            if rec.out_of_time():
                rec.inconclusive.append("time budget reached in the outer-function matrix")
                return
            run_chain(rec, rng, ["lin", "pow2", "par", "fn:sin"][fi % 4], "+-"[fi % 2], n, heavy=True, outer=f)
    for ki, kind in enumerate(KINDS):
        for oi, op in enumerate(("+", "-")):
            for ni, n in enumerate((5000, 20000)):
                i += 1
                if not ctx.mine(i):
                    continue
                if ctx.tier == "quick" and ((ki + oi + ni + ctx.seed) % 4 != 0 or (n == 20000 and (ki + ctx.seed) % 3 != 0)):
                    continue
                if rec.out_of_time():
                    rec.inconclusive.append("time budget reached in the long-chain matrix")
                    return
                run_chain(rec, rng, kind, op, n, heavy=False)
    for op in ("+", "-"):
        for n in (399, 401, 450, 900):
            i += 1
            if ctx.mine(i):
                run_solve(rec, rng, op, n)
    for n in (399, 401, 900, 5000):
        i += 1
        if ctx.mine(i):
            run_vectorised(rec, rng, n)
    for n in (30, 399, 401, 450):
        i += 1
        if ctx.mine(i):
            run_spellings(rec, rng, n)
    for k_ in range(12):
        i += 1
        if ctx.mine(i):
            run_mixed_spellings(rec, rng, k_)
    for k_ in range(8):
        i += 1
        if ctx.mine(i):
            run_outside_variable(rec, rng, k_)
    lowered_thresholds(rec, rng, N_RANDOM[ctx.tier])


def replay(w, rec):
    import random

    if "kind" in w and "n" in w:
        run_chain(rec, random.Random(0), w["kind"], w["op"], w["n"], heavy=w["n"] <= 900)
    else:
        rec.inconclusive.append("replay by seed: VERIF_SEED=<seed> ./check C15")


# workloads added after the seventh round of seeded changes (DESIGN section 9): part of the rule of this check
_RULE_ADDENDUM = 'one LP objective in four spellings with loop-built constraints over variables outside the vector'
_info_base = info


def info(tier):  # noqa: F811
    d = _info_base(tier)
    d["rule"] = d["rule"] + "; " + _RULE_ADDENDUM
    return d
