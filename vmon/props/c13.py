"""C13 - editing a model invalidates everything derived from the old model.

Small-scope exhaustive histories: ALL operation sequences up to a length bound
over an alphabet of 26 operations chosen to cross every cache boundary
(LP objective <-> quadratic objective, flip sense, add linear / nonlinear
constraint, add a list of constraints introducing a new variable, tighten /
change a bound, solve with auto / SLSQP / trust-constr / linprog / BFGS (a method that ignores bounds), read
variables+bounds), on 3 base models; plus random long histories.
Oracle: the twin process builds `Problem(current state)` from scratch and
performs the same final observation; a sequential reference model in the
harness tracks the current objective / sense / constraints / bounds.
A cache-coherence probe on the private caches localises which cache was
stale (reported as evidence; the verdict comes from the observable result).
"""
from __future__ import annotations

import itertools
import warnings

import numpy as np

from ..monitors.twin import Twin, TwinError
from ..recipes import ast as A
from ..recipes import build as B
from ..recipes import ref as R

LEVEL = "exploration"
BUDGET_S = {"quick": 420, "thorough": 2400}
MAXLEN = {"quick": 2, "thorough": 3}  # 27 operations: 27^3 sequences x 4 base models is what fits the thorough budget
N_RANDOM = {"quick": 6, "thorough": 200}

a_, b_, c_ = ["var", "a"], ["var", "b"], ["var", "c"]
_x = ["vec", "x"]


def sq(e):
    return ["bin", "**", e, ["raw", 2, "int"]]


def add(*t):
    n = t[0]
    for u in t[1:]:
        n = ["bin", "+", n, u]
    return n


def mul(k, e):
    return ["bin", "*", ["raw", k, "float"], e]


BASES = {
    "scalars": {
        "decls": [{"k": "var", "name": "a", "lb": 0.0, "ub": 4.0}, {"k": "var", "name": "b", "lb": 0.0, "ub": 4.0},
                  {"k": "var", "name": "c", "lb": 0.0, "ub": 2.0}],
        "lin": add(a_, mul(2.0, b_), ["raw", 1.0, "float"]),
        "quad": add(sq(["bin", "-", a_, ["raw", 1.0, "float"]]), sq(["bin", "-", b_, ["raw", 2.0, "float"]])),
        "max": ["bin", "-", add(a_, b_), mul(0.5, sq(a_))],
        "c_lin": ["rel", ">=", add(a_, b_), ["raw", 1.0, "float"], "direct"],
        "c_list": [["rel", "<=", add(a_, c_), ["raw", 3.0, "float"], "direct"], ["rel", ">=", add(b_, mul(-1.0, c_)), ["raw", -1.0, "float"], "direct"]],
        "c_nl": ["rel", "<=", add(sq(a_), sq(b_)), ["raw", 4.0, "float"], "direct"],
        "bvar": "a",
        "view": add(a_, mul(3.0, c_)),
    },
    "single-vector": {
        "decls": [{"k": "vec", "name": "x", "n": 3, "lb": 0.0, "ub": 3.0}, {"k": "var", "name": "c", "lb": 0.0, "ub": 2.0}],
        "lin": add(["matmul", ["arr", [1.0, 2.0, -1.0]], _x], ["raw", 0.5, "float"]),
        "quad": ["bin", "-", ["dot", _x, _x], ["sum", _x]],
        "max": ["bin", "-", ["sum", _x], mul(0.5, ["sum", ["vpow", _x, 2]])],
        "c_lin": ["rel", ">=", ["sum", _x], ["raw", 1.0, "float"], "direct"],
        "c_list": [["rel", "<=", add(["el", _x, 0], c_), ["raw", 3.0, "float"], "direct"], ["rel", ">=", ["el", _x, 1], c_, "direct"]],
        "c_nl": ["rel", "<=", ["dot", _x, _x], ["raw", 4.0, "float"], "direct"],
        "bvar": "x[1]",
        # an objective over ANOTHER vector object (a slice view of x) while the constraints stay on x itself
        "view": ["sum", ["slice", _x, 0, 2, None]],
    },
    "reversed-view": {
        "decls": [{"k": "vec", "name": "x", "n": 3, "lb": -1.0, "ub": 3.0}, {"k": "var", "name": "c", "lb": 0.0, "ub": 2.0}],
        "lin": ["matmul", ["arr", [1.0, 2.0, 3.0]], ["slice", _x, None, None, -1]],
        "quad": add(["qf", _x, [[2.0, 0.5, 0.0], [0.5, 1.0, 0.0], [0.0, 0.0, 1.5]]], ["neg", ["el", _x, 2]]),
        "max": ["neg", add(["sum", ["vpow", _x, 2]], ["el", _x, 0])],
        "c_lin": ["rel", "<=", ["matmul", ["arr", [1.0, 1.0]], ["slice", _x, 0, 2, None]], ["raw", 2.0, "float"], "direct"],
        "c_list": [["rel", "<=", ["slice", _x, 1, 3, None], ["raw", 2.5, "float"], "direct"], ["rel", ">=", add(["el", _x, 0], c_), ["raw", 0.5, "float"], "direct"]],
        "c_nl": ["rel", ">=", ["fn", "exp", ["el", _x, 0]], ["raw", 1.0, "float"], "direct"],
        "bvar": "x[0]",
        "view": ["matmul", ["arr", [1.0, 2.0]], ["slice", _x, 1, 3, None]],
    },
}
BASES["degenerate-lp"] = {
    # a linear model whose optimal set is a whole face (min a + b s.t. a + b >= 4) or which is unbounded under "max-lin":
    # which point / status is reported depends on the route, so a stale routing decision shows
    "decls": [{"k": "var", "name": "a", "lb": 1.0, "ub": 6.0}, {"k": "var", "name": "b", "lb": 0.0}, {"k": "var", "name": "c", "lb": 0.0, "ub": 2.0}],
    "lin": add(a_, b_),
    "quad": add(sq(["bin", "-", a_, ["raw", 2.0, "float"]]), sq(["bin", "-", b_, ["raw", 1.0, "float"]])),
    "max": ["bin", "-", add(a_, b_), mul(0.5, sq(b_))],
    "c_lin": ["rel", ">=", add(a_, b_), ["raw", 4.0, "float"], "direct"],
    "c_list": [["rel", "<=", add(a_, c_), ["raw", 7.0, "float"], "direct"], ["rel", ">=", add(b_, c_), ["raw", 0.5, "float"], "direct"]],
    "c_nl": ["rel", "<=", add(sq(a_), sq(b_)), ["raw", 40.0, "float"], "direct"],
    "bvar": "a",
    "view": add(b_, c_),
}
OPS = ["min-lin", "min-quad", "min-small", "min-view", "max", "max-lin", "flip-same-object", "add-lin", "add-list", "add-nl", "add-mixed-list", "add-list-with-invalid-entry", "tighten", "rebound", "solve-auto", "solve-SLSQP",
       "solve-trust-constr", "solve-linprog", "solve-BFGS", "solve-Nelder-Mead", "solve-COBYLA", "solve-SLSQP-maxiter2", "noop", "reject-maximize", "reject-minimize",
       "reject-subject_to", "read"]
OBS = {"solve-auto", "solve-SLSQP", "solve-trust-constr", "solve-linprog", "solve-BFGS", "solve-Nelder-Mead", "solve-COBYLA", "solve-SLSQP-maxiter2", "read"}


def info(tier):
    n = sum(len(OPS) ** L for L in range(1, MAXLEN[tier] + 1))
    return {
        "level": LEVEL,
        "exhaustive": True,
        "rule": "all %d operation sequences of length <= %d over %d operations x 4 base models (the last operation of each sequence "
        "ending in an observation is compared with the twin; prefixes are covered by the shorter sequences); the complete "
        "family 'objective ; [constraint] ; solve m1 ; edit ; observe' (5 objectives x 3 x every solve x every edit x every observation per base model; quick runs one sixteenth of it per seed, plus the "
        "directed two-solve crossings and the 'objective moved to a view of the vector' histories in full per seed); random histories of length <= 40 with every observation compared; distinct = distinct (base, sequence) pairs"
        % (n, MAXLEN[tier], len(OPS)),
        "required_cells": [f"base:{b}" for b in BASES] + [f"last:{o}" for o in OPS if o in OBS] + [f"op:{o}" for o in OPS],
        "assumptions": ["twin process gives the fresh-model result; deterministic solvers => tight comparison (1e-7 objective, 1e-5 values)",
                        "exhaustive only within the stated alphabet / length bound / base models"],
    }


class Model:
    """Sequential reference model of the problem's current definition."""

    def __init__(self, base):
        self.base = BASES[base]
        self.objective = None
        self.sense = "min"
        self.constraints = []
        self.bounds = {}

    def prob(self):
        return {"decls": self.base["decls"], "objective": self.objective, "sense": self.sense, "constraints": list(self.constraints)}


def apply(op, M, P, b):
    """Apply op to both the reference model M and the real problem P."""
    base = M.base
    if op in ("min-lin", "min-quad", "max", "max-lin", "min-small", "min-view"):
        if op == "min-small":
            # an objective over a strict subset of the variables the earlier objectives used (the others are no longer mentioned
            # unless a constraint still does)
            first = base["decls"][0]
            v0 = ["var", first["name"]] if first["k"] == "var" else ["el", ["vec", first["name"]], 0]
            base = dict(base, small=add(sq(["bin", "-", v0, ["raw", 0.75, "float"]]), ["raw", 0.5, "float"]))
        node = base[{"min-lin": "lin", "min-quad": "quad", "max": "max", "max-lin": "lin", "min-small": "small", "min-view": "view"}[op]]
        M.objective, M.sense = node, ("max" if op.startswith("max") else "min")
        e = b.S(node)
        (P.maximize if op.startswith("max") else P.minimize)(e)
    elif op == "flip-same-object":
        # re-set the *same* objective expression object with the opposite sense (user: prob.maximize(f) after prob.minimize(f))
        if P.objective is not None:
            if M.sense == "min":
                P.maximize(P.objective)
                M.sense = "max"
            else:
                P.minimize(P.objective)
                M.sense = "min"
    elif op == "add-lin":
        M.constraints.append(base["c_lin"])
        P.subject_to(b.rel(base["c_lin"]))
    elif op == "add-list":
        M.constraints.extend(base["c_list"])
        lst = []
        for r in base["c_list"]:
            c = b.rel(r)
            lst.extend(c if isinstance(c, list) else [c])
        P.subject_to(lst)
    elif op == "add-mixed-list":
        # one subject_to call with a list holding a linear and a non-linear constraint (order alternates)
        pair = [base["c_lin"], base["c_nl"]] if len(M.constraints) % 2 == 0 else [base["c_nl"], base["c_lin"]]
        M.constraints.extend(pair)
        lst = []
        for r in pair:
            c = b.rel(r)
            lst.extend(c if isinstance(c, list) else [c])
        P.subject_to(lst)
    elif op == "add-list-with-invalid-entry":
        # subject_to([good, <not a constraint>]) raises; whatever part of the list the problem kept is part of its definition now
        before = len(P.constraints)
        try:
            P.subject_to([b.rel(base["c_lin"]), "not a constraint"])
        except Exception:
            pass
        if len(P.constraints) == before + 1:
            M.constraints.append(base["c_lin"])
        elif len(P.constraints) != before:
            raise RuntimeError("unexpected number of constraints after a failed subject_to")
    elif op == "noop":
        pass  # nothing is edited: two observations in a row (solve m1 ; solve m2) must each equal the fresh problem's
    elif op in ("reject-maximize", "reject-minimize", "reject-subject_to"):
        # an edit the API rejects (a VectorVariable passed as objective, a string as constraint): the model is what it was
        try:
            if op == "reject-subject_to":
                P.subject_to("x <= 1")
            else:
                bad_arg = b.variables([base["bvar"]]) if base["decls"][0]["k"] == "var" else b.env[base["decls"][0]["name"]]
                (P.maximize if op == "reject-maximize" else P.minimize)(bad_arg if not isinstance(bad_arg, list) else None)
            raise RuntimeError("the invalid edit was accepted")
        except RuntimeError:
            raise
        except Exception:
            pass
    elif op == "add-nl":
        M.constraints.append(base["c_nl"])
        P.subject_to(b.rel(base["c_nl"]))
    elif op == "tighten":
        v = b.variables([base["bvar"]])[0]
        v.ub = 0.5
        lb = M.bounds.get(base["bvar"], [None, None])[0] if base["bvar"] in M.bounds else v.lb
        M.bounds[base["bvar"]] = [v.lb, 0.5]
    elif op == "rebound":
        v = b.variables([base["bvar"]])[0]
        v.lb, v.ub = -1.0, 3.5
        M.bounds[base["bvar"]] = [-1.0, 3.5]


def observe_real(op, P):
    if op == "read":
        return {"variables": [v.name for v in P.variables], "n": P.n_variables, "bounds": [list(t) for t in P.get_bounds()]}
    method = op[len("solve-"):]
    kw = {"maxiter": 300} if method == "trust-constr" else ({"maxiter": 150} if method in ("Nelder-Mead", "COBYLA") else {})
    if method == "SLSQP-maxiter2":
        method, kw = "SLSQP", {"maxiter": 2}  # a cheap probe with its own option: the option belongs to this call only
    try:
        with warnings.catch_warnings():
            warnings.simplefilter("ignore")
            sol = P.solve(method=method, **kw)
    except Exception as ex:
        return {"error": type(ex).__name__}
    return {"status": sol.status.value, "objective": sol.objective_value, "values": sol.values}


def observe_twin(op, M, twin):
    prob = M.prob()
    if prob["objective"] is None:
        # a problem without objective: emulate what a fresh Problem() gives
        prob = dict(prob)
    job = {"op": "solve", "prob": prob, "bounds_override": M.bounds, "method": "auto", "kwargs": {}}
    if op == "read":
        job["method"] = "__read__"
    else:
        method = op[len("solve-"):]
        job["method"] = method
        job["kwargs"] = {"maxiter": 300} if method == "trust-constr" else ({"maxiter": 150} if method in ("Nelder-Mead", "COBYLA") else {})
        if method == "SLSQP-maxiter2":
            job["method"], job["kwargs"] = "SLSQP", {"maxiter": 2}
    return twin.call(job)


def coherence_probe(P, rec):
    """Private-cache coherence at a quiescent point (evidence / localisation only)."""
    try:
        from optyx.core.expressions import get_all_variables

        if getattr(P, "_variables", None) is not None:
            fresh = set()
            if P.objective is not None:
                fresh |= {v.name for v in get_all_variables(P.objective)}
            for c in P.constraints:
                fresh |= {v.name for v in c.get_variables()}
            if {v.name for v in P._variables} != fresh:
                rec.events["stale:_variables"] += 1
        cur = [(v.lb, v.ub) for v in P.variables]
        lp = getattr(P, "_lp_cache", None)
        if lp is not None and [tuple(t) for t in lp.bounds] != cur:
            rec.events["stale:_lp_cache.bounds"] += 1
        sc = getattr(P, "_solver_cache", None)
        if sc is not None and "bounds" in sc:
            want = [(-np.inf if lb is None else lb, np.inf if ub is None else ub) for lb, ub in cur]
            if [tuple(t) for t in sc["bounds"]] != want:
                rec.events["stale:_solver_cache.bounds"] += 1
        rec.events["coherence-probes"] += 1
    except Exception:
        rec.events["coherence-probe-unavailable"] += 1


def run_sequence(rec, base, seq, twin, check_all=False):
    rec.case({"b": base, "s": seq})
    M = Model(base)
    import optyx

    b = B.Builder(M.base["decls"])
    P = optyx.Problem()
    for i, op in enumerate(seq):
        last = i == len(seq) - 1
        rec.events["op-applied"] += 1
        if op not in OBS:
            try:
                apply(op, M, P, b)
            except Exception as ex:
                rec.violation("edit-raises:" + type(ex).__name__, {"base": base, "sequence": seq, "error": repr(ex)[:200]})
                return
            rec.cmp(0, None)
            rec.cells[f"op:{op}"] += 1
            continue
        if op.startswith("solve"):
            coherence_probe(P, rec)
        got = observe_real(op, P)
        rec.cells[f"op:{op}"] += 1
        if not (last or check_all):
            continue
        try:
            tw = observe_twin(op, M, twin)
        except TwinError as ex:
            rec.inconclusive.append("twin: " + str(ex))
            return
        rec.cmp(1, f"last:{op}")
        rec.cmp(0, None)
        rec.cells[f"base:{base}"] += 1
        w = {"base": base, "sequence": seq[: i + 1], "got": got, "fresh": tw,
             "show": {"base": base, "sequence": " ; ".join(seq[: i + 1])}}
        if op == "read":
            if "error" in tw:
                rec.noncomp["twin-error-on-read"] += 1
                continue
            if got["variables"] != tw["variables"] or got["n"] != len(tw["variables"]):
                rec.violation("variables-differ-from-fresh-problem", w)
            elif got["bounds"] != tw["bounds"]:
                rec.violation("bounds-differ-from-fresh-problem", w)
            continue
        if "error" in got or "error" in tw:
            ge = got.get("error")
            te = tw.get("error", "").split(":")[0] if "error" in tw else None
            if ge != te:
                rec.violation("solve-raises-differently-from-fresh-problem", w)
            continue
        if got["status"] != tw["status"]:
            rec.violation(f"status-differs-from-fresh-problem:{op}", w)
            continue
        if got["status"] == "optimal":
            d = abs(got["objective"] - tw["objective"]) / (1 + abs(tw["objective"]))
            dx = max([abs(got["values"][k] - tw["values"].get(k, 1e9)) for k in got["values"]] + [0.0]) if set(got["values"]) == set(tw["values"]) else 1e9
            rec.disc("vs-fresh", max(d, 0.0))
            if d > 1e-7 or dx > 1e-5:
                rec.violation(f"result-differs-from-fresh-problem:{op}", w)
    rec.sample({"base": base, "sequence": seq}, cap=2)


def run(ctx, rec):
    rng = ctx.rng
    twin = Twin().start()
    try:
        i = 0
        for base in BASES:
            for Lh in range(1, MAXLEN[ctx.tier] + 1):
                for seq in itertools.product(OPS, repeat=Lh):
                    if seq[-1] not in OBS:
                        continue
                    i += 1
                    if not ctx.mine(i):
                        continue
                    if rec.out_of_time():
                        rec.inconclusive.append("time budget reached before the exhaustive scope was finished")
                        return
                    run_sequence(rec, base, list(seq), twin)
                    if rec.inconclusive:
                        return
        # directed: two observations in a row on one problem object (no edit in between), the first by any kind of method -
        # derivative-free, gradient-based, LP - the second by another kind
        for base in BASES:
            for obj in ("min-lin", "max-lin", "max", "min-quad"):
                for m1 in ("solve-Nelder-Mead", "solve-COBYLA", "solve-SLSQP", "solve-auto", "solve-linprog", "solve-SLSQP-maxiter2"):
                    for last in ("solve-auto", "solve-SLSQP", "solve-trust-constr"):
                        for mid in ("noop", "reject-maximize", "reject-minimize", "reject-subject_to"):
                            i += 1
                            if not ctx.mine(i):
                                continue
                            if ctx.tier == "quick" and mid != "noop" and (i // 16 + ctx.seed) % 2:
                                continue
                            if rec.out_of_time():
                                rec.inconclusive.append("time budget reached before the two-solve crossings were finished")
                                return
                            run_sequence(rec, base, [obj, "add-lin", m1, mid, last], twin)
                            rec.cmp(1, "history:two-solves-without-an-edit")
        # directed: after an observation the objective moves to ANOTHER vector object (a view) while the constraints stay on the old one
        for base in BASES:
            for obj in ("min-lin", "max-lin", "min-quad"):
                for m1 in ("solve-auto", "read", "solve-SLSQP"):
                    for last in ("solve-auto", "solve-SLSQP", "read"):
                        i += 1
                        if not ctx.mine(i):
                            continue
                        run_sequence(rec, base, [obj, "add-lin", m1, "min-view", last], twin)
                        rec.cmp(1, "history:objective-moved-to-a-view")
        # cache-boundary crossings (length 4-5): objective ; [constraint] ; solve m1 ; edit ; observe
        edits = [o for o in OPS if o not in OBS]
        solves = [o for o in OPS if o.startswith("solve")]
        for base in BASES:
            for obj in ("min-lin", "min-quad", "max", "max-lin", "min-small"):
                for pre in (None, "add-lin", "add-nl"):
                    for m1 in solves:
                        for ed in edits:
                            for last in sorted(OBS):
                                i += 1
                                if not ctx.mine(i):
                                    continue
                                if ctx.tier == "quick" and (i // 16) % 16 != ctx.seed % 16:
                                    continue  # quick: one third of the crossing family per seed
                                if rec.out_of_time():
                                    rec.inconclusive.append("time budget reached before the crossing family was finished")
                                    return
                                seq = [obj] + ([pre] if pre else []) + [m1, ed, last]
                                run_sequence(rec, base, seq, twin)
        for n in range(N_RANDOM[ctx.tier]):
            if rec.out_of_time():
                break
            base = rng.choice(list(BASES))
            seq = [rng.choice(OPS) for _ in range(rng.randint(8, 40))]
            run_sequence(rec, base, seq, twin, check_all=True)
    finally:
        twin.close()


def replay(w, rec):
    twin = Twin().start()
    try:
        run_sequence(rec, w["base"], w["sequence"], twin, check_all=True)
    finally:
        twin.close()
