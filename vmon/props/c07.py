"""C07 - reported objective value and variable values are self-consistent.

Every solve of a generated problem (convex NLPs feasible and infeasible, LPs
optimal / infeasible / unbounded, constant-only objectives, objectives over a
strict subset of the constraint variables; all methods) is observed: whenever
values and an objective value are returned, the objective value must equal
the *reference* evaluation of the user's objective recipe at those values
(user orientation, constants included) and the keys must be exactly the
problem's variables.  Directed handle-retrieval cases check Solution[...]
for scalars, vectors, slices, reversed slices, rows, columns, transposes,
sub-matrices, diagonals and symmetric matrices against the naming model.
"""
from __future__ import annotations

import warnings

import numpy as np

from .. import solvecheck as SC
from ..recipes import ast as A
from ..recipes import build as B
from ..recipes import lpgen as L
from ..recipes import nlpgen as NG
from ..recipes import ref as R
from .c06 import LP_METHODS, NLP_METHODS, boundary_problem

LEVEL = "exploration"
BUDGET_S = {"quick": 420, "thorough": 1500}
N_RANDOM = {"quick": 16, "thorough": 1000}

HD = [
    {"k": "var", "name": "s"},
    {"k": "vec", "name": "x", "n": 5},
    {"k": "mat", "name": "A", "r": 2, "c": 3},
    {"k": "mat", "name": "G", "r": 3, "c": 3, "sym": True},
    {"k": "var", "name": "x10"},
]
_x, _A, _Gm = ["vec", "x"], ["mat", "A"], ["mat", "G"]
HANDLES = [
    ("scalar", "S", ["var", "s"]),
    ("scalar-x10", "S", ["var", "x10"]),
    ("element", "S", ["el", _x, 3]),
    ("matrix-element", "S", ["mel", _A, 1, 2]),
    ("sym-element-lower", "S", ["mel", _Gm, 2, 0]),
    ("vector", "V", _x),
    ("slice", "V", ["slice", _x, 1, 4, None]),
    ("stepped-slice", "V", ["slice", _x, 0, 5, 2]),
    ("reversed", "V", ["slice", _x, None, None, -1]),
    ("reversed-slice", "V", ["slice", _x, 3, 0, -1]),
    ("row", "V", ["row", _A, 1]),
    ("column", "V", ["col", _A, 2]),
    ("row-of-transpose", "V", ["row", ["T", _A], 2]),
    ("diagonal", "V", ["diag", _Gm]),
    ("diag()", "V", ["diagf", _Gm]),
    ("sym-row", "V", ["row", _Gm, 2]),
    ("sym-column", "V", ["col", _Gm, 0]),
    ("matrix", "M", _A),
    ("transpose", "M", ["T", _A]),
    ("sub-matrix", "M", ["sub", _Gm, 1, 3, 0, 2]),
    ("transpose-of-sub", "M", ["T", ["sub", _A, 0, 2, 1, 3]]),
    ("symmetric", "M", _Gm),
    ("symmetric-transpose", "M", ["T", _Gm]),
]


def info(tier):
    return {
        "level": LEVEL,
        "rule": "generated problems x methods (real solvers, all returned statuses) observed by the consistency oracle; scripted solver results (3 constraint kinds x 2 senses x 5 methods x 6 terminations x 4 kinds of "
        "`fun`: consistent, belonging to another iterate, huge, NaN) through the minimize seam; "
        "%d directed handle-retrieval recipes on solved models with pairwise distinct optimal values, for 3 solver "
        "methods; distinct = canonical (problem, method) hashes" % len(HANDLES),
        "required_cells": ["keys", "objective:optimal", "sense:min", "sense:max", "kind:constant-objective", "kind:objective-subset", "kind:symmetric-matrix-objective", "kind:underscore-names",
                           "kind:lp", "kind:nlp", "history:flip-sense-same-object", "history:parameter-set-then-resolve", "history:parameter-set-then-resolve:deep-objective", "stub:fun-consistent", "stub:fun-stale-iterate", "stub:fun-huge", "stub:fun-nan"] + [f"handle:{h}" for h, _, _ in HANDLES] + ["handle:by-name", "handle:get-default"],
        "assumptions": ["objective compared at rtol 1e-7 (values are float64 round-trips of the solver's point)"],
    }


def solve_and_check(rec, prob, method, kind, opts=None):
    rec.case({"p": prob["objective"], "c": prob.get("constraints"), "d": prob["decls"], "m": method, "s": prob["sense"]})
    show = {"decls": A.render_decls(prob["decls"]), "objective": A.render(prob["objective"]), "sense": prob["sense"],
            "constraints": [A.render(c) for c in prob.get("constraints", [])][:6], "method": method}

    def bad(what, **kw):
        rec.violation(what, {"prob": prob, "method": method, "show": show, **kw})

    try:
        b = B.Builder(prob["decls"])
        P = b.problem(prob)
    except Exception as ex:
        rec.events["unsupported-build:" + type(ex).__name__] += 1
        return
    try:
        with warnings.catch_warnings():
            warnings.simplefilter("ignore")
            sol = P.solve(method=method, **(opts or {}))
    except Exception as ex:
        rec.events[f"solve-raises:{type(ex).__name__}"] += 1
        return
    rec.paths[f"{method}:{sol.status.value}"] += 1
    rec.cmp(1, f"kind:{kind}")
    rec.cmp(1, f"sense:{prob['sense']}")
    SC.consistency(prob, P, sol, rec, bad)
    # the same problem object again (cached data), then the same objective *object* re-set with the opposite sense
    try:
        with warnings.catch_warnings():
            warnings.simplefilter("ignore")
            sol2 = P.solve(method=method, **(opts or {}))
            SC.consistency(prob, P, sol2, rec, lambda what, **kw: bad("second-solve:" + what, **kw))
            flipped = dict(prob, sense="max" if prob["sense"] == "min" else "min")
            (P.maximize if flipped["sense"] == "max" else P.minimize)(P.objective)
            sol3 = P.solve(method=method, **(opts or {}))
            rec.cmp(1, "history:flip-sense-same-object")
            SC.consistency(flipped, P, sol3, rec, lambda what, **kw: bad("after-sense-flip:" + what, **kw))
            sol4 = P.solve(method=method, **(opts or {}))
            SC.consistency(flipped, P, sol4, rec, lambda what, **kw: bad("after-sense-flip-second-solve:" + what, **kw))
    except Exception as ex:
        rec.events[f"re-solve-raises:{type(ex).__name__}"] += 1
    rec.sample(show, cap=3)


def handle_model(rng, method):
    """min sum_v (v - target_v)^2 with pairwise distinct targets, all variables of HD."""
    D = R.Decls(HD)
    names = D.all_var_names()
    targets = {nm: round(0.5 + 0.37 * i + 0.01 * rng.randint(0, 9), 3) for i, nm in enumerate(names)}
    obj = None
    for nm in names:
        if "[" not in nm:
            v = ["var", nm]
        elif "," in nm:
            base, ij = nm[:-1].split("[")
            i, j = ij.split(",")
            v = ["mel", ["mat", base], int(i), int(j)]
        else:
            base, i = nm[:-1].split("[")
            v = ["el", ["vec", base], int(i)]
        t = ["bin", "**", ["bin", "-", v, ["raw", targets[nm], "float"]], ["raw", 2, "int"]]
        obj = t if obj is None else ["bin", "+", obj, t]
    return {"decls": HD, "objective": obj, "sense": "min", "constraints": []}, targets


def run_handles(rec, rng, method):
    D = R.Decls(HD)
    prob, targets = handle_model(rng, method)
    b = B.Builder(HD)
    P = b.problem(prob)
    with warnings.catch_warnings():
        warnings.simplefilter("ignore")
        sol = P.solve(method=method)
    if sol.status.value != "optimal" or any(abs(sol.values.get(n, 1e9) - t) > 1e-3 for n, t in targets.items()):
        rec.noncomp["handle-model-not-solved:" + method] += 1
        return
    it = R.Interp(D, R.SetAlg())
    for hname, kind, node in HANDLES:
        rec.case({"h": hname, "m": method})
        try:
            handle = b.any(node)
            got = sol[handle]
            got2 = sol.get(handle)
        except Exception as ex:
            rec.violation("handle-raises:" + type(ex).__name__, {"handle": hname, "error": repr(ex)[:200], "show": A.render(node)})
            rec.cmp(1, f"handle:{hname}")
            continue
        if kind == "S":
            nm = it.vnames(node[1])[node[2]] if node[0] == "el" else (it.mnames(node[1])[node[2]][node[3]] if node[0] == "mel" else node[1])
            want = np.asarray(sol.values[nm])
        elif kind == "V":
            want = np.array([sol.values[nm] for nm in it.vnames(node)])
        else:
            want = np.array([[sol.values[nm] for nm in row] for row in it.mnames(node)])
        rec.cmp(1, f"handle:{hname}")
        g = np.asarray(got, dtype=float)
        if g.shape != want.shape or not np.array_equal(g, want) or not np.array_equal(np.asarray(got2, dtype=float), want):
            rec.violation("handle-returns-wrong-values", {"handle": hname, "show": A.render(node), "got": g.tolist(), "want": want.tolist(), "method": method})
    # by name and defaults
    rec.cmp(1, "handle:by-name")
    for nm in ("s", "x[2]", "A[1,0]", "G[0,2]"):
        if sol[nm] != sol.values[nm] or sol.get(nm) != sol.values[nm]:
            rec.violation("handle-by-name-wrong", {"name": nm})
    rec.cmp(1, "handle:get-default")
    import optyx

    other = optyx.VectorVariable("not_in_model", 2)
    if sol.get("nope", 7.5) != 7.5 or sol.get(optyx.Variable("nope2")) is not None or sol.get(other, "dflt") != "dflt":
        rec.violation("get-default-wrong", {})
    try:
        sol["nope"]
        rec.violation("missing-key-does-not-raise", {})
    except KeyError:
        pass


def special_problems(rng):
    """constant-only objectives and objectives over a strict subset of the constraint variables"""
    x = ["vec", "x"]
    out = []
    d1 = [{"k": "vec", "name": "x", "n": 3, "lb": 0.0, "ub": 2.0}, {"k": "var", "name": "a", "lb": -1.0, "ub": 1.0}]
    c1 = [["rel", ">=", ["sum", x], ["raw", 1.0, "float"], "direct"], ["rel", "<=", ["bin", "+", ["var", "a"], ["el", x, 0]], ["raw", 1.5, "float"], "direct"]]
    for k in (3.5, -2.0):
        out.append(("constant-objective", {"decls": d1, "objective": ["const", k, "float"], "sense": rng.choice(["min", "max"]), "constraints": c1}))
        out.append(("constant-objective", {"decls": d1, "objective": ["bin", "+", ["const", k, "float"], ["bin", "*", ["raw", 0.0, "float"], ["var", "a"]]],
                                           "sense": rng.choice(["min", "max"]), "constraints": c1}))
    # objective mentions only x[1]; constraints mention everything
    out.append(("objective-subset", {"decls": d1, "objective": ["bin", "+", ["bin", "*", ["raw", 2.0, "float"], ["el", x, 1]], ["raw", 4.25, "float"]],
                                     "sense": "min", "constraints": c1}))
    out.append(("objective-subset", {"decls": d1, "objective": ["bin", "-", ["bin", "**", ["bin", "-", ["el", x, 1], ["raw", 0.5, "float"]], ["raw", 2, "int"]], ["raw", 1.75, "float"]],
                                     "sense": "min", "constraints": c1}))
    out.append(("objective-subset", {"decls": d1, "objective": ["neg", ["bin", "+", ["bin", "**", ["var", "a"], ["raw", 2, "int"]], ["raw", 3.0, "float"]]],
                                     "sense": "max", "constraints": c1}))
    # objectives that reduce a symmetric matrix (every off-diagonal variable occupies two positions)
    Sm = ["mat", "S"]
    d2 = [{"k": "mat", "name": "S", "r": 3, "c": 3, "sym": True, "lb": -2.0, "ub": 3.0}]
    dev = None
    for (i, j), tv in {(0, 0): 1.0, (0, 1): 0.75, (0, 2): -0.5, (1, 1): 1.5, (1, 2): 0.25, (2, 2): 2.0}.items():
        t = ["bin", "**", ["bin", "-", ["mel", Sm, i, j], ["raw", tv, "float"]], ["raw", 2, "int"]]
        dev = t if dev is None else ["bin", "+", dev, t]
    for red in (["msum", Sm], ["fro", Sm], ["msum", ["T", Sm]], ["msum", ["sub", Sm, 0, 2, 0, 3]], ["bin", "**", ["fro", Sm], ["raw", 2, "int"]]):
        out.append(("symmetric-matrix-objective", {"decls": d2, "objective": ["bin", "+", dev, ["bin", "*", ["raw", 0.5, "float"], red]], "sense": "min", "constraints": []}))
    out.append(("symmetric-matrix-objective", {"decls": d2, "objective": ["bin", "-", ["msum", Sm], dev], "sense": "max",
                                               "constraints": [["rel", "<=", ["trace", Sm], ["raw", 4.0, "float"], "direct"]]}))
    # names that start with an underscore, and the fixed-zero helper variables of diag_matrix(): all of them are problem variables
    d3 = [{"k": "var", "name": "_t", "lb": -1.0, "ub": 3.0}, {"k": "var", "name": "__slack", "lb": 0.0}, {"k": "vec", "name": "_w", "n": 2, "lb": 0.0, "ub": 2.0},
          {"k": "vec", "name": "y", "n": 2, "lb": 0.0, "ub": 4.0}]
    t_, s_, w_ = ["var", "_t"], ["var", "__slack"], ["vec", "_w"]
    sqd = lambda e, c: ["bin", "**", ["bin", "-", e, ["raw", c, "float"]], ["raw", 2, "int"]]  # noqa: E731
    out.append(("underscore-names", {"decls": d3, "objective": ["bin", "+", ["bin", "+", sqd(t_, 1.25), ["dot", w_, w_]], ["bin", "*", ["raw", 2.0, "float"], s_]], "sense": "min",
                                     "constraints": [["rel", ">=", ["bin", "+", ["sum", w_], s_], ["raw", 1.0, "float"], "direct"]]}))
    out.append(("underscore-names", {"decls": d3, "objective": ["bin", "+", ["bin", "*", ["raw", 3.0, "float"], t_], ["sum", w_]], "sense": "max",
                                     "constraints": [["rel", "<=", ["bin", "+", t_, ["sum", w_]], ["raw", 2.5, "float"], "direct"]]}))
    Dm = ["dmat", ["vec", "y"]]
    out.append(("underscore-names", {"decls": d3, "objective": ["bin", "+", ["fro", Dm], sqd(["mel", Dm, 1, 1], 2.0)], "sense": "min",
                                     "constraints": [["rel", ">=", ["trace", Dm], ["raw", 1.0, "float"], "direct"]]}))
    out.append(("underscore-names", {"decls": d3, "objective": ["msum", ["mbin", "*", Dm, ["arr2", [[1.0, 2.0], [3.0, 4.0]]]]], "sense": "max",
                                     "constraints": [["rel", "<=", ["msum", Dm], ["raw", 3.0, "float"], "direct"]]}))
    return out


def workload_stub(ctx, rec):
    """Scripted solver results whose `fun` does not belong to the returned `x` (SciPy's L-BFGS-B does this after an abnormal line
    search: x = last accepted iterate, fun = last evaluated value): the reported objective value must still be the objective at
    the returned values, in the user's orientation."""
    from scipy.optimize import OptimizeResult

    from ..monitors.seams import Seams
    from .c06 import STUB_CONS, STUB_DECLS, STUB_METHODS, STUB_OBJ

    seams = Seams().install()
    try:
        i = 0
        for ck in ("none", "le", "eq"):
            for sense in ("min", "max"):
                for method in STUB_METHODS:
                    for success, msg in ((True, "Optimization terminated successfully"), (False, "ABNORMAL: "), (False, "ABNORMAL_TERMINATION_IN_LNSRCH"),
                                         (False, "Maximum number of iterations has been exceeded."), (False, "Desired error not necessarily achieved due to precision loss."),
                                         (False, "NaN result encountered.")):
                        for fun_kind in ("consistent", "stale-iterate", "huge", "nan"):
                            i += 1
                            if not ctx.mine(i):
                                continue
                            point = (0.5, 0.25) if ck != "eq" else (0.5, 0.25)
                            obj = STUB_OBJ if sense == "min" else ["neg", STUB_OBJ]
                            prob = {"decls": STUB_DECLS, "objective": obj, "sense": sense, "constraints": [STUB_CONS[ck]] if STUB_CONS[ck] else []}
                            f_here = (point[0] - 2.0) ** 2 + point[1] ** 2  # the minimised function at the returned point
                            fun = {"consistent": f_here, "stale-iterate": (1.75 - 2.0) ** 2 + 0.6 ** 2, "huge": -6.7e22, "nan": float("nan")}[fun_kind]
                            script = {"success": success, "message": msg, "x": list(point), "fun": fun_kind, "constraint": ck, "sense": sense, "method": method}
                            rec.case(script)
                            b = B.Builder(STUB_DECLS)
                            P = b.problem(prob)
                            seams.reset()
                            seams.min_stub = lambda call, s=script, f=fun: OptimizeResult(
                                x=np.array(s["x"], dtype=float), success=s["success"], status=0 if s["success"] else 2, message=s["message"], fun=f, nit=3, nfev=9)
                            try:
                                with warnings.catch_warnings():
                                    warnings.simplefilter("ignore")
                                    sol = P.solve(method=method)
                            except Exception as ex:
                                rec.violation("stubbed-solve-raises:" + type(ex).__name__, {"script": script, "error": repr(ex)[:200]})
                                continue
                            finally:
                                seams.min_stub = None
                            rec.cmp(1, f"stub:fun-{fun_kind}")
                            rec.paths[f"stub:{fun_kind}:success={success}->{sol.status.value}"] += 1
                            SC.consistency(prob, P, sol, rec, lambda what, **kw: rec.violation("scripted-result:" + what, {"script": script, "prob": prob, **kw}))
    finally:
        seams.uninstall()


def run_parametric_history(rec, rng, method, deep):
    """solve ; Parameter.set() ; solve on one problem object (objective accumulated over 400+ terms when `deep`): the reported objective
    value must be the objective at the returned values *with the parameter values current at that solve*."""
    import copy

    x = ["vec", "x"]
    decls = [{"k": "vec", "name": "x", "n": 3, "lb": -4.0, "ub": 6.0}, {"k": "par", "name": "price", "val": 2.0}, {"k": "par", "name": "q", "val": 0.5}]

    def sq(e):
        return ["bin", "**", e, ["raw", 2, "int"]]

    obj = ["bin", "*", ["par", "price"], sq(["bin", "-", ["el", x, 0], ["par", "q"]])]
    nterms = rng.choice([405, 430]) if deep else 6
    for i in range(1, nterms):
        v = ["el", x, i % 3]
        t = ["bin", "*", ["raw", 0.01, "float"], sq(["bin", "-", v, ["raw", 0.25 * (i % 7), "float"]])]
        if i % 60 == 11:
            t = ["bin", "*", ["par", "price"], ["bin", "*", ["raw", 0.01, "float"], v]]
        obj = ["bin", "+", obj, t]
    sense = rng.choice(["min", "max"])
    prob = {"decls": decls, "objective": obj if sense == "min" else ["neg", obj], "sense": sense,
            "constraints": [] if method == "L-BFGS-B" else [["rel", ">=", ["sum", x], ["par", "q"], "direct"]]}
    rec.case({"parametric-history": [nterms, sense], "m": method})
    try:
        b = B.Builder(decls)
        P = b.problem(prob)
    except Exception as ex:
        rec.events["unsupported-build:" + type(ex).__name__] += 1
        return
    cur = {"price": 2.0, "q": 0.5}
    for step, upd in enumerate([None, {"price": 5.0, "q": -1.0}, {"price": 0.5, "q": 2.0}]):
        if upd:
            for k_, v_ in upd.items():
                b.params[k_].set(v_)
            cur = dict(upd)
        now = copy.deepcopy(prob)
        for d in now["decls"]:
            if d["k"] == "par":
                d["val"] = cur[d["name"]]
        try:
            with warnings.catch_warnings():
                warnings.simplefilter("ignore")
                sol = P.solve(method=method)
        except Exception as ex:
            rec.events[f"solve-raises:{type(ex).__name__}"] += 1
            return
        rec.cmp(1, "history:parameter-set-then-resolve" + (":deep-objective" if deep else ""))
        show = {"objective": f"price*(x0-q)^2 + {nterms - 1} accumulated terms", "sense": sense, "method": method, "parameters": dict(cur), "solve": step + 1}
        SC.consistency(now, P, sol, rec, lambda what, **kw: rec.violation(("after-set:" if step else "") + what, {"prob": {"decls": now["decls"], "sense": sense, "nterms": nterms}, "method": method, "show": show, **kw}))


def run(ctx, rec):
    rng = ctx.rng
    workload_stub(ctx, rec)
    for i, (m, deep) in enumerate([(m_, d_) for m_ in ("auto", "SLSQP", "L-BFGS-B", "trust-constr") for d_ in (False, True)]):
        if ctx.mine(i + 5):
            run_parametric_history(rec, rng, m, deep)
    for i, m in enumerate(["SLSQP", "L-BFGS-B", "trust-constr", "auto"]):
        if ctx.mine(i):
            run_handles(rec, rng, m)
    i = 10
    for kind, prob in special_problems(rng):
        lp_like = prob["objective"][0] == "const" or kind == "objective-subset"
        for m in ["auto", "SLSQP", "trust-constr", "linprog", "highs-ds", "COBYLA"]:
            i += 1
            if ctx.mine(i):
                solve_and_check(rec, prob, m, kind, {"maxiter": 200} if m == "trust-constr" else None)
    n = 0
    k = ctx.shard
    while n < N_RANDOM[ctx.tier] and not rec.out_of_time():
        n += 1
        k += 1
        which = k % 6
        if which == 0:
            prob, kind, methods = NG.draw_convex(rng), "nlp", NLP_METHODS
        elif which == 1:
            prob, kind, methods = NG.infeasible_variant(rng, NG.draw_convex(rng)), "nlp", NLP_METHODS
        elif which == 2:
            prob, kind, methods = boundary_problem(rng), "nlp", NLP_METHODS
        else:
            prob, kind, methods = L.draw_lp(rng, kind=["optimal", "infeasible", "unbounded"][which - 3]), "lp", LP_METHODS
        ms = [methods[(rng.randrange(len(methods)) + j * 3) % len(methods)] for j in range(3)] if ctx.tier == "quick" else methods
        for m in dict.fromkeys(ms):
            solve_and_check(rec, prob, m, kind, {"maxiter": 200} if m == "trust-constr" else None)


def replay(w, rec):
    if "prob" in w:
        solve_and_check(rec, w["prob"], w["method"], "replay")
    else:
        rec.inconclusive.append("handle cases are deterministic: run ./check C07")


# workloads added after the seventh round of seeded changes (DESIGN section 9): part of the rule of this check
_RULE_ADDENDUM = 'every scalar handle read through [] and get() with and without default, incl. values that are exactly 0.0'
_info_base = info


def info(tier):  # noqa: F811
    d = _info_base(tier)
    d["rule"] = d["rule"] + "; " + _RULE_ADDENDUM
    return d
