"""C03 - compiled gradients / Jacobians are correct in the declared variable order.

Oracle: jet reference.  Observed callables: compile_jacobian(es, V) for
m in {1, 2, 4} rows, compile_gradient(e, V), CompiledExpression(e, V).gradient.
The __name__ of the returned callable (which fast path served the case) is
recorded as evidence only.
"""
from __future__ import annotations

import numpy as np

from .. import exprcase as X
from .. import harness as H
from ..harness import close
from ..recipes import ast as A
from ..recipes import build as B
from ..recipes import gen as G
from ..recipes import ref as R

LEVEL = "exploration"
BUDGET_S = {"quick": 420, "thorough": 1500}
N_RANDOM = {"quick": 1200, "thorough": 30000}
RTOL = 1e-7


def info(tier):
    return {
        "level": LEVEL,
        "rule": "lists of m in {1,2,4} scalar recipes (directed: every family x 4 V-relations with m=1, every family "
        "paired with other rows for m=2/4; random grammar) ; every entry of compile_jacobian / compile_gradient / "
        "CompiledExpression.gradient output at 3 regular points vs the jet reference; non-trivial = >=2 operator "
        "nodes in total; distinct = canonical (recipes, V) hashes",
        "required_cells": [f"{fam}|{v}|m=1" for fam, _ in X.directed_families() for v in X.VRELS]
        + [f"m={m}|{v}" for m in (2, 4) for v in X.VRELS] + [f"shared-subexpressions|{v}" for v in X.VRELS] + [f"deep-unary:{f}" for f in R.FUNCS],
        "assumptions": ["regular points only (margin >= 1e-2)", "jet reference validated by selftest"],
    }


def combined(nodes):
    n = nodes[0]
    for x in nodes[1:]:
        n = ["bin", "+", n, x]
    return n


def make_case(rng, decls, nodes, vrel, family):
    c = X.finish_case(rng, decls, combined(nodes), vrel, family)
    if c is None:
        return None
    c["nodes"] = nodes
    del c["node"]
    return c


def run_case(case, rec):
    from optyx.core import autodiff as AD
    from optyx.core import compiler as C

    decls, nodes, V = case["decls"], case["nodes"], case["V"]
    D = R.Decls(decls)
    m = len(nodes)
    fam, vrel = case["family"], case["vrel"]
    cell = f"{fam}|{vrel}|m=1" if m == 1 else f"m={m}|{vrel}"
    B.SHARE[0] = bool(case.get("share"))
    H.SCALE_INV[0] = float(case.get("inv_scale", 1.0))
    if B.SHARE[0]:
        cell = f"shared-subexpressions|{vrel}"
    rec.case({"d": decls, "n": nodes, "V": V, "s": B.SHARE[0]}, nontrivial=sum(A.n_ops(n) for n in nodes) >= 2)
    try:
        b = B.Builder(decls)
        es = [b.S(n) for n in nodes]
    except Exception as ex:
        rec.events["unsupported-build:" + type(ex).__name__] += 1
        return
    Vobjs = b.variables(V)
    show = {"decls": A.render_decls(decls), "exprs": [A.render(n) for n in nodes], "V": V}

    def bad(route, what, pt=None, ij=None, got=None, want=None, ex=None):
        rec.violation(f"{route}:{what}", {"case": case, "route": route, "entry": ij, "point": pt, "got": got,
                                          "want": want, "error": repr(ex)[:300] if ex is not None else None, "show": show})

    fns = {}
    try:
        fns["compile_jacobian"] = AD.compile_jacobian(es, Vobjs)
        rec.paths["jacobian:" + fns["compile_jacobian"].__name__ + "|" + vrel] += 1
    except Exception as ex:
        bad("compile_jacobian", "raises:" + type(ex).__name__, ex=ex)
    if m == 1:
        try:
            fns["compile_gradient"] = C.compile_gradient(es[0], Vobjs)
            rec.paths["gradient:" + fns["compile_gradient"].__name__ + "|" + vrel] += 1
        except Exception as ex:
            bad("compile_gradient", "raises:" + type(ex).__name__, ex=ex)
        try:
            fns["CompiledExpression.gradient"] = C.CompiledExpression(es[0], Vobjs).gradient
        except Exception as ex:
            bad("CompiledExpression.gradient", "raises:" + type(ex).__name__, ex=ex)
    rec.cmp(1, cell) if not fns else None

    # the same expression objects compiled again for another order of the same variables
    n = len(V)
    if n >= 2 and "compile_jacobian" in fns:
        V2 = list(reversed(V)) if n == 2 else V[1:] + V[:1]
        pt = case["points"][0]
        try:
            V2o = b.variables(V2)
            got2 = np.asarray(AD.compile_jacobian(es, V2o)(B.point_array(V2, pt)), dtype=float)
            jets2 = [R.ref_jet(D, nd, V2, pt, order=1) for nd in nodes]
            want2 = np.array([j.g for j, _ in jets2])
            mag2 = max(max(t.mag, t.dmag) for _, t in jets2)

            def agree(a_, b_):
                # entries equal in the variable order V2 (same tolerance rule as the main comparison; a mismatch here means
                # entries in the wrong columns, which is O(1) relative, not float noise)
                return a_.shape == b_.shape and all(close(x_, y_, 1e-6, mag2)[0] for x_, y_ in zip(a_.reshape(-1), b_.reshape(-1)))

            rec.cmp(m * n, cell)
            if not agree(got2, want2):
                bad("compile_jacobian", "second-variable-order-on-same-expressions:mismatch", pt, got=got2.tolist(), want=want2.tolist())
            if m == 1:
                g2 = np.asarray(C.compile_gradient(es[0], V2o)(B.point_array(V2, pt)), dtype=float).reshape(-1)
                if not agree(g2, want2[0]):
                    bad("compile_gradient", "second-variable-order-on-same-expression:mismatch", pt, got=g2.tolist(), want=want2[0].tolist())
        except Exception as ex:
            bad("compile_jacobian", "second-variable-order-raises:" + type(ex).__name__, ex=ex)

    # the variable list given as *other objects of the same names* (the model declared a second time in a helper, a copy, a hand-made
    # Variable("x[2]")): a variable is identified by its name, so the derivative callables must be the same
    if "compile_jacobian" in fns:
        pt = case["points"][0]
        try:
            import optyx

            b3 = B.Builder(decls)
            V3 = [vo if i % 2 else optyx.Variable(nm) for i, (nm, vo) in enumerate(zip(V, b3.variables(V)))]
            jets3 = [R.ref_jet(D, nd, V, pt, order=1) for nd in nodes]
            want3 = np.array([j.g for j, _ in jets3])
            mag3 = max(max(t.mag, t.dmag) for _, t in jets3)
            routes3 = [("compile_jacobian", lambda: AD.compile_jacobian(es, V3)(B.point_array(V, pt)), want3),
                       ("compute_jacobian", lambda: [[float(np.asarray(g.evaluate(dict(pt))).reshape(-1)[0]) for g in row] for row in AD.compute_jacobian(es, V3)], want3)]
            if m == 1:
                routes3.append(("compile_gradient", lambda: C.compile_gradient(es[0], V3)(B.point_array(V, pt)), want3[0]))
            for rname, call, w3 in routes3:
                got3 = np.asarray(call(), dtype=float).reshape(w3.shape)
                rec.cmp(w3.size, cell)
                rec.events["equal-named-object-comparisons"] += 1
                if not all(close(x_, y_, 1e-6, mag3)[0] for x_, y_ in zip(got3.reshape(-1), w3.reshape(-1))):
                    bad(rname, "variables-given-as-equal-named-other-objects:mismatch", pt, got=got3.tolist(), want=w3.tolist())
        except Exception as ex:
            bad("compile_jacobian", "variables-given-as-equal-named-other-objects:raises:" + type(ex).__name__, ex=ex)

    nbad, worst = {}, {}
    for pt in case["points"]:
        x = B.point_array(V, pt)
        want = np.zeros((m, n))
        mag = 0.0
        for i, nd in enumerate(nodes):
            j, t = R.ref_jet(D, nd, V, pt, order=1)
            want[i] = j.g
            mag = max(mag, t.mag, t.dmag)
        for route, fn in fns.items():
            try:
                got = np.asarray(fn(x.copy()), dtype=float)
            except Exception as ex:
                bad(route, "call-raises:" + type(ex).__name__, pt, ex=ex)
                rec.cmp(1, cell)
                continue
            shape = (m, n) if route == "compile_jacobian" else (n,)
            if got.shape != shape:
                bad(route, "wrong-shape", pt, got=list(got.shape), want=list(shape))
                rec.cmp(1, cell)
                continue
            got2 = got.reshape(m, n)
            for i in range(m):
                for jx in range(n):
                    ok, d = close(got2[i, jx], want[i, jx], RTOL, mag)
                    rec.disc("jacobian", d if ok else 0.0)
                    if not ok:
                        key = (route, i, jx)
                        nbad[key] = nbad.get(key, 0) + 1
                        if d > worst.get(key, (0, None))[0]:
                            worst[key] = (d, (pt, float(got2[i, jx]), float(want[i, jx])))
            rec.cmp(m * n, cell)
    # results kept by the caller must not be overwritten by later calls of the same callable
    if len(case["points"]) >= 2 and not nbad:
        for route, fn in fns.items():
            try:
                kept = []
                for pt in case["points"]:
                    r_ = fn(B.point_array(V, pt))
                    kept.append((r_, np.array(r_, dtype=float, copy=True)))
                rec.cmp(len(kept), cell)
                rec.events["retained-result-checks"] += len(kept)
                for r_, snap in kept:
                    if not np.array_equal(np.asarray(r_, dtype=float), snap, equal_nan=True):
                        bad(route, "returned-array-overwritten-by-a-later-call", case["points"][0], got=np.asarray(r_, dtype=float).reshape(-1).tolist(), want=snap.reshape(-1).tolist())
                        break
            except Exception as ex:
                bad(route, "call-raises:" + type(ex).__name__, case["points"][0], ex=ex)
    # the caller's point buffer reused: one ndarray updated in place between calls to the same callables
    if len(case["points"]) >= 2 and not nbad:
        buf = B.point_array(V, case["points"][0]).copy()
        live = dict(fns)
        for pt in list(case["points"]) + [case["points"][0]]:
            buf[:] = B.point_array(V, pt)
            jets = [R.ref_jet(D, nd, V, pt, order=1) for nd in nodes]
            want = np.array([j.g for j, _ in jets])
            mag = max(max(t.mag, t.dmag) for _, t in jets)
            for route, fn in list(live.items()):
                try:
                    got = np.asarray(fn(buf), dtype=float).reshape(m, n)
                except Exception as ex:
                    bad(route, "same-buffer-call-raises:" + type(ex).__name__, pt, ex=ex)
                    live.pop(route)
                    continue
                rec.cmp(m * n, cell)
                rec.events["same-buffer-comparisons"] += 1
                if not all(close(g_, w_, RTOL, mag)[0] for g_, w_ in zip(got.reshape(-1), want.reshape(-1))):
                    bad(route, "stale-or-wrong-after-in-place-update-of-the-point-buffer", pt, got=got.tolist(), want=want.tolist())
                    live.pop(route)
    forms = X.other_point_forms(case, margin=1e-2) if not nbad else None
    if forms is not None:
        pt, reps = forms
        jets = [R.ref_jet(D, nd, V, pt, order=1) for nd in nodes]
        if all(t.regular() for _, t in jets) and all(np.all(np.isfinite(j.g)) for j, _ in jets):
            want = np.array([j.g for j, _ in jets])
            mag = max(max(t.mag, t.dmag) for _, t in jets)
            for label, xrep in reps:
                for route, fn in fns.items():
                    try:
                        with np.errstate(all="ignore"):
                            got = np.asarray(fn(xrep), dtype=float).reshape(m, n)
                    except Exception as ex:  # NumPy's own integer-arithmetic refusals: not a result, not judged
                        rec.events[f"point-form-refused:{label}:{type(ex).__name__}"] += 1
                        continue
                    rec.cmp(m * n, cell)
                    rec.events["point-form-comparisons:" + label] += 1
                    if not all(close(g_, w_, RTOL, mag)[0] for g_, w_ in zip(got.reshape(-1), want.reshape(-1))):
                        bad(route, "result-depends-on-the-dtype-of-the-point:" + label, pt, got=got.tolist(), want=want.tolist())
    # parameters updated after compilation: the callables compiled above must follow the current values
    if b.params and any(x[0] in ("par", "pel") for nd in nodes for x in A.walk(nd)):
        pn_all = sorted(b.params)
        newvals = {pn: [0.75, -1.25, 2.25, 0.5, 0.0, 1.0][(i + len(V)) % 6] for i, pn in enumerate(pn_all)}
        for pn, nv in newvals.items():
            b.params[pn].set(nv)
        pt = case["points"][0]
        x = B.point_array(V, pt)
        jets = [R.ref_jet(D, nd, V, pt, order=1, params=newvals) for nd in nodes]
        if all(t.regular() for _, t in jets):
            want = np.array([j.g for j, _ in jets])
            mag = max(max(t.mag, t.dmag) for _, t in jets)
            for route, fn in fns.items():
                try:
                    got = np.asarray(fn(x.copy()), dtype=float).reshape(m, n)
                except Exception as ex:
                    bad(route, "after-set-call-raises:" + type(ex).__name__, pt, ex=ex)
                    continue
                rec.cmp(m * n, cell)
                rec.events["after-set-comparisons"] += 1
                if not all(close(g_, w_, RTOL, mag)[0] for g_, w_ in zip(got.reshape(-1), want.reshape(-1))):
                    bad(route, "after-set:mismatch", pt, got=got.tolist(), want=want.tolist())
    seen_routes = set()
    for key, k in nbad.items():
        if (k >= 2 or worst[key][0] > 1e-3) and key[0] not in seen_routes:
            seen_routes.add(key[0])
            pt, got, want = worst[key][1]
            bad(key[0], "mismatch", pt, [key[1], V[key[2]]], got, want)
    rec.sample(show)


def run_handwritten(rec, name, build, pt, value, partials):
    from optyx.core import autodiff as AD
    from optyx.core import compiler as C

    rec.case({"handwritten": name})
    cell = "handwritten:" + name
    show = {"case": name, "point": pt, "expected": partials}
    for order in ("declared", "reversed"):
        e, _wrt = build()
        # compiled callables need every variable of the expression in the list; entries whose partial is not defined are not judged
        V = sorted(e.get_variables(), key=lambda v: v.name)
        if order == "reversed":
            V = list(reversed(V))
        x = np.array([pt[v.name] for v in V], dtype=float)
        judged = [i for i, v in enumerate(V) if v.name in partials]
        want = np.array([partials[V[i].name] for i in judged])
        for route, mk in (("compile_jacobian", lambda: AD.compile_jacobian([e], V)), ("compile_gradient", lambda: C.compile_gradient(e, V)),
                          ("CompiledExpression.gradient", lambda: C.CompiledExpression(e, V).gradient)):
            rec.cmp(len(V), cell)
            try:
                with np.errstate(all="ignore"):
                    got = np.asarray(mk()(x), dtype=float).reshape(-1)[judged]
            except Exception as ex:
                rec.violation(f"{route}:raises:{type(ex).__name__}", {"show": show, "error": repr(ex)[:200]})
                continue
            if got.shape != want.shape or not all(close(g_, w_, RTOL, 10.0)[0] for g_, w_ in zip(got, want)):
                rec.violation(f"{route}:mismatch", {"show": show, "order": order, "got": got.tolist(), "want": want.tolist()})


def run(ctx, rec):
    rng = ctx.rng
    for i_, (name, build, pt, value, partials) in enumerate(X.handwritten_cases()):
        if ctx.mine(i_ + 7):
            run_handwritten(rec, name, build, pt, value, partials)
    fams = X.directed_families()
    i = 0
    for fam, node in fams:
        for vrel in X.VRELS:
            i += 1
            if ctx.mine(i):
                c = make_case(rng, X.D0, [node], vrel, fam)
                if c is not None:
                    run_case(c, rec)
                    if i % 3 == 0:
                        rec.events["twin-named-cases"] += 1
                        run_case(X.twin_named_case(c), rec)
                if i % 2 == 0:
                    # rows that share sub-expression objects with each other and within themselves
                    rows = [X.dag_variant(node, (i // 2) % 4), X.dag_variant(node, (i // 2 + 1) % 4), node][: 1 + (i // 2) % 3]
                    c = make_case(rng, X.D0, rows, vrel, fam)
                    if c is not None:
                        c["share"] = True
                        run_case(c, rec)
    # term-by-term accumulations beyond the switch depth, one per unary function (the iterative differentiator's own chain rules)
    for k, f in enumerate(R.FUNCS):
        i += 1
        if not ctx.mine(i):
            continue
        a_, b_ = ["var", "a"], ["var", "b"]

        def arg(t):
            v = a_ if t % 2 == 0 else b_
            if f in ("log", "log2", "log10", "sqrt", "acosh"):
                return ["bin", "+", ["bin", "*", v, v], ["raw", 1.5 + 0.01 * (t % 5), "float"]]
            if f in ("asin", "acos", "atanh"):
                return ["bin", "*", ["fn", "tanh", v], ["raw", 0.9, "float"]]
            return ["bin", "*", v, ["raw", 0.5 + 0.01 * (t % 5), "float"]]

        node = ["bin", "*", ["raw", 0.01, "float"], ["fn", f, arg(0)]]
        for t in range(1, 404 + k % 3):
            node = ["bin", "+-"[t % 2], node, ["bin", "*", ["raw", 0.01, "float"], ["fn", f, arg(t)]]]
        try:
            c = make_case(rng, X.D0, [node], X.VRELS[k % 4], "deep-unary")
        except (R.ShapeError, R.OutOfModel):
            c = None
        if c is not None:
            c["family"] = "deep-unary"
            run_case(c, rec)
            rec.cmp(1, "deep-unary:" + f)
    # numerically special data (tiny-scale coefficient arrays, constants near 0 / 1, exponents near integers)
    for k, (fam, node, inv) in enumerate(X.special_families()):
        for vrel in ("exact", "superset_permuted"):
            i += 1
            if not ctx.mine(i):
                continue
            rows = [node] if k % 2 == 0 else [node, ["bin", "*", ["raw", 2.0, "float"], node]]
            try:
                c = make_case(rng, X.D0, rows, vrel, "special:" + fam.split(":")[0])
            except (R.ShapeError, R.OutOfModel):
                c = None
            if c is not None:
                c["inv_scale"] = inv
                run_case(c, rec)
    H.SCALE_INV[0] = 1.0
    # directed multi-row Jacobians: every family appears in some m=2 and m=4 list
    for k, (fam, node) in enumerate(fams):
        for m in (2, 4):
            i += 1
            if not ctx.mine(i):
                continue
            others = [fams[(k + 7 * s + 3) % len(fams)][1] for s in range(1, m)]
            rows = [node] + others
            rng.shuffle(rows)
            c = make_case(rng, X.D0, rows, X.VRELS[(k + m) % 4], "multi")
            if c is not None:
                run_case(c, rec)
    n = 0
    while n < N_RANDOM[ctx.tier] and not rec.out_of_time():
        n += 1
        g = G.Gen(rng, params=(n % 5 == 0))
        m = rng.choice([1, 1, 2, 4])
        nodes = [g.scalar() for _ in range(m)]
        try:
            c = make_case(rng, g.decls, nodes, rng.choice(X.VRELS), "random")
        except (R.ShapeError, R.OutOfModel):
            c = None
        if c is None:
            rec.events["no-regular-point-or-no-vars"] += 1
            continue
        run_case(c, rec)
        if n % 6 == 0:
            rows = [X.dag_variant(nodes[0], n % 4)] + nodes[1:] + [nodes[0]]
            try:
                c2 = make_case(rng, g.decls, rows[: rng.choice([1, 2, 4])], c["vrel"], "random")
            except (R.ShapeError, R.OutOfModel):
                c2 = None
            if c2 is not None:
                c2["share"] = True
                run_case(c2, rec)


def replay(w, rec):
    run_case(w["case"], rec)


# workloads added after the seventh round of seeded changes (DESIGN section 9): part of the rule of this check
_RULE_ADDENDUM = 'the variable list also given as other objects of the same names; every third directed case under zero-padded twin names'
_info_base = info


def info(tier):  # noqa: F811
    d = _info_base(tier)
    d["rule"] = d["rule"] + "; " + _RULE_ADDENDUM
    return d
