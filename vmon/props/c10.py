"""C10 - constraints mean the relation the user wrote, also inside the solver.

Workload: an enumerated operand-kind matrix {lhs kind} x {rhs kind} x
{<=, >=, ==} x {direct, reflected spelling} plus shape mismatches, and random
relations between generated expressions.  Oracle: reference values of lhs and
rhs per element; the constraint dicts optyx hands to SciPy are captured at
the `minimize` seam (stubbed solver) and probed at random points on both
sides of the boundary; their Jacobians are compared with the jet gradient of
the function they accompany.
"""
from __future__ import annotations

import numpy as np
from scipy.optimize import OptimizeResult

from ..harness import close
from ..monitors.seams import Seams
from .. import exprcase as X
from ..recipes import ast as A
from ..recipes import build as B
from ..recipes import gen as G
from ..recipes import ref as R

LEVEL = "exploration"
BUDGET_S = {"quick": 420, "thorough": 1500}
N_RANDOM = {"quick": 500, "thorough": 15000}

DV = [
    {"k": "var", "name": "a"},
    {"k": "var", "name": "b"},
    {"k": "par", "name": "p", "val": 1.5},
    {"k": "vpar", "name": "w", "vals": [1.0, 0.5, -2.0]},
    {"k": "vec", "name": "x", "n": 3},
    {"k": "vec", "name": "y", "n": 3},
    {"k": "vec", "name": "z", "n": 2},
    {"k": "mat", "name": "A", "r": 2, "c": 2},
    {"k": "mat", "name": "B", "r": 2, "c": 2},
    {"k": "mat", "name": "C", "r": 2, "c": 3},
]
_a, _b, _p = ["var", "a"], ["var", "b"], ["par", "p"]
_x, _y, _z = ["vec", "x"], ["vec", "y"], ["vec", "z"]
_A, _Bm, _C = ["mat", "A"], ["mat", "B"], ["mat", "C"]

LHS = {
    "Variable": ("S", _a),
    "Expression": ("S", ["bin", "+", ["bin", "*", _a, ["raw", 2.0, "float"]], ["fn", "sin", _b]]),
    "VectorVariable": ("V", _x),
    "VectorSlice": ("V", ["slice", _x, None, None, -1]),
    "VectorExpression": ("V", ["vbin", "-", ["vbin", "*", _x, ["raw", 2.0, "float"]], _y]),
    "MatrixVariable": ("M", _A),
    "MatrixExpression": ("M", ["mbin", "+", _A, ["mbin", "*", _Bm, ["raw", 0.5, "float"]]]),
}
SCALAR_RHS = {
    "int": ["raw", 2, "int"],
    "float": ["raw", 0.75, "float"],
    "bool": ["raw", True, "bool"],
    "npf64": ["raw", 1.25, "npf64"],
    "npi64": ["raw", 1, "npi64"],
    "npf32": ["raw", 0.5, "npf32"],
    "arr0d": ["raw", 0.25, "arr0d"],
    # narrow NumPy scalar types: the relation is between *numbers*, not between values squeezed into the operand's dtype
    "npf16": ["raw", 2048, "npf16"],
    "npu8": ["raw", 5, "npu8"],
    "npi8": ["raw", 100, "npi8"],
    "npu16": ["raw", 40000, "npu16"],
}
NARROW_POINTS = [2049.0, 3.0, 200.0, 40001.5, -7.0, 2047.0]
RHS = {
    "S": {**SCALAR_RHS, "Variable": _b, "Parameter": _p, "Expression": ["bin", "-", ["bin", "**", _b, ["raw", 2, "int"]], ["raw", 1.0, "float"]],
          "Constant": ["const", 1.5, "float"]},
    "V": {**SCALAR_RHS, "VectorVariable": _y, "VectorExpression": ["vbin", "+", _y, ["raw", 1.0, "float"]],
          "arr": ["arr", [0.5, -1.0, 2.0]], "arr-int": ["arr", [1, 0, 2]], "list": ["list", [0.5, -1.0, 2.0]],
          "arr-strided-view": ["arr", [0.5, -1.0, 2.0], "strided"], "arr-reversed-view": ["arr", [0.5, -1.0, 2.0], "fliplr"],
          "arr-uint8": ["arr", [1, 0, 2], "uint8"], "arr-int8": ["arr", [1, -3, 2], "int8"], "tuple": ["tuple", [0.5, -1.0, 2.0]],
          "MISMATCH:VectorVariable": _z, "MISMATCH:arr": ["arr", [1.0, 2.0]], "MISMATCH:list": ["list", [1.0, 2.0, 3.0, 4.0]],
          "MISMATCH:VectorExpression": ["vbin", "*", _z, ["raw", 2.0, "float"]], "MISMATCH:arr2": ["arr2", [[1.0, 2.0, 3.0]]]},
    "M": {**SCALAR_RHS, "MatrixVariable": _Bm, "MatrixExpression": ["mbin", "-", _Bm, ["raw", 1.0, "float"]],
          "arr2": ["arr2", [[0.5, -1.0], [2.0, 0.0]]], "arr2-fortran-order": ["arr2", [[0.5, -1.0], [2.0, 0.0]], "F"],
          "arr2-transposed-view": ["arr2", [[0.5, -1.0], [2.0, 0.0]], "T"], "arr2-flipud-view": ["arr2", [[0.5, -1.0], [2.0, 0.0]], "flipud"],
          "arr2-strided-view": ["arr2", [[0.5, -1.0], [2.0, 0.0]], "strided"], "arr2-int8": ["arr2", [[1, -1], [2, 0]], "int8"],
          "list2": ["list2", [[0.5, -1.0], [2.0, 0.0]]], "MISMATCH:MatrixVariable": _C,
          "MISMATCH:arr2": ["arr2", [[1.0, 2.0, 3.0], [4.0, 5.0, 6.0]]], "MISMATCH:MatrixExpression": ["mbin", "*", _C, ["raw", 2.0, "float"]]},
}
SENSES = ["<=", ">=", "=="]


def matrix_cases():
    out = []
    for lname, (kind, lhs) in LHS.items():
        for rname, rhs in RHS[kind].items():
            for s in SENSES:
                for form in ("direct", "reflected"):
                    if s == "==" and form == "reflected":
                        continue
                    out.append((f"{lname} {s} {rname} [{form}]", ["rel", s, lhs, rhs, form], rname.startswith("MISMATCH")))
    return out


def info(tier):
    return {
        "level": LEVEL,
        "rule": "operand-kind matrix (%d relations: 7 lhs kinds x rhs kinds x 3 senses x direct/reflected, with every shape "
        "mismatch) + random relations between generated expressions; per relation: number/type/pairing of element "
        "constraints, is_satisfied and violation at 4 points off the boundary, and the SciPy constraint dicts captured at "
        "the minimize seam probed at 6 points (fun sign pattern, fun value, jac vs jet gradient); distinct = canonical "
        "relation hashes" % len(matrix_cases()),
        "required_cells": sorted({c for c, _, _ in matrix_cases()}) + ["multi-relation-problem", "history:objective-swap-keeps-constraints", "history:parameter-set-between-solves"],
        "assumptions": ["probe points keep |lhs-rhs| >= 1e-3 (the relation is decided away from the boundary)",
                        "a relation the API rejects with an exception is 'unsupported' unless it is a shape mismatch, where rejection is required"],
    }


def elem_values(D, rel, alg):
    """reference lhs_k - rhs_k per element (row-major), NumPy shape rule."""
    it = R.Interp(D, alg)
    from ..recipes.ast import MATRIX_KINDS, VECTOR_KINDS

    def side(n):
        if n[0] in MATRIX_KINDS:
            m = it.M(n)
            return ("M", (len(m), len(m[0])), [v for row in m for v in row])
        if n[0] in VECTOR_KINDS:
            v = it.V(n)
            return ("V", (len(v),), list(v))
        return ("S", (), [it.S(n)])

    lk, lshape, L = side(rel[2])
    rk, rshape, Rr = side(rel[3])
    if lk != "S" and rk != "S" and lshape != rshape:
        raise R.ShapeError(f"{lshape} vs {rshape}")
    if rk == "S":
        Rr = Rr * len(L)
    if lk == "S" and rk != "S":
        L = L * len(Rr)
    return [(l, r) for l, r in zip(L, Rr)]


def run_rel(rec, rng, cell, rel, decls, expect_mismatch, seams):
    import optyx

    D = R.Decls(decls)
    rec.case({"r": rel, "d": decls}, nontrivial=True)
    show = {"decls": A.render_decls(decls), "relation": A.render(rel)}
    s = rel[1]

    def bad(what, **kw):
        rec.violation(what, {"cell": cell, "rel": rel, "decls": decls, "show": show, **kw})

    names = D.all_var_names()
    pv = D.param_values()
    try:
        elem_values(D, rel, R.FloatAlg({n: 1.0 for n in names}, pv))
        ref_mismatch = False
    except R.ShapeError:
        ref_mismatch = True
    except R.OutOfModel:
        rec.events["out-of-model"] += 1
        return
    if expect_mismatch is not None and expect_mismatch != ref_mismatch:
        rec.inconclusive.append(f"harness self-check: {cell}: expected mismatch={expect_mismatch}, reference says {ref_mismatch}")
        return
    try:
        b = B.Builder(decls)
        cons = b.rel(rel)
        built = True
    except Exception as ex:
        built = False
        rec.events[("rejected-mismatch:" if ref_mismatch else "unsupported-build:") + type(ex).__name__] += 1
    rec.cmp(1, cell)
    if not built:
        return
    if ref_mismatch:
        bad("shape-mismatch-accepted-silently", got=repr(cons)[:200])
        return
    clist = cons if isinstance(cons, list) else [cons]
    if not all(isinstance(c, optyx.Constraint) for c in clist):
        bad("comparison-did-not-yield-constraints", got=repr(type(cons)) + repr(cons)[:100])
        return

    # points off the boundary
    pts = []
    tries = 0
    narrow = any(x[0] == "raw" and len(x) > 2 and x[2] in ("npf16", "npu8", "npi8", "npu16") for x in (rel[2], rel[3]))
    while len(pts) < (8 if narrow else 4) and tries < 80:
        tries += 1
        pt = {n: round(rng.uniform(-2.0, 2.5), 3) for n in names}
        if narrow and tries <= len(NARROW_POINTS):
            pt = {n: NARROW_POINTS[tries - 1] + 0.25 * i for i, n in enumerate(names)}
        alg = R.FloatAlg(pt, pv)
        vals = [(float(l), float(r)) for l, r in elem_values(D, rel, alg)]
        if all(np.isfinite(l) and np.isfinite(r) and abs(l - r) >= 1e-3 for l, r in vals) and alg.t.regular(1e-3, 1e12 if narrow else 1e6):
            pts.append((pt, vals))
    if not pts:
        rec.noncomp["no-off-boundary-point"] += 1
        return
    n_el = len(pts[0][1])
    rec.cmp(1, cell)
    if len(clist) != n_el:
        bad("wrong-number-of-element-constraints", got=len(clist), want=n_el)
        return
    rtol = 2e-6 if any(x[0] in ("raw", "const") and len(x) > 2 and x[2] == "npf32" for x in A.walk(rel)) else 1e-9
    for pt, vals in pts:
        for k, (c, (l, r)) in enumerate(zip(clist, vals)):
            d = l - r
            want_viol = max(0.0, d) if s == "<=" else (max(0.0, -d) if s == ">=" else abs(d))
            want_sat = want_viol == 0.0
            try:
                got_viol = float(c.violation(dict(pt)))
                got_sat = bool(c.is_satisfied(dict(pt)))
            except Exception as ex:
                bad("violation-raises:" + type(ex).__name__, error=repr(ex)[:200], element=k)
                return
            rec.cmp(2, cell)
            ok, dd = close(got_viol, want_viol, rtol, abs(l) + abs(r))
            if not ok:
                bad("violation-amount-wrong", element=k, point=pt, got=got_viol, want=want_viol, lhs=l, rhs=r)
                return
            if got_sat != want_sat:
                bad("is_satisfied-wrong", element=k, point=pt, got=got_sat, want=want_sat, lhs=l, rhs=r)
                return

    # ---- what SciPy is handed: capture the dicts at the minimize seam ---------
    used = set()
    for side in (rel[2], rel[3]):
        if side[0] == "raw":
            continue
        kind = "S" if side[0] in A.SCALAR_KINDS else ("V" if side[0] in A.VECTOR_KINDS else "M")
        used |= R.ref_vars(D, side, kind)
    if not used:
        return
    V = R.natural_sorted(used)
    objvar = b.variables([V[0]])[0]
    P = optyx.Problem().minimize((objvar - 0.5) ** 2).subject_to(cons)
    seams.reset()
    seams.min_stub = lambda call: OptimizeResult(x=np.array(call["x0"], dtype=float), success=False, status=9, message="stubbed", fun=0.0, nit=0)
    try:
        # start (and, with the stub, end) at a regular point: the post-solve feasibility loop evaluates there
        P.solve(method="SLSQP", x0=B.point_array(V, pts[0][0]))
    except Exception as ex:
        bad("solve-with-constraints-raises:" + type(ex).__name__, error=repr(ex)[:300])
        return
    finally:
        seams.min_stub = None
    if len(seams.min_calls) != 1:
        bad("minimize-seam-not-reached", got=len(seams.min_calls))
        return
    dicts = list(seams.min_calls[0]["constraints"] or [])
    pnames = [v.name for v in P.variables]
    rec.cmp(1, cell)
    if len(dicts) != n_el:
        bad("wrong-number-of-scipy-constraints", got=len(dicts), want=n_el)
        return
    if pnames != V:
        bad("problem-variables-differ-from-mentioned", got=pnames, want=V)
        return
    for _ in range(6):
        pt = {n: round(rng.uniform(-2.0, 2.5), 3) for n in names}
        jalg = R.JetAlg(1, V, pt, pv)
        try:
            jv = elem_values(D, rel, jalg)
        except Exception:
            continue
        if not jalg.t.regular(1e-3):
            continue
        x = B.point_array(V, pt)
        for k, (dct, (l, r)) in enumerate(zip(dicts, jv)):
            diff = jalg.sub(l, r)
            d = float(diff.v)
            if not np.isfinite(d):
                continue
            want_type = "eq" if s == "==" else "ineq"
            if dct.get("type") != want_type:
                bad("scipy-constraint-type-wrong", element=k, got=dct.get("type"), want=want_type)
                return
            try:
                f = float(dct["fun"](x.copy()))
                jac = np.asarray(dct["jac"](x.copy()), dtype=float).reshape(-1)
            except Exception as ex:
                bad("scipy-constraint-callable-raises:" + type(ex).__name__, error=repr(ex)[:200], element=k)
                return
            rec.cmp(2, cell)
            sign = -1.0 if s == "<=" else 1.0
            if s == "==":
                sign = 1.0 if abs(f - d) <= abs(f + d) else -1.0
            ok, dd = close(f, sign * d, rtol, jalg.t.mag)
            rec.disc("scipy-fun", dd if ok else 0.0)
            if not ok:
                bad("scipy-fun-is-not-the-signed-difference", element=k, point=pt, got=f, want=sign * d)
                return
            if abs(d) > 1e-6 and s != "==" and (f >= 0) != ((d <= 0) if s == "<=" else (d >= 0)):
                bad("scipy-fun-sign-pattern-wrong", element=k, point=pt, got=f, lhs_minus_rhs=d)
                return
            wantj = sign * diff.g
            if jac.shape != wantj.shape:
                bad("scipy-jac-wrong-shape", element=k, got=list(jac.shape), want=list(wantj.shape))
                return
            for j in range(len(V)):
                ok, dd = close(jac[j], wantj[j], max(rtol, 1e-7), max(jalg.t.mag, jalg.t.dmag))
                if not ok:
                    bad("scipy-jac-is-not-the-derivative-of-fun", element=k, wrt=V[j], point=pt, got=float(jac[j]), want=float(wantj[j]))
                    return
    rec.sample(show, cap=5)


def run_multi(rec, rng, seams, rels, decls, cell):
    """Several relations of different sense in one problem: every SciPy dict must belong to *its own* relation."""
    import optyx

    D = R.Decls(decls)
    rec.case({"multi": rels, "d": decls})
    show = {"decls": A.render_decls(decls), "relations": [A.render(r) for r in rels]}
    names = D.all_var_names()
    pv = D.param_values()
    try:
        # in half of the problems every mention of a declared vector is a NEW VectorVariable object of that name (objective and
        # constraints built by helper functions that each declare the vector): the same problem variables by name
        fresh = (len(rels) + len(A.canon(rels[0]))) % 2 == 0
        b = B.Builder(decls, fresh_vectors=fresh)
        rec.cells["vectors:" + ("new-object-per-mention" if fresh else "one-object")] += 1
        # the objective owns one variable of its own, last in the natural order ("zz"); later it is replaced by an objective
        # owning another one that sorts first ("a0"): same number of variables, every position shifted
        own1, own2 = b.variables(["zz", "a0"])
        P = optyx.Problem().minimize((own1 - 0.5) ** 2 + (b.variables([names[0]])[0] - 0.5) ** 2)
        counts = []
        for r in rels:
            c = b.rel(r)
            counts.append(len(c) if isinstance(c, list) else 1)
            P.subject_to(c)
    except Exception as ex:
        rec.events["unsupported-build:" + type(ex).__name__] += 1
        return
    for phase in ("as-written", "after-objective-swap"):
        if phase == "after-objective-swap":
            try:
                P.minimize((own2 - 0.25) ** 2 + (b.variables([names[0]])[0] - 0.5) ** 2)
            except Exception as ex:
                rec.violation("objective-swap-raises:" + type(ex).__name__, {"show": show, "error": repr(ex)[:200]})
                return
            rec.cmp(1, "history:objective-swap-keeps-constraints")
        if not _check_dicts(rec, rng, seams, P, D, rels, counts, names, pv, cell, show, phase):
            return
    # Parameter.set() between two solves of the same problem: fun AND jac handed over on the next solve follow the current values
    if b.params and any(x[0] in ("par", "pel", "vparv") for r in rels for x in A.walk(r)):
        for step, newvals in enumerate(({"p": 3.0, "w": [2.0, -1.0, 0.25]}, {"p": -0.5, "w": [0.0, 1.0, 4.0]})):
            b.set_params(newvals)
            D2 = R.Decls(X.with_param_values(decls, newvals))
            rec.cmp(1, "history:parameter-set-between-solves")
            if not _check_dicts(rec, rng, seams, P, D2, rels, counts, names, D2.param_values(), cell, show, f"after-Parameter.set-{step + 1}"):
                return
    rec.sample(show, cap=5)


def _check_dicts(rec, rng, seams, P, D, rels, counts, names, pv, cell, show, phase):
    V = [v.name for v in P.variables]
    tag = "" if phase == "as-written" else ":" + phase
    seams.reset()
    seams.min_stub = lambda call: OptimizeResult(x=np.array(call["x0"], dtype=float), success=False, status=9, message="stubbed", fun=0.0, nit=0)
    try:
        P.solve(method="SLSQP", x0=np.full(len(V), 0.7))
    except Exception as ex:
        rec.violation("solve-with-constraints-raises:" + type(ex).__name__ + tag, {"show": show, "error": repr(ex)[:200]})
        return False
    finally:
        seams.min_stub = None
    dicts = list(seams.min_calls[0]["constraints"] or []) if seams.min_calls else []
    rec.cmp(1, cell)
    if len(dicts) != sum(counts):
        rec.violation("wrong-number-of-scipy-constraints" + tag, {"show": show, "got": len(dicts), "want": sum(counts)})
        return False
    for _ in range(4):
        pt = {n: round(rng.uniform(-2.0, 2.5), 3) for n in list(names) + ["zz", "a0"]}
        x = B.point_array(V, pt)
        k = 0
        for r in rels:
            jalg = R.JetAlg(1, V, pt, pv)
            for (l, rr) in elem_values(D, r, jalg):
                diff = jalg.sub(l, rr)
                dct = dicts[k]
                k += 1
                if not jalg.t.regular(1e-3) or not np.isfinite(float(diff.v)):
                    continue
                s = r[1]
                f = float(dct["fun"](x.copy()))
                jac = np.asarray(dct["jac"](x.copy()), dtype=float).reshape(-1)
                sign = -1.0 if s == "<=" else 1.0
                if s == "==":
                    sign = 1.0 if abs(f - float(diff.v)) <= abs(f + float(diff.v)) else -1.0
                rec.cmp(2, cell)
                if dct.get("type") != ("eq" if s == "==" else "ineq") or not close(f, sign * float(diff.v), 1e-9, jalg.t.mag)[0]:
                    rec.violation("scipy-fun-is-not-the-signed-difference-of-its-own-relation" + tag, {"show": show, "relation": A.render(r), "got": f, "want": sign * float(diff.v), "type": dct.get("type")})
                    return False
                if not all(close(a_, b_, 1e-7, max(jalg.t.mag, jalg.t.dmag))[0] for a_, b_ in zip(jac, sign * diff.g)):
                    rec.violation("scipy-jac-is-not-the-derivative-of-fun" + tag, {"show": show, "relation": A.render(r), "got": jac.tolist(), "want": (sign * diff.g).tolist()})
                    return False
    return True


def deep_relation(n, sense):
    """a relation whose left side is accumulated over n terms with non-commutative operators (beyond the switch depth for n >= 400)"""
    acc = ["bin", "-", ["bin", "*", ["raw", 2.0, "float"], _a], ["bin", "/", _b, ["raw", 4.0, "float"]]]
    for i in range(1, n):
        v = _a if i % 2 else _b
        t = ["bin", "/", ["bin", "**", ["bin", "-", v, ["raw", 0.1 * (i % 5), "float"]], ["raw", 2, "int"]], ["raw", 50.0 + i % 3, "float"]]
        acc = ["bin", "-" if i % 3 == 0 else "+", acc, t]
    return ["rel", sense, acc, ["bin", "-", ["raw", 3.0, "float"], ["el", _x, 0]], "direct"]


def multi_cases(rng):
    """lists of relations mixing the three senses in every order"""
    lin = ["bin", "+", _a, _b]
    q_ = ["bin", "+", ["bin", "**", _a, ["raw", 2, "int"]], ["bin", "**", _b, ["raw", 2, "int"]]]
    pool = {
        "<=": [["rel", "<=", lin, ["raw", 2.0, "float"], "direct"], ["rel", "<=", q_, ["raw", 4.0, "float"], "direct"], ["rel", "<=", _x, ["arr", [1.0, 2.0, 3.0]], "direct"]],
        ">=": [["rel", ">=", _a, ["raw", 0.5, "float"], "direct"], ["rel", ">=", ["sum", _x], _b, "direct"], ["rel", ">=", ["fn", "exp", _b], ["raw", 1.0, "float"], "reflected"]],
        "==": [["rel", "==", ["bin", "-", _a, _b], ["raw", 0.25, "float"], "direct"], ["rel", "==", ["dot", _x, _y], ["raw", 1.0, "float"], "direct"]],
    }
    import itertools

    out = []
    for order in itertools.permutations(["<=", ">=", "=="]):
        for rep in range(2):
            out.append([rng.choice(pool[s]) for s in order])
    for a_, b_ in itertools.permutations(["<=", ">=", "=="], 2):
        out.append([rng.choice(pool[a_]), rng.choice(pool[a_]), rng.choice(pool[b_])])
    # relations linear in a vector written through vector nodes (per-node Jacobian rows) next to deep accumulated ones
    lc = ["rel", "<=", ["matmul", ["arr", [1.0, -2.0, 0.5]], _x], ["raw", 2.0, "float"], "direct"]
    mvr = ["rel", ">=", ["mv", [[1.0, 0.0, 2.0], [0.5, -1.0, 0.0]], _x], ["arr", [-1.0, 0.25]], "direct"]
    for n_, s_ in ((30, "<="), (399, ">="), (405, "<="), (430, "=="), (450, ">=")):
        out.append([deep_relation(n_, s_), lc])
        out.append([mvr, deep_relation(n_, s_)])
    out.append([lc, mvr, ["rel", "==", ["dot", _x, _y], ["raw", 1.0, "float"], "direct"]])
    # relations whose coefficients are Parameters (linear in the variables: the Jacobian is a "constant" only until set() is called)
    par_lin = ["rel", "<=", ["bin", "+", ["bin", "*", _p, _a], _b], ["raw", 4.0, "float"], "direct"]
    par_rhs = ["rel", ">=", ["bin", "-", _a, ["bin", "*", _p, _b]], _p, "direct"]
    par_vec = ["rel", "<=", ["matmul", ["vparv", "w"], _x], ["raw", 3.0, "float"], "direct"]
    par_nl = ["rel", "==", ["bin", "*", _p, ["fn", "sin", _a]], ["raw", 0.25, "float"], "direct"]
    for combo in ([par_lin, lc], [par_rhs, par_lin], [par_vec, par_lin, mvr], [par_nl, par_lin], [par_lin], [par_vec]):
        out.append(combo)
    return out


def random_rel(rng):
    g = G.Gen(rng, params=(rng.random() < 0.3), bounds=False)
    r = rng.random()
    s = rng.choice(SENSES)
    form = "direct" if s == "==" or rng.random() < 0.7 else "reflected"
    if r < 0.5:
        lhs = g.scalar(rng.randint(1, 3))
        rhs = g.scalar(rng.randint(0, 2)) if rng.random() < 0.6 else g.const(raw=True)
        if lhs[0] in ("const", "raw"):
            lhs, rhs = ["var", g.svars[0]] if g.svars else lhs, lhs
    elif r < 0.85 and g.vecs:
        lhs, size = g.vector(rng.randint(0, 2))
        rr = rng.random()
        if rr < 0.4:
            rhs, _ = g.vector(rng.randint(0, 2), size)
        elif rr < 0.7:
            rhs = g.arr(size)
        else:
            rhs = g.const(raw=True)
        if lhs[0] in ("vpow", "vfn") or rhs[0] in ("vpow", "vfn"):
            return None
    elif g.mats:
        lhs, shp = g.matrix(rng.randint(0, 2))
        if lhs is None:
            return None
        rr = rng.random()
        if rr < 0.4:
            rhs, _ = g.matrix(rng.randint(0, 1), shp)
            if rhs is None:
                return None
        elif rr < 0.7:
            rhs = ["arr2", g.mat_const(*shp)]
        else:
            rhs = g.const(raw=True)
    else:
        return None
    return g.decls, ["rel", s, lhs, rhs, form]


def run(ctx, rec):
    rng = ctx.rng
    seams = Seams().install()
    try:
        for i, (cell, rel, mm) in enumerate(matrix_cases()):
            if ctx.mine(i):
                run_rel(rec, rng, cell, rel, DV, mm, seams)
        for i, rels in enumerate(multi_cases(rng)):
            if ctx.mine(i):
                run_multi(rec, rng, seams, rels, DV, "multi-relation-problem")
        n = 0
        while n < N_RANDOM[ctx.tier] and not rec.out_of_time():
            n += 1
            rr = random_rel(rng)
            if rr is None:
                continue
            run_rel(rec, rng, "random", rr[1], rr[0], None, seams)
    finally:
        seams.uninstall()


def replay(w, rec):
    import random

    seams = Seams().install()
    try:
        run_rel(rec, random.Random(0), w["cell"], w["rel"], w["decls"], None, seams)
    finally:
        seams.uninstall()


# workloads added after the seventh round of seeded changes (DESIGN section 9): part of the rule of this check
_RULE_ADDENDUM = 'relations with Parameter coefficients re-probed on the same problem after Parameter.set()'
_info_base = info


def info(tier):  # noqa: F811
    d = _info_base(tier)
    d["rule"] = d["rule"] + "; " + _RULE_ADDENDUM
    return d
