"""C05 - the linear program optyx extracts is the model the user wrote.

Workload: linear models drawn as data and written in a random mix of API
syntaxes (recipes/lpgen.py).  Oracle: an affine map is determined by n+1
affinely independent points, so every extracted row / the cost vector is
compared with the *reference interpreter's* value of the written expression
at 0, e_1..e_n and one random point - exhaustive per model.
"""
from __future__ import annotations

from fractions import Fraction

import numpy as np

from ..recipes import ast as A
from ..recipes import build as B
from ..recipes import lpgen as L
from ..recipes import ref as R

LEVEL = "exploration"
BUDGET_S = {"quick": 420, "thorough": 1500}
N_RANDOM = {"quick": 1200, "thorough": 30000}
TOL = 1e-12


def info(tier):
    return {
        "level": LEVEL,
        "rule": "linear models drawn as data (6 variable layouts, coefficients k/4, mixed bounds, <=, >=, == rows, "
        "element-wise vector rows, matrix-vector blocks) written in random syntax mixes; per model every extracted "
        "quantity is compared with the reference at n+1 affinely independent points + 1 random point; a model is "
        "non-trivial if it has >= 2 variables and >= 1 constraint row; distinct = canonical recipe hashes",
        "required_cells": [f"layout:{l}" for l in L.LAYOUTS] + ["sense:<=", "sense:>=", "sense:==", "objective", "bounds", "columns",
                                                                 "extract_linear_coefficient", "extract_constant_term", "history:staged-or-batched-constraints", "tiny-scale-row", "huge-vector-columns", "sweep:vector-spellings", "sweep:block-spellings"],
        "assumptions": [
            "harness self-check: the written recipe equals the drawn data in exact rational arithmetic, otherwise the run is inconclusive",
            "only models that optyx itself treats as linear are judged (completeness of LP detection is not claimed)",
        ],
    }


def ref_affine(D, node_fn, names, pts):
    """values of a reference function at the probe points (floats, exact for k/4 data)"""
    return [float(node_fn(pt)) for pt in pts]


def run_model(lp, rec, rng):
    import optyx
    from optyx import analysis as AN

    D = R.Decls(lp["decls"])
    rec.case({"o": lp["objective"], "c": lp["constraints"], "d": lp["decls"]},
             nontrivial=len(lp["c"]) >= 2 and len(lp["rows"]) >= 1)
    chk = L.self_check(lp, rng)
    if chk is not None:
        rec.inconclusive.append("lp generator self-check failed: " + chk)
        return
    show = {"decls": A.render_decls(lp["decls"]), "objective": A.render(lp["objective"]),
            "constraints": [A.render(c) for c in lp["constraints"]], "sense": lp["sense"]}

    def bad(what, **kw):
        rec.violation(what, {"lp": lp, "show": show, **kw})

    def touch(Q):
        # the half-written model is inspected: whatever this caches must not survive the constraints added afterwards
        try:
            Q.variables
            Q.n_variables
            if Q._is_linear_problem():
                AN.LinearProgramExtractor().extract(Q)
            rec.events["staged-inspections"] += 1
        except Exception:
            rec.events["staged-inspection-raised"] += 1

    try:
        b = B.Builder(lp["decls"])
        P = b.problem(lp, touch=touch)
    except Exception as ex:
        rec.events["unsupported-build:" + type(ex).__name__] += 1
        return
    if lp.get("staged") is not None or lp.get("batch"):
        rec.cmp(1, "history:staged-or-batched-constraints")
    try:
        is_lp = P._is_linear_problem()
    except Exception as ex:
        bad("is_linear_problem-raises:" + type(ex).__name__, error=repr(ex)[:200])
        return
    if not is_lp:
        rec.noncomp["not-treated-as-linear"] += 1
        return
    try:
        LP = AN.LinearProgramExtractor().extract(P)
    except Exception as ex:
        bad("extract-raises:" + type(ex).__name__, error=repr(ex)[:300])
        rec.cmp(1, "layout:" + lp["layout"])
        return
    names = L.mentioned_names(lp)
    n = len(names)
    rec.cmp(1, "layout:" + lp["layout"])

    # columns
    rec.cmp(1, "columns")
    if list(LP.variables) != names:
        bad("columns-not-the-mentioned-variables-in-natural-order", got=list(LP.variables), want=names)
        return

    # probe points: 0, e_i, random
    allnames = list(dict.fromkeys(names + D.all_var_names()))
    zero = {nm: Fraction(0) for nm in allnames}
    pts = [dict(zero)]
    for nm in names:
        p = dict(zero)
        p[nm] = Fraction(1)
        pts.append(p)
    pts.append({nm: Fraction(rng.randint(-12, 12), 4) for nm in allnames})
    X = np.array([[float(p[nm]) for nm in names] for p in pts])

    # objective
    try:
        c0 = AN.extract_constant_term(P.objective)
    except Exception as ex:
        bad("extract_constant_term-raises:" + type(ex).__name__, error=repr(ex)[:200])
        c0 = None
    c = np.asarray(LP.c, dtype=float)
    want = np.array([float(R.ref_frac(D, lp["objective"], p)) for p in pts])
    rec.cmp(len(pts), "objective")
    if c.shape != (n,):
        bad("objective:wrong-shape", got=list(c.shape))
    else:
        got = X @ c
        if c0 is not None and np.max(np.abs(got + c0 - want)) > TOL:
            if np.max(np.abs(got - (want - want[0]))) <= TOL:
                bad("objective:constant-term-wrong", got_c0=c0, want_c0=float(want[0]))
            else:
                bad("objective:cost-vector-wrong", got=c.tolist(), want=(want[1:-1] - want[0]).tolist())
        # the constant the extracted LP data itself carries (what the LP route adds back to the reported objective value)
        lp_c0 = getattr(LP, "c0", None)
        if lp_c0 is not None:
            rec.cmp(len(pts), "objective")
            if np.max(np.abs(got + float(lp_c0) - want)) > TOL and np.max(np.abs(got - (want - want[0]))) <= TOL:
                bad("objective:constant-term-of-the-extracted-data-wrong", got_c0=float(lp_c0), want_c0=float(want[0]))
    if (LP.sense == "min") != (lp["sense"] == "min"):
        bad("objective:sense-wrong", got=LP.sense)

    # constraints: reference rows in order
    fa = lambda pt: R.FracAlg(pt)  # noqa: E731
    ref_rows = []  # (sense, values at pts)
    for cn in lp["constraints"]:
        per_pt = [L.constraint_values(D, cn, p, fa) for p in pts]
        for k in range(len(per_pt[0])):
            ref_rows.append((cn[1], np.array([float(v[k]) for v in per_pt])))
    cons = P.constraints
    if len(cons) != len(ref_rows):
        bad("constraints:wrong-count", got=len(cons), want=len(ref_rows))
        return
    ub = [(s, v) for s, v in ref_rows if s != "=="]
    eq = [(s, v) for s, v in ref_rows if s == "=="]
    for blockname, A_, b_, rows in (("ub", LP.A_ub, LP.b_ub, ub), ("eq", LP.A_eq, LP.b_eq, eq)):
        if not rows:
            if A_ is not None and len(A_):
                bad(f"constraints:{blockname}-block-has-extra-rows", got=len(A_))
            continue
        if A_ is None or b_ is None or np.shape(A_) != (len(rows), n) or np.shape(b_) != (len(rows),):
            bad(f"constraints:{blockname}-block-wrong-shape", got=None if A_ is None else list(np.shape(A_)), want=[len(rows), n])
            continue
        G = X @ np.asarray(A_, float).T - np.asarray(b_, float)[None, :]  # (pts, rows)
        for r, (s, v) in enumerate(rows):
            wantv = -v if s == ">=" else v
            rec.cmp(len(pts), "sense:" + s)
            # rows of small uniform scale (a legitimate small-unit row, generated as an exact power-of-two multiple) are judged
            # relative to their own scale: an absolute tolerance would hide a dropped 1e-9 coefficient
            rs = float(np.max(np.abs(wantv)))
            TOLr = TOL * rs if 0.0 < rs < 1.0 else TOL
            if rs < 1e-3:
                rec.cmp(1, "tiny-scale-row")
            if np.max(np.abs(G[:, r] - wantv)) > TOLr:
                # classify: rhs only, coefficients, or sign
                if np.max(np.abs(G[:, r] + wantv)) <= TOLr:
                    what = "row-sign-wrong"
                elif np.max(np.abs((G[:, r] - G[0, r]) - (wantv - wantv[0]))) <= TOLr:
                    what = "rhs-wrong"
                else:
                    what = "row-coefficients-wrong"
                bad(f"constraints:{what}:{s}", row=r, block=blockname, got_row=np.asarray(A_, float)[r].tolist(),
                    got_rhs=float(np.asarray(b_, float)[r]), want_at_points=wantv.tolist())
                break

    # bounds
    info = D.var_info()
    rec.cmp(n, "bounds")
    wantb = [(info[nm][0], info[nm][1]) if nm in info else (0.0, 0.0) for nm in names]
    for i, nm in enumerate(names):
        if nm in (lp.get("bound_edits") or {}):
            wantb[i] = tuple(lp["bound_edits"][nm])
    gotb = [tuple(x) for x in LP.bounds]
    if [tuple(None if v is None else float(v) for v in t) for t in gotb] != [tuple(None if v is None else float(v) for v in t) for t in wantb]:
        bad("bounds-wrong", got=gotb, want=wantb)

    # the two public single-quantity extractors on every normalised constraint expression
    Vobjs = b.variables(names)
    for k, (cst, (s, v)) in enumerate(zip(cons[:6], ref_rows[:6])):
        # a reflected spelling (rhs >= lhs) normalises to rhs - lhs with the opposite sense
        if cst.sense != s:
            if {cst.sense, s} != {"<=", ">="}:
                bad("constraints:sense-changed", row=k, got=cst.sense, want=s)
                break
            v = -v
        try:
            k0 = AN.extract_constant_term(cst.expr)
            rec.cmp(1, "extract_constant_term")
            if abs(k0 - v[0]) > TOL:
                bad("extract_constant_term-wrong", row=k, got=k0, want=float(v[0]))
            for j, vo in enumerate(Vobjs[:8]):
                cj = AN.extract_linear_coefficient(cst.expr, vo)
                rec.cmp(1, "extract_linear_coefficient")
                if abs(cj - (v[1 + j] - v[0])) > TOL:
                    bad("extract_linear_coefficient-wrong", row=k, var=names[j], got=cj, want=float(v[1 + j] - v[0]))
                    break
        except Exception as ex:
            bad("extract-single-raises:" + type(ex).__name__, error=repr(ex)[:200])
            break
    rec.sample(show, cap=3)


def run_huge_vector(rec, n):
    """The columns of a whole-vector model with more than 10 000 elements: cost entries, row entries and bounds aligned with the names."""
    import optyx
    from optyx import analysis as AN

    rec.case({"huge-vector": n})
    x = optyx.VectorVariable("x", n, lb=0.0, ub=2.0)
    w = np.arange(1.0, n + 1.0)
    r = (np.arange(n) % 7 + 1).astype(float)
    P = optyx.Problem().minimize(w @ x + 2.5).subject_to(r @ x >= 3.0).subject_to(x.sum() <= 50.0)
    LP = AN.LinearProgramExtractor().extract(P)
    rec.cmp(3, "huge-vector-columns")
    names = [f"x[{i}]" for i in range(n)]
    if list(LP.variables) != names:
        first = next((i for i, (g_, w_) in enumerate(zip(LP.variables, names)) if g_ != w_), 0)
        rec.violation("columns-not-the-mentioned-variables-in-natural-order", {"show": {"model": f"c @ x, x = VectorVariable('x', {n})"}, "first_difference_at": first,
                                                                               "got": list(LP.variables)[max(0, first - 2): first + 3]})
        return
    if not np.array_equal(np.asarray(LP.c, float), w):
        i_ = int(np.argmax(np.asarray(LP.c, float) != w))
        rec.violation("objective:cost-vector-wrong", {"show": {"model": f"c @ x, n = {n}"}, "column": names[i_], "got": float(LP.c[i_]), "want": float(w[i_])})
    A_ = np.asarray(LP.A_ub, float)
    if A_.shape != (2, n) or not np.array_equal(A_[0], -r) or not np.array_equal(A_[1], np.ones(n)):
        rec.violation("constraints:row-coefficients-wrong:>=", {"show": {"model": f"r @ x >= 3, n = {n}"}, "got_shape": list(A_.shape)})


def run(ctx, rec):
    rng = ctx.rng
    for k_, n_ in enumerate((10050, 1200, 100020 if ctx.tier == "thorough" else 10001)):
        if ctx.mine(k_ + 9):
            run_huge_vector(rec, n_)
    # directed sweep: every vector spelling of the writer x sense, once as the single constraint and once as the whole objective;
    # every element-wise block spelling x sense
    i = 0
    for form in L.VECTOR_FORMS:
        for s_ in ("<=", ">=", "=="):
            i += 1
            if ctx.mine(i):
                for bare in (False, True):
                    lp = L.form_lp(rng, form, s_, bare_objective=bare)
                    rec.cmp(1, "sweep:vector-spellings")
                    run_model(lp, rec, rng)
    for form in L.BLOCK_FORMS:
        for s_ in ("<=", ">=", "=="):
            i += 1
            if ctx.mine(i):
                rec.cmp(1, "sweep:block-spellings")
                run_model(L.block_lp(rng, form, s_), rec, rng)
    n = 0
    target = N_RANDOM[ctx.tier]
    while n < target and not rec.out_of_time():
        layout = L.LAYOUTS[n % len(L.LAYOUTS)]
        n += 1
        if n % 20 == 13:
            # a deep objective whose variables occur nowhere else (no constraints): discovery rests on the objective walk alone
            lp = L.draw_lp(rng, layout=layout, kind="any", deep_objective=True, max_rows=0)
        else:
            lp = L.draw_lp(rng, layout=layout, kind=rng.choice(["any", "any", "optimal", "infeasible"]), risky=(n % 4 != 0), tiny_rows=(n % 5 == 1),
                           deep_objective=(n % 40 == 7))
        if lp["constraints"] and n % 3 == 0:
            # written in stages: the model is inspected after the first k constraints, the rest (element-wise relations arrive as
            # lists) is added afterwards; or everything is handed over as one list
            lp["staged"] = {"after": rng.randrange(len(lp["constraints"]))}
            lp["batch"] = n % 9 == 0
        run_model(lp, rec, rng)


def replay(w, rec):
    import random

    run_model(w["lp"], rec, random.Random(0))


# workloads added after the seventh round of seeded changes (DESIGN section 9): part of the rule of this check
_RULE_ADDENDUM = 'directed sweep: every vector / element-wise block spelling of the writer x sense as the single constraint and as the whole objective; the constant carried by the extracted LP data is judged too'
_info_base = info


def info(tier):  # noqa: F811
    d = _info_base(tier)
    d["rule"] = d["rule"] + "; " + _RULE_ADDENDUM
    return d
