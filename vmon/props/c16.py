"""C16 - a problem's variables are exactly those it mentions, in natural order.

Oracle: the recipe-level syntactic variable set (reference SetAlg) + an
independent natural sort + the declared bounds / domains.  Workload: random
problems mixing scalar, vector and matrix terms; single-vector models that take
the variable-discovery shortcut and near-misses of it (with view objects shared
between objective and constraints, as a user holding `v = x[1:4]` would);
names that stress numeric-aware ordering; creation order != name order; deep
objectives.
"""
from __future__ import annotations

import copy

from ..recipes import ast as A
from ..recipes import build as B
from ..recipes import gen as G
from ..recipes import ref as R
from .. import solvecheck as SC
from .c10 import random_rel

LEVEL = "exploration"
BUDGET_S = {"quick": 420, "thorough": 1200}
N_RANDOM = {"quick": 1200, "thorough": 30000}

_x, _y = ["vec", "x"], ["vec", "y"]


class SharingBuilder(B.Builder):
    """Builder that reuses one object per distinct view recipe (a user's `v = x[1:4]`)."""

    def __init__(self, decls):
        super().__init__(decls)
        self._views = {}

    def V(self, n):
        if n[0] in ("slice", "row", "col", "diag", "diagf"):
            key = A.canon(n)
            if key not in self._views:
                self._views[key] = super().V(n)
            return self._views[key]
        return super().V(n)


def shortcut_cases():
    """(cell, decls, objective, constraints)"""
    D1 = [{"k": "var", "name": "s", "lb": 0.0}, {"k": "vec", "name": "x", "n": 12, "lb": -1.0, "ub": 2.0}, {"k": "vec", "name": "y", "n": 3},
          {"k": "mat", "name": "A", "r": 3, "c": 3, "lb": 0.0}, {"k": "mat", "name": "G", "r": 3, "c": 3, "sym": True}]
    out = []
    views = {
        "full": _x, "slice": ["slice", _x, 2, 11, None], "stepped": ["slice", _x, 1, 12, 3], "reversed": ["slice", _x, None, None, -1],
        "reversed-slice": ["slice", _x, 10, 1, -2], "row": ["row", ["mat", "A"], 1], "column": ["col", ["mat", "A"], 2],
        "diagonal": ["diag", ["mat", "A"]], "sym-row": ["row", ["mat", "G"], 2], "sym-column": ["col", ["mat", "G"], 0],
        "row-of-transpose": ["row", ["T", ["mat", "A"]], 0],
        # views whose elements differ in an index that is not the last one, taken right-to-left / bottom-to-top
        "reversed-column": ["cols", ["mat", "A"], 1, None, None, -1], "stepped-reversed-column": ["cols", ["mat", "A"], 2, 2, None, -2],
        "reversed-row": ["rows", ["mat", "A"], 1, None, None, -1], "sym-row-reversed": ["rows", ["mat", "G"], 2, None, None, -1],
        "sym-column-reversed": ["cols", ["mat", "G"], 0, None, None, -1], "reversed-row-of-transpose": ["rows", ["T", ["mat", "A"]], 1, None, None, -1],
        "diag-matrix-row": ["row", ["dmat", ["vec", "y"]], 1], "reversed-diagonal": ["slice", ["diag", ["mat", "A"]], None, None, -1],
    }
    for vn, v in views.items():
        n = len(R.Interp(R.Decls(D1), R.SetAlg()).vnames(v))
        objs = {
            "sum": ["sum", v], "dot-self": ["dot", v, v], "lc": ["matmul", ["arr", [float(i + 1) for i in range(n)]], v],
            "powsum": ["sum", ["vpow", v, 2]], "unarysum": ["sum", ["vfn", "exp", v]],
            "mixed": ["bin", "+", ["bin", "*", ["raw", 2.0, "float"], ["sum", v]], ["neg", ["dot", v, v]]],
        }
        for on, o in objs.items():
            out.append((f"shortcut:{vn}:{on}", D1, o, [["rel", "<=", ["sum", v], ["raw", 3.0, "float"], "direct"]]))
        # near misses
        out.append((f"near-miss:{vn}:scalar-in-2nd-constraint", D1, ["sum", v],
                    [["rel", "<=", ["sum", v], ["raw", 3.0, "float"], "direct"], ["rel", ">=", ["bin", "+", ["sum", v], ["var", "s"]], ["raw", 0.0, "float"], "direct"]]))
        out.append((f"near-miss:{vn}:second-vector-in-dot", D1, ["dot", v, ["slice", ["vec", "x"], 0, n, None]] if n <= 12 else ["sum", v], []))
        out.append((f"near-miss:{vn}:vector-expression-sum", D1, ["sum", ["vbin", "-", v, ["arr", [0.5] * n]]], []))
        out.append((f"near-miss:{vn}:element-in-constraint", D1, ["dot", v, v], [["rel", ">=", ["el", ["vec", "y"], 1], ["raw", 0.0, "float"], "direct"]]))
        out.append((f"near-miss:{vn}:other-view-in-constraint", D1, ["sum", v], [["rel", "<=", ["sum", ["slice", _x, 0, 2, None]], ["raw", 1.0, "float"], "direct"]]))
    # different views that carry the SAME generated name and size (x[0:4:2] / x[0:4:3] are both "x[0:4]"; A[0,0:2] / A[0,1:3] both "A[0,:]")
    A_ = ["mat", "A"]
    for nm, v1, v2 in [
        ("stepped-slices", ["slice", _x, 0, 4, 2], ["slice", _x, 0, 4, 3]),
        ("row-slices", ["rows", A_, 0, 0, 2, None], ["rows", A_, 0, 1, 3, None]),
        ("column-slices", ["cols", A_, 1, 0, 2, None], ["cols", A_, 1, 1, 3, None]),
        ("offset-slices", ["slice", _x, 1, 5, 2], ["slice", _x, 1, 5, 3]),
    ]:
        out.append((f"near-miss:same-name-views:{nm}", D1, ["sum", v1], [["rel", "<=", ["sum", v2], ["raw", 3.0, "float"], "direct"]]))
        out.append((f"near-miss:same-name-views:{nm}:lc", D1, ["matmul", ["arr", [1.0, 2.0]], v1], [["rel", ">=", ["dot", v2, v2], ["raw", 0.5, "float"], "direct"]]))
    # reductions over blocks of a symmetric matrix (principal and off-diagonal square blocks, rectangular blocks)
    G_ = ["mat", "G"]
    D2 = D1 + [{"k": "mat", "name": "H", "r": 4, "c": 4, "sym": True, "ub": 9.0}]
    H_ = ["mat", "H"]
    for nm, blk in [("principal", ["sub", H_, 0, 2, 0, 2]), ("off-diagonal-square", ["sub", H_, 2, 4, 0, 2]), ("off-diagonal-square-upper", ["sub", H_, 0, 2, 2, 4]),
                    ("overlapping-square", ["sub", H_, 1, 3, 0, 2]), ("rectangular", ["sub", H_, 0, 3, 1, 3]), ("transposed-block", ["T", ["sub", H_, 2, 4, 0, 2]]),
                    ("whole", H_), ("G-block", ["sub", G_, 1, 3, 0, 2])]:
        out.append((f"symmetric-block:{nm}:sum", D2, ["msum", blk], []))
        out.append((f"symmetric-block:{nm}:fro", D2, ["bin", "+", ["fro", blk], ["var", "s"]], []))
        out.append((f"symmetric-block:{nm}:constraint", D2, ["var", "s"], [["rel", "<=", ["msum", blk], ["raw", 3.0, "float"], "direct"]]))
    # element bounds that differ from the container's: a binary vector (elements (0, 1), the vector itself unbounded), an integer vector
    # with odd bounds, rows of diag_matrix (off-diagonal entries pinned to (0, 0))
    D3 = [{"k": "vec", "name": "b", "n": 4, "dom": "binary"}, {"k": "vec", "name": "k", "n": 3, "dom": "integer", "lb": -2.0, "ub": 7.0}, {"k": "vec", "name": "y", "n": 3, "lb": 0.5},
          {"k": "vec", "name": "fb", "n": 3, "dom": "binary", "via": "from_numpy"}, {"k": "vec", "name": "fk", "n": 4, "dom": "integer", "lb": 1.0, "ub": 9.0, "via": "from_numpy"}]
    for nm, v in [("from_numpy-binary", ["vec", "fb"]), ("from_numpy-integer-slice", ["slice", ["vec", "fk"], 1, 4, None])]:
        out.append((f"shortcut:element-bounds:{nm}:sum", D3, ["sum", v], [["rel", ">=", ["sum", v], ["raw", 0.5, "float"], "direct"]]))
        out.append((f"near-miss:element-bounds:{nm}:with-scalar-term", D3, ["bin", "+", ["sum", v], ["el", ["vec", "y"], 0]], []))
    for nm, v in [("binary-vector", ["vec", "b"]), ("binary-slice", ["slice", ["vec", "b"], 1, 4, None]), ("integer-reversed", ["slice", ["vec", "k"], None, None, -1]),
                  ("diag-matrix-row", ["row", ["dmat", ["vec", "y"]], 0]), ("diag-matrix-column", ["col", ["dmat", ["vec", "y"]], 2])]:
        out.append((f"shortcut:element-bounds:{nm}:sum", D3, ["sum", v], [["rel", ">=", ["sum", v], ["raw", 0.5, "float"], "direct"]]))
        out.append((f"shortcut:element-bounds:{nm}:lc", D3, ["matmul", ["arr", [float(i + 1) for i in range(len(R.Interp(R.Decls(D3), R.SetAlg()).vnames(v)))]], v], []))
    out.append(("shortcut:two-views-same-vector", D1, ["sum", ["slice", _x, 0, 4, None]], [["rel", "<=", ["sum", ["slice", _x, 2, 8, None]], ["raw", 1.0, "float"], "direct"]]))
    out.append(("shortcut:constant-objective", D1, ["const", 1.0, "float"], [["rel", "<=", ["sum", _x], ["raw", 1.0, "float"], "direct"]]))
    out.append(("shortcut:parameter-only-objective", D1 + [{"k": "par", "name": "p", "val": 2.0}], ["bin", "*", ["par", "p"], ["sum", _y]], []))
    return out


NAME_POOL = ["x1", "x2", "x10", "x_2", "x_10", "a", "A0", "b0", "b00", "b1", "10z", "2z", "z9", "z10", "z09", "v1w2", "v1w10", "v10w1"]


def name_stress_case(rng):
    names = rng.sample(NAME_POOL, rng.randint(3, 7))
    decls = [{"k": "var", "name": nm, **({"lb": 0.5 * i} if i % 2 else {}), **({"dom": "integer"} if i % 5 == 4 else {})} for i, nm in enumerate(names)]
    vnames = []
    for vn in rng.sample(["x", "f2", "f10", "w9", "w10", "v1w2"], rng.randint(0, 3)):
        if vn in names:
            continue
        vnames.append(vn)
        decls.insert(rng.randrange(len(decls) + 1), {"k": "vec", "name": vn, "n": rng.choice([2, 3, 11]), "ub": 7.0, **({"dom": "binary"} if rng.random() < 0.2 else {})})
    if rng.random() < 0.4:
        decls.insert(rng.randrange(len(decls) + 1), {"k": "mat", "name": rng.choice(["A", "M2", "M10"]), "r": 2, "c": 11 if rng.random() < 0.3 else 2, "lb": -2.0})
    used = rng.sample(names, rng.randint(1, len(names)))
    obj = None
    for nm in used:
        t = ["bin", "*", ["raw", float(rng.randint(1, 4)), "float"], ["var", nm]]
        obj = t if obj is None else ["bin", rng.choice(["+", "-"]), obj, t]
    cons = []
    for d in decls:
        if d["k"] == "vec" and rng.random() < 0.8:
            vv = ["vec", d["name"]]
            cons.append(["rel", "<=", ["sum", vv] if rng.random() < 0.5 else ["slice", vv, 1, None, 2], ["raw", 4.0, "float"], "direct"])
        if d["k"] == "mat" and rng.random() < 0.7:
            cons.append(["rel", ">=", ["row", ["mat", d["name"]], 1], ["raw", 0.0, "float"], "direct"])
    rest = [nm for nm in names if nm not in used]
    if rest and rng.random() < 0.6:
        cons.append(["rel", "<=", ["bin", "+", ["var", rest[0]], ["var", used[0]]], ["raw", 5.0, "float"], "reflected"])
    return decls, obj, cons


def info(tier):
    return {
        "level": LEVEL,
        "rule": "%d directed shortcut / near-miss models (11 kinds of single-vector source x 6 objective forms + 5 near-misses each, "
        "view objects shared between objective and constraints), name-stress models (numeric-aware ordering, creation order != "
        "name order) and random problems (generated objective + 0-3 generated relations); Problem.variables / n_variables / "
        "get_bounds / domains compared with the recipe-level syntactic set, an independent natural sort and the declarations; "
        "distinct = canonical problem hashes" % len(shortcut_cases()),
        "required_cells": sorted({c for c, _, _, _ in shortcut_cases()}) + ["name-stress", "random", "deep-objective", "deep-objective-exclusive-vector", "history", "shortcut:element-bound-edited", "names:re-declared-with-another-domain", "shared-objective-object", "huge-vector-order", "history:rejected-constraint-list", "history:constraints-without-an-objective"],
        "assumptions": ["'mentioned' = syntactic occurrence in the recipe (x*0 still mentions x)"],
    }


def check(rec, cell, decls, obj, cons, sharing=True, bound_edits=None):
    import optyx

    prob = {"decls": decls, "objective": obj, "sense": "min", "constraints": cons}
    if bound_edits:
        prob["bound_edits"] = bound_edits  # bounds assigned on element objects after the model was written
    rec.case({"d": decls, "o": obj, "c": cons})
    show = {"decls": A.render_decls(decls), "objective": A.render(obj), "constraints": [A.render(c) for c in cons]}
    try:
        want = SC.mentioned(prob)
    except (R.ShapeError, R.OutOfModel):
        return
    try:
        if sharing in ("fresh-leaves", "fresh-leaves-other-domain"):
            # every mention of a scalar variable is a new Variable object of that name: still ONE problem variable per name
            b = B.Builder(decls, fresh_leaves=True if sharing == "fresh-leaves" else "other-domain")
            rec.cells["builder:fresh-variable-object-per-mention"] += 1
        else:
            b = (SharingBuilder if sharing else B.Builder)(decls)
        P = b.problem(prob)
    except Exception as ex:
        rec.events["unsupported-build:" + type(ex).__name__] += 1
        return

    def bad(what, **kw):
        rec.violation(what, {"cell": cell, "decls": decls, "objective": obj, "constraints": cons, "show": show, **kw})

    try:
        got = [v.name for v in P.variables]
        got2 = [v.name for v in P.variables]
        n = P.n_variables
        bounds = [tuple(t) for t in P.get_bounds()]
        doms = [v.domain for v in P.variables]
    except Exception as ex:
        bad("variables-raises:" + type(ex).__name__, error=repr(ex)[:200])
        rec.cmp(1, cell)
        return
    rec.cmp(1, cell)
    try:
        fn = optyx.problem._try_get_single_vector_source
        rec.paths["shortcut-taken" if (P.objective is not None and fn(P.objective) is not None) else "general-path"] += 1
    except Exception:
        pass
    if sorted(got) != sorted(want):
        missing = sorted(set(want) - set(got))
        extra = sorted(set(got) - set(want))
        bad("variables-missing" if missing else ("variables-extra" if extra else "variables-duplicated"), got=got, want=want)
        return
    keys = [R.natural_key(nm) for nm in got]
    if any(keys[i] > keys[i + 1] for i in range(len(keys) - 1)):
        bad("variables-not-in-natural-order", got=got, want=want)
        return
    if got != want:
        # names whose numeric-aware keys tie ('z9' / 'z09'): any order among them is natural order
        rec.events["natural-order-tie"] += 1
        want = got
    if got2 != got or n != len(want):
        bad("variables-unstable-or-count-wrong", got=got2, n=n)
        return
    if sharing == "fresh-leaves-other-domain":
        # which of the conflicting declarations wins is not specified: only "one entry per name, natural order" is judged
        rec.cmp(1, "names:re-declared-with-another-domain")
        rec.sample(show, cap=4)
        return
    info_ = R.Decls(decls).var_info()
    wantb = [(info_[nm][0], info_[nm][1]) if nm in info_ else (0.0, 0.0) for nm in want]
    wantb = [tuple(bound_edits[nm]) if bound_edits and nm in bound_edits else t for nm, t in zip(want, wantb)]
    if [tuple(None if v is None else float(v) for v in t) for t in bounds] != [tuple(None if v is None else float(v) for v in t) for t in wantb]:
        bad("bounds-not-the-declared-bounds", got=bounds, want=wantb)
        return
    wantd = [info_[nm][2] if nm in info_ else "continuous" for nm in want]
    rec.cmp(1, cell)
    if doms != wantd:
        bad("domains-not-the-declared-domains", got=doms, want=wantd)
    rec.sample(show, cap=4)


def run(ctx, rec):
    rng = ctx.rng
    for i, (cell, decls, obj, cons) in enumerate(shortcut_cases()):
        if ctx.mine(i):
            check(rec, cell, decls, obj, cons)
            if cell.startswith("shortcut:") and i % 3 == 0:
                # the same model with the bounds of one of its elements edited afterwards
                try:
                    nm = SC.mentioned({"decls": decls, "objective": obj, "constraints": cons})[1 % max(1, len(SC.mentioned({"decls": decls, "objective": obj, "constraints": cons})))]
                except Exception:
                    nm = None
                if nm and not nm.startswith("_diag_"):
                    check(rec, "shortcut:element-bound-edited", decls, obj, cons, bound_edits={nm: [0.25, 1.5]})
    for k_ in range(32):
        if ctx.mine(k_):
            run_shared_objects(rec, rng, k_)
    for k_, n_ in enumerate((10030, 100010 if ctx.tier == "thorough" else 10011, 1002)):
        if ctx.mine(k_ + 5):
            run_huge_vector(rec, n_)
    n = 0
    while n < N_RANDOM[ctx.tier] and not rec.out_of_time():
        n += 1
        r = n % 4
        if r == 3:
            run_history(rec, rng)
            continue
        if r == 0:
            decls, obj, cons = name_stress_case(rng)
            check(rec, "name-stress", decls, obj, cons, sharing=True if n % 8 else "fresh-leaves")
            if n % 8 == 4:
                # the same model with some mentions re-declaring an integer / binary name as continuous
                d2 = copy.deepcopy(decls)
                for k_, d_ in enumerate(d2):
                    if d_["k"] in ("var", "vec") and k_ % 2 == 0:
                        d_["dom"] = "integer"
                check(rec, "name-stress", d2, obj, cons, sharing="fresh-leaves-other-domain")
        elif r == 1:
            g = G.Gen(rng, bounds=True, params=rng.random() < 0.2)
            obj = g.scalar()
            cons = []
            for _ in range(rng.randint(0, 3)):
                rr = random_rel_over(rng, g)
                if rr is not None:
                    cons.append(rr)
            check(rec, "random", copy.deepcopy(g.decls), obj, cons, sharing=rng.choice([True, False, "fresh-leaves"]))
        elif n % 8 == 2:
            # deep objective in which one vector is mentioned by exactly ONE vector node whose other operand recurs elsewhere
            decls = [{"k": "vec", "name": "x", "n": 3, "lb": -1.0, "ub": 2.0}, {"k": "vec", "name": "y", "n": 3}, {"k": "vec", "name": "w", "n": 3, "ub": 5.0},
                     {"k": "var", "name": "s"}]
            Q3 = [[2.0, -0.5, 0.25], [1.0, 1.5, 0.0], [-0.75, 0.5, 3.0]]
            _w = ["vec", "w"]
            only_y = rng.choice([["dot", _x, _y], ["dot", _y, _x], ["dotQ", _x, Q3, _y], ["dot", ["vbin", "*", _x, ["raw", 2.0, "float"]], _y],
                                 ["matmul", _x, _y], ["dot", _x, ["slice", _y, None, None, -1]], ["sum", ["vbin", "*", _x, _y]],
                                 ["dot", ["slice", _x, 0, 2, None], ["slice", _y, 1, 3, None]]])
            filler = [["sum", _x], ["dot", _x, _x], ["dot", _x, _w], ["matmul", ["arr", [1.0, 2.0, 3.0]], _x], ["el", _x, 1], ["norm", _x, 2, "method"],
                      ["bin", "*", ["var", "s"], ["el", _x, 0]], ["sum", ["vpow", _x, 2]], ["dot", _w, _x]]
            nterms = rng.choice([30, 399, 420, 450])
            pos = rng.choice([0, 1, 2, nterms // 2, nterms - 1])
            terms = [filler[(k * 5 + 1) % len(filler)] for k in range(nterms)]
            terms[pos] = only_y
            obj = terms[0]
            for t in terms[1:]:
                obj = ["bin", rng.choice(["+", "+", "-"]), obj, t]
            check(rec, "deep-objective-exclusive-vector", decls, obj, [])
        else:
            # deep objective: long left-deep accumulation over few variables
            g = G.Gen(rng, bounds=True, matrices=False)
            terms = [g.scalar(1) for _ in range(rng.choice([30, 450, 900]))]
            obj = terms[0]
            for t in terms[1:]:
                obj = ["bin", rng.choice(["+", "-"]), obj, t]
            check(rec, "deep-objective", g.decls, obj, [])


def run_shared_objects(rec, rng, k):
    """One objective expression OBJECT used by two Problems with different constraints: each problem's variables are exactly what it
    mentions - reading one problem's variables must not leak into the expression node or the other problem."""
    import optyx

    rec.case({"shared-objects": k})
    decls = [{"k": "vec", "name": "x", "n": 4, "lb": 0.0}, {"k": "vec", "name": "y", "n": 3}, {"k": "var", "name": "s", "ub": 5.0}, {"k": "var", "name": "t"}]
    x, y = ["vec", "x"], ["vec", "y"]
    objs = [["sum", x], ["neg", ["sum", x]], ["matmul", ["arr", [1.0, 2.0, 3.0, 4.0]], x], ["dot", x, x], ["sum", ["vpow", x, 2]], ["bin", "+", ["sum", x], ["var", "s"]],
            ["norm", x, 2, "method"], ["sum", ["vbin", "*", x, ["raw", 2.0, "float"]]]]
    obj = objs[k % len(objs)]
    consA = [["rel", ">=", ["bin", "+", ["el", x, 0], ["el", y, 1]], ["raw", 1.0, "float"], "direct"], ["rel", "<=", ["var", "t"], ["raw", 2.0, "float"], "direct"]]
    consB = [["rel", "<=", ["sum", ["slice", x, 0, 2, None]], ["raw", 3.0, "float"], "direct"]] if k % 2 else []
    b = B.Builder(decls)
    obj_e = b.S(obj)
    PA = optyx.Problem().minimize(obj_e)
    for c in consA:
        PA.subject_to(b.rel(c))
    PB = optyx.Problem().minimize(obj_e)
    for c in consB:
        PB.subject_to(b.rel(c))
    wantA = SC.mentioned({"decls": decls, "objective": obj, "constraints": consA})
    wantB = SC.mentioned({"decls": decls, "objective": obj, "constraints": consB})
    show = {"objective": A.render(obj), "A": [A.render(c) for c in consA], "B": [A.render(c) for c in consB]}
    order = [("A", PA, wantA), ("B", PB, wantB), ("A", PA, wantA), ("B", PB, wantB)] if k % 4 < 2 else [("B", PB, wantB), ("A", PA, wantA), ("B", PB, wantB)]
    for step, (label, P, want) in enumerate(order):
        if step == 2:
            # force a recomputation: an edit that does not change what is mentioned
            P.subject_to(b.rel(["rel", "<=", ["el", x, 0], ["raw", 9.0, "float"], "direct"]))
        try:
            got = [v.name for v in P.variables]
            n_ = P.n_variables
            nb = len(P.get_bounds())
        except Exception as ex:
            rec.violation("shared-objective:variables-raises:" + type(ex).__name__, {"show": show, "error": repr(ex)[:200]})
            return
        rec.cmp(1, "shared-objective-object")
        if got != want or n_ != len(want) or nb != len(want):
            extra = sorted(set(got) - set(want))
            rec.violation("variables-extra" if extra else "variables-missing-or-misordered", {"show": show, "problem": label, "step": step, "got": got, "want": want, "n_variables": n_})
            return
    ov = sorted(v.name for v in obj_e.get_variables())
    if ov != sorted(SC.mentioned({"decls": decls, "objective": obj, "constraints": []})):
        rec.violation("expression-variables-changed-by-a-problem-that-used-it", {"show": show, "got": ov})


def run_huge_vector(rec, n):
    """Natural order has no width limit: x[9999] < x[10000] < x[10001], and x[1000] long before them."""
    import numpy as np
    import optyx

    rec.case({"huge-vector": n})
    x = optyx.VectorVariable("x", n, lb=0.0, ub=1.0)
    for label, P in (("single-vector", optyx.Problem().minimize(np.arange(1.0, n + 1.0) @ x)),
                     ("general-path", optyx.Problem().minimize(np.arange(1.0, n + 1.0) @ x + optyx.Variable("zz")).subject_to(x[0] + x[n - 1] >= 0.5))):
        got = [v.name for v in P.variables]
        want = [f"x[{i}]" for i in range(n)] + (["zz"] if label == "general-path" else [])
        rec.cmp(1, "huge-vector-order")
        if got != want:
            first = next((i for i, (g_, w_) in enumerate(zip(got, want)) if g_ != w_), min(len(got), len(want)))
            rec.violation("variables-not-in-natural-order", {"show": {"model": f"{label}: c @ x with x = VectorVariable('x', {n})"}, "first_difference_at": first,
                                                           "got": got[max(0, first - 2): first + 3], "want": want[max(0, first - 2): first + 3]})


def run_history(rec, rng):
    """The variable list after each edit of ONE problem object (objective replaced by a smaller / larger / disjoint one,
    constraints added, variables read in between) must be that of the current model."""
    import optyx

    g = G.Gen(rng, bounds=True, matrices=rng.random() < 0.5)
    b = SharingBuilder(g.decls)
    P = optyx.Problem()
    cur_obj, cur_cons = None, []
    steps = []
    edited = {}
    for step in range(rng.randint(3, 8)):
        r = rng.random()
        try:
            if r < 0.12 and len(steps) >= 1:
                # subject_to([valid, valid, <not a constraint>]) raises; the caller catches it and goes on: whatever part of the list
                # the problem kept is part of its definition now
                rels = [["rel", rng.choice(["<=", ">="]), g.scalar(rng.randint(0, 2)), g.const(raw=True), "direct"] for _ in range(2)]
                cs = [b.rel(r_) for r_ in rels]
                if any(isinstance(c_, list) for c_ in cs):
                    continue
                before = len(P.constraints)
                try:
                    P.subject_to(cs + ["not a constraint"])
                    rec.violation("invalid-list-entry-accepted", {"steps": steps})
                    return
                except Exception:
                    pass
                kept = len(P.constraints) - before
                if not 0 <= kept <= 2:
                    rec.violation("unexpected-number-of-constraints-after-a-rejected-list", {"steps": steps, "kept": kept})
                    return
                cur_cons.extend(rels[:kept])
                steps.append(f"subject_to([2 valid, 1 invalid]) raised, kept {kept}")
                rec.cmp(1, "history:rejected-constraint-list")
            elif r < 0.45 or (cur_obj is None and rng.random() < 0.5):
                node = g.scalar(rng.randint(0, 2))
                if node[0] in ("const", "raw"):
                    node = g.leaf()
                e = b.S(node)
                (P.minimize if rng.random() < 0.5 else P.maximize)(e)
                cur_obj = node
                steps.append("objective:" + A.render(node)[:60])
            elif r < 0.7:
                rel = random_rel_over(rng, g)
                if rel is None:
                    continue
                P.subject_to(b.rel(rel))
                cur_cons.append(rel)
                steps.append("subject_to:" + A.render(rel)[:60])
            elif r < 0.85 and steps:
                # a bound re-declared on a variable object of the problem after its bounds were read: the user's declaration is
                # what the object holds now (the solvers rebuild bounds from it on every solve)
                vs = list(P.variables)
                if vs:
                    v = vs[rng.randrange(len(vs))]
                    which = rng.choice(["lb", "ub", "both"])
                    lo = rng.choice([None, -3.0, -1.5, 0.0])
                    hi = rng.choice([None, 0.5, 2.0, 7.0])
                    if which in ("lb", "both"):
                        v.lb = lo
                    if which in ("ub", "both"):
                        v.ub = hi
                    edited[v.name] = (v.lb, v.ub)
                    steps.append(f"bound-edit:{v.name}.{which}")
                    rec.cmp(1, "history:bound-edit-after-read")
            else:
                steps.append("read")
            if cur_obj is None and cur_cons:
                rec.cmp(1, "history:constraints-without-an-objective")
        except Exception as ex:
            rec.events["history-build-unsupported:" + type(ex).__name__] += 1
            return
        try:
            want = SC.mentioned({"decls": g.decls, "objective": cur_obj, "constraints": cur_cons})
        except (R.ShapeError, R.OutOfModel):
            return
        try:
            got = [v.name for v in P.variables]
            n = P.n_variables
            gb = P.get_bounds()
        except Exception as ex:
            rec.violation("variables-raises-in-history:" + type(ex).__name__, {"steps": steps, "error": repr(ex)[:200], "show": {"steps": steps}})
            return
        rec.cmp(1, "history")
        keys = [R.natural_key(nm) for nm in got]
        if sorted(got) != sorted(want) or any(keys[i] > keys[i + 1] for i in range(len(keys) - 1)) or n != len(want) or len(gb) != len(want):
            rec.violation("variables-stale-after-edit", {"steps": steps, "got": got, "want": want, "decls": g.decls, "show": {"decls": A.render_decls(g.decls), "steps": steps}})
            return
        info_ = R.Decls(g.decls).var_info()
        held = {v.name: (v.lb, v.ub) for v in P.variables}  # what the listed objects declare now (edited names only)
        wantb = [held[nm] if nm in edited else (info_[nm][0], info_[nm][1]) if nm in info_ else (0.0, 0.0) for nm in got]
        if [tuple(None if v is None else float(v) for v in t) for t in gb] != [tuple(None if v is None else float(v) for v in t) for t in wantb]:
            rec.violation("bounds-stale-after-edit", {"steps": steps, "got": [list(t) for t in gb], "want": wantb, "show": {"steps": steps}})
            return
    rec.case({"history": steps, "d": g.decls})


def random_rel_over(rng, g):
    s = rng.choice(["<=", ">=", "=="])
    if rng.random() < 0.6 or not g.vecs:
        return ["rel", s, g.scalar(rng.randint(0, 2)), g.const(raw=True), "direct"]
    v, size = g.vector(rng.randint(0, 1))
    if v[0] in ("vpow", "vfn"):
        return None
    return ["rel", s, v, g.const(raw=True) if rng.random() < 0.5 else g.arr(size), "direct"]


def replay(w, rec):
    check(rec, w["cell"], w["decls"], w["objective"], w["constraints"])


# workloads added after the seventh round of seeded changes (DESIGN section 9): part of the rule of this check
_RULE_ADDENDUM = 'edit histories incl. rejected constraint lists and constraints without an objective'
_info_base = info


def info(tier):  # noqa: F811
    d = _info_base(tier)
    d["rule"] = d["rule"] + "; " + _RULE_ADDENDUM
    return d
