"""C18 - integrality is never relaxed silently.

Cells: declaration route (scalar, vector, VectorVariable.from_numpy, slices, stepped / reversed slices,
matrix, transpose, rows, columns, sub-matrices, diagonal(), diag(),
diag_matrix(), symmetric) x domain {integer, binary} x model shape {all
discrete, discrete strict subset, discrete only in a constraint} x solver
method (10).  Observed:
 * solve(m, strict=True) raises IntegerVariableError naming exactly the
   non-continuous problem variables, with zero calls at the SciPy seams;
 * solve(m) emits a UserWarning naming exactly those variables and returns the
   solution of the continuous relaxation (twin process with the domains set
   to continuous; binary keeps [0, 1]);
 * every binary element has bounds (0, 1) and every view keeps the domain.
"""
from __future__ import annotations

import copy
import re
import warnings

import numpy as np

from ..monitors.seams import Seams
from ..monitors.twin import Twin, TwinError
from ..recipes import ast as A
from ..recipes import build as B
from ..recipes import ref as R
from .. import solvecheck as SC

LEVEL = "exploration"
BUDGET_S = {"quick": 420, "thorough": 1500}
METHODS = ["auto", "linprog", "highs", "highs-ds", "highs-ipm", "SLSQP", "trust-constr", "L-BFGS-B", "BFGS", "Nelder-Mead", "COBYLA"]
LP_ONLY = {"linprog", "highs", "highs-ds", "highs-ipm"}

_x = ["vec", "x"]
_A, _G = ["mat", "A"], ["mat", "G"]
ROUTES = {
    "scalar": ("S", ["var", "k"]),
    "vector": ("V", _x),
    "slice": ("V", ["slice", _x, 1, 4, None]),
    "stepped-slice": ("V", ["slice", _x, 0, 5, 2]),
    "reversed-slice": ("V", ["slice", _x, None, None, -1]),
    "matrix": ("M", _A),
    "transpose": ("M", ["T", _A]),
    "row": ("V", ["row", _A, 1]),
    "column": ("V", ["col", _A, 2]),
    "row-of-transpose": ("V", ["row", ["T", _A], 0]),
    "sub-matrix": ("M", ["sub", _A, 0, 2, 1, 3]),
    "diagonal()": ("V", ["diag", _G]),
    "diag()": ("V", ["diagf", _G]),
    "diag_matrix()": ("M", ["dmat", ["vec", "y"]]),
    "symmetric": ("M", _G),
    "symmetric-row": ("V", ["row", _G, 2]),
    "long-vector(40)": ("V", ["vec", "w"]),
    "long-vector-slice(35)": ("V", ["slice", ["vec", "w"], 3, 38, None]),
    "square-matrix(6x6)": ("M", ["mat", "H"]),
    "from_numpy": ("V", _x),
    "from_numpy-slice": ("V", ["slice", _x, 1, 4, None]),
    "diag_matrix()-of-from_numpy": ("M", ["dmat", ["vec", "y"]]),
}
SHAPES = ["all-discrete", "mixed", "discrete-only-in-constraint", "vector-reductions-only"]


def decls_for(domain, odd_bounds=False, via=None):
    kw = {"dom": domain}
    if domain == "integer":
        # "fractional": the relaxation's optimum sits on a fractional bound (rounding the box inwards is not the relaxation)
        if odd_bounds == "fractional":
            kw.update(lb=0.5, ub=2.75)
        elif odd_bounds == "large":
            kw.update(lb=0.0, ub=1e6)  # quantities in the tens of thousands: a fractional optimum there is still fractional
        else:
            kw.update(lb=0.0, ub=3.0)
    elif odd_bounds in (True, "odd"):
        kw.update(lb=-5.0, ub=7.0)  # binary must still come out as [0, 1]
    return [
        {"k": "var", "name": "t", "lb": 0.0, "ub": 2.0},
        {"k": "var", "name": "k", **kw},
        {"k": "vec", "name": "x", "n": 5, **kw, **({"via": via} if via else {})},
        {"k": "vec", "name": "y", "n": 2, **kw, **({"via": via} if via else {})},
        {"k": "mat", "name": "A", "r": 2, "c": 3, **kw},
        {"k": "mat", "name": "G", "r": 3, "c": 3, "sym": True, **kw},
        {"k": "vec", "name": "w", "n": 40, **kw},
        {"k": "mat", "name": "H", "r": 6, "c": 6, **kw},
    ]


def elements(D, kind, node):
    it = R.Interp(D, R.SetAlg())
    if kind == "S":
        return [node[1]]
    if kind == "V":
        return list(it.vnames(node))
    return [n for row in it.mnames(node) for n in row]


def scalar_node(D, name):
    if name.startswith("_diag_"):
        m = re.match(r"_diag_(\w+)\[(\d+),(\d+)\]", name)
        return ["mel", ["dmat", ["vec", m.group(1)]], int(m.group(2)), int(m.group(3))]
    if "[" not in name:
        return ["var", name]
    base, ij = name[:-1].split("[")
    if "," in ij:
        i, j = ij.split(",")
        return ["mel", ["mat", base], int(i), int(j)]
    return ["el", ["vec", base], int(ij)]


def make_problem(route, domain, shape, nonlinear, odd):
    decls = decls_for(domain, odd, "from_numpy" if "from_numpy" in route else None)
    D = R.Decls(decls)
    kind, node = ROUTES[route]
    els = list(dict.fromkeys(elements(D, kind, node)))
    t = ["var", "t"]

    def el_node(i, nm):
        # go through the *view* so that the route's own element access is what is exercised
        if kind == "S":
            return node
        if kind == "V":
            return ["el", node, elements(D, kind, node).index(nm)]
        names2d = R.Interp(D, R.SetAlg()).mnames(node)
        for r, row in enumerate(names2d):
            for c, n2 in enumerate(row):
                if n2 == nm:
                    return ["mel", node, r, c]

    terms = []
    for i, nm in enumerate(els):
        v = el_node(i, nm)
        if nonlinear:
            terms.append(["bin", "**", ["bin", "-", v, ["raw", 0.3 + 0.2 * i, "float"]], ["raw", 2, "int"]])
        else:
            terms.append(["bin", "*", ["raw", 1.0 + 0.5 * i, "float"], v])
    tt = ["bin", "**", ["bin", "-", t, ["raw", 0.7, "float"]], ["raw", 2, "int"]] if nonlinear else ["bin", "*", ["raw", 2.0, "float"], t]

    def total(ts):
        n = ts[0]
        for u in ts[1:]:
            n = ["bin", "+", n, u]
        return n

    lin_all = total([el_node(i, nm) for i, nm in enumerate(els)])
    cons = []
    big = 83332.62 if odd == "large" else 0.0
    if shape == "vector-reductions-only" and kind == "V":
        # objective and constraint are reductions of ONE vector object (a knapsack): nothing else mentions a variable
        nel = len(elements(D, kind, node))
        w = [1.0 + 0.5 * i for i in range(nel)]
        obj = ["sum", ["vpow", ["vbin", "-", node, ["arr", [0.3 + 0.2 * i for i in range(nel)]]], 2]] if nonlinear else ["matmul", ["arr", w], node]
        prob = {"decls": decls, "objective": obj, "sense": "min", "constraints": [["rel", ">=", ["sum", node], ["raw", 0.5 + big, "float"], "direct"]]}
        if odd in ("pinned-some", "pinned-all"):
            pin = els[:1] if odd == "pinned-some" else els
            prob["bound_edits"] = {nm: [1.0 if domain == "binary" else 2.0] * 2 for nm in pin if not nm.startswith("_diag_")}
        return prob, els
    if shape == "all-discrete":
        obj = total(terms)
        cons.append(["rel", ">=", lin_all, ["raw", 0.5 + big, "float"], "direct"])
    elif shape == "mixed":
        obj = total(terms + [tt])
        cons.append(["rel", ">=", ["bin", "+", lin_all, t], ["raw", 0.75 + big, "float"], "direct"])
    else:
        obj = tt
        cons.append(["rel", ">=", ["bin", "+", lin_all, t], ["raw", 1.25 + big, "float"], "direct"])
    prob = {"decls": decls, "objective": obj, "sense": "min", "constraints": cons}
    if odd in ("pinned-some", "pinned-all"):
        # discrete variables fixed through their bounds after the model was written (a branch-and-bound node): still discrete
        pin = els[:1] if odd == "pinned-some" else els
        val = 1.0 if domain == "binary" else 2.0
        prob["bound_edits"] = {nm: [val, val] for nm in pin if not nm.startswith("_diag_")}
    return prob, els


def info(tier):
    return {
        "level": LEVEL,
        "rule": "declaration route (22) x domain (2) x model shape (3) x method (11) x {linear, nonlinear objective}; per cell: "
        "strict=True must raise IntegerVariableError with exactly the discrete problem variables and 0 seam calls; "
        "non-strict must warn naming exactly them and equal the twin's continuous relaxation; binary bounds (0,1) and view "
        "domains checked on every element; quick runs a seed-rotated third of the method axis per cell; distinct = canonical "
        "(problem, method) hashes",
        "required_cells": [f"route:{r}" for r in ROUTES] + [f"method:{m}" for m in METHODS] + [f"shape:{s}" for s in SHAPES]
        + ["domain:integer", "domain:binary", "strict-raises", "warning-names", "relaxation-equals-twin", "binary-bounds", "view-domain",
                             "repeat:strict-after-solve", "repeat:warning-after-solve", "bounds:plain", "bounds:odd", "bounds:fractional", "bounds:pinned-some", "bounds:pinned-all", "bounds:large", "warning-when-the-solver-call-fails", "names-with-commas", "relaxed-values-through-container-handles", "non-strict-spelling:omitted", "non-strict-spelling:False", "non-strict-spelling:None", "non-strict-spelling:0"],
        "assumptions": ["the relaxation twin is the same recipe with domain=continuous (binary -> [0,1]) solved in the twin process with the same method"],
    }


def run_cell(rec, seams, twin, route, domain, shape, method, nonlinear, odd):
    import optyx
    from optyx.core.errors import IntegerVariableError

    prob, els = make_problem(route, domain, shape, nonlinear, odd)
    rec.case({"r": route, "d": domain, "s": shape, "m": method, "nl": nonlinear, "odd": odd})
    D = R.Decls(prob["decls"])
    show = {"route": route, "domain": domain, "shape": shape, "method": method, "objective": A.render(prob["objective"])[:200],
            "constraints": [A.render(c)[:200] for c in prob["constraints"]]}

    def bad(what, **kw):
        rec.violation(what, {"route": route, "domain": domain, "shape": shape, "method": method, "nonlinear": nonlinear, "odd": odd, "show": show, **kw})

    names = SC.mentioned(prob)
    info_ = D.var_info()

    def dom_of(nm):
        if nm in info_:
            return info_[nm][2]
        return "continuous"  # the fixed-zero off-diagonal entries of diag_matrix() are constants

    Dset = [nm for nm in names if dom_of(nm) != "continuous"]
    try:
        b = B.Builder(prob["decls"])
        kind, node = ROUTES[route]
        view = b.any(node)
        P = b.problem(prob)
    except Exception as ex:
        bad("build-raises:" + type(ex).__name__, error=repr(ex)[:200])
        return
    for c in (f"route:{route}", f"method:{method}", f"shape:{shape}", f"domain:{domain}", "bounds:" + (odd if isinstance(odd, str) else ("odd" if odd else "plain"))):
        rec.cmp(1, c)

    # --- binary bounds and view domains ---------------------------------------
    pv = {v.name: v for v in P.variables}
    for nm in names:
        v = pv.get(nm)
        if v is None:
            bad("problem-variable-missing", name=nm)
            return
        rec.cmp(1, "view-domain")
        if v.domain != dom_of(nm):
            bad("domain-lost-or-changed", name=nm, got=v.domain, want=dom_of(nm))
            return
        if v.domain == "binary" and nm not in (prob.get("bound_edits") or {}):  # (a bound the user edited afterwards is the user's)
            rec.cmp(1, "binary-bounds")
            if (v.lb, v.ub) != (0.0, 1.0):
                bad("binary-variable-without-unit-bounds", name=nm, got=[v.lb, v.ub])
                return
    if hasattr(view, "domain") and kind != "S":
        rec.cmp(1, "view-domain")
        if view.domain != domain:
            bad("view-container-lost-domain", got=view.domain, want=domain)

    is_lp = not nonlinear
    if method in LP_ONLY and not is_lp:
        return  # explicit LP method on a nonlinear model raises NonLinearError: not this property
    kw = {"maxiter": 200} if method == "trust-constr" else {}

    # --- strict=True ------------------------------------------------------------
    seams.reset()
    rec.cmp(1, "strict-raises")
    try:
        with warnings.catch_warnings():
            warnings.simplefilter("ignore")
            P.solve(method=method, strict=True, **kw)
        bad("strict-did-not-raise")
    except IntegerVariableError as ex:
        listed = list(getattr(ex, "variable_names", []) or [])
        if sorted(listed) != sorted(Dset):
            bad("strict-error-lists-wrong-variables", got=listed, want=Dset)
        if seams.n_calls:
            bad("solver-entered-before-strict-error", calls=seams.n_calls)
    except Exception as ex:
        bad("strict-raises-other:" + type(ex).__name__, error=repr(ex)[:200])
        return

    # --- non-strict, and the underlying solver call fails at once: the relaxation is still announced -------------------
    if not (is_lp and method in LP_ONLY | {"auto"}):
        seams.reset()
        seams.min_stub = lambda call: (_ for _ in ()).throw(ValueError("scripted failure inside the solver call"))
        try:
            with warnings.catch_warnings(record=True) as wl0:
                warnings.simplefilter("always")
                s0 = P.solve(method=method, **kw)
            rec.cmp(1, "warning-when-the-solver-call-fails")
            if seams.min_calls and not any(issubclass(w.category, UserWarning) and "integer/binary" in str(w.message) for w in wl0):
                bad("no-relaxation-warning-when-the-solver-call-fails", status=s0.status.value)
        except Exception as ex:
            rec.events["scripted-solver-failure-propagated:" + type(ex).__name__] += 1
        finally:
            seams.min_stub = None
    # --- non-strict: warning + relaxation ----------------------------------------
    seams.reset()
    try:
        with warnings.catch_warnings(record=True) as wl:
            warnings.simplefilter("always")
            # "not strict" in every spelling a caller may use: omitted, False, None (e.g. cfg.get("strict")), 0
            falsy = [{}, {"strict": False}, {"strict": None}, {"strict": 0}][(len(route) + len(method) + len(shape) + int(bool(nonlinear))) % 4]
            rec.cells["non-strict-spelling:" + (repr(falsy.get("strict")) if falsy else "omitted")] += 1
            sol = P.solve(method=method, **kw, **falsy)
    except Exception as ex:
        bad("non-strict-solve-raises:" + type(ex).__name__, error=repr(ex)[:200])
        return
    rec.cmp(1, "warning-names")
    msgs = [str(w.message) for w in wl if issubclass(w.category, UserWarning) and "integer/binary" in str(w.message)]
    if not msgs:
        bad("no-relaxation-warning", warnings=[str(w.message)[:100] for w in wl])
    else:
        m = re.search(r"Variables \[(.*?)\] have", msgs[0], flags=re.S)
        # names contain commas (A[0,1]): split on ', ' only at top level
        got_names = split_names(m.group(1)) if m else []
        if sorted(got_names) != sorted(Dset):
            bad("warning-names-wrong-variables", got=got_names, want=Dset)
    # the relaxed solution read through container handles (sol[x], sol[A], sol.get(view)): the values of the continuous relaxation,
    # element for element - not rounded or cast to the declared domain
    if sol.values:
        handles = [(d["name"], b.env[d["name"]]) for d in prob["decls"] if d["k"] in ("vec", "mat")]
        if kind != "S":
            handles.append(("route-view", view))
        for hname, h in handles:
            try:
                if hasattr(h, "rows"):
                    hn = [[h[i_, j_].name for j_ in range(h.cols)] for i_ in range(h.rows)]
                else:
                    hn = [v_.name for v_ in h]
                flat = [n_ for row_ in hn for n_ in row_] if hn and isinstance(hn[0], list) else hn
                if not all(n_ in sol.values for n_ in flat):
                    continue
                want_arr = np.array([[sol.values[n_] for n_ in row_] for row_ in hn] if hn and isinstance(hn[0], list) else [sol.values[n_] for n_ in hn], dtype=float)
                for how, got_ in (("[]", sol[h]), ("get", sol.get(h))):
                    rec.cmp(1, "relaxed-values-through-container-handles")
                    ga = np.asarray(got_)
                    if ga.shape != want_arr.shape or ga.dtype.kind != "f" or not np.array_equal(ga.astype(float), want_arr):
                        bad("container-handle-does-not-return-the-relaxed-values", handle=hname, how=how, got=ga.tolist(), got_dtype=str(ga.dtype), want=want_arr.tolist())
                        break
            except Exception as ex:
                bad("container-handle-raises:" + type(ex).__name__, handle=hname, error=repr(ex)[:200])
    # the same problem object again, now with warm solver caches: integrality must still not be relaxed silently
    seams.reset()
    rec.cmp(1, "repeat:strict-after-solve")
    try:
        with warnings.catch_warnings():
            warnings.simplefilter("ignore")
            P.solve(method=method, strict=True, **kw)
        bad("strict-did-not-raise-on-second-solve")
    except IntegerVariableError:
        if seams.n_calls:
            bad("solver-entered-before-strict-error-on-second-solve", calls=seams.n_calls)
    except Exception as ex:
        bad("strict-raises-other-on-second-solve:" + type(ex).__name__, error=repr(ex)[:200])
    try:
        with warnings.catch_warnings(record=True) as wl2:
            warnings.simplefilter("always")
            P.solve(method=method, **kw)
        rec.cmp(1, "repeat:warning-after-solve")
        if not [w for w in wl2 if issubclass(w.category, UserWarning) and "integer/binary" in str(w.message)]:
            bad("no-relaxation-warning-on-second-solve")
    except Exception as ex:
        bad("second-non-strict-solve-raises:" + type(ex).__name__, error=repr(ex)[:200])
    # twin relaxation
    rel_decls = copy.deepcopy(prob["decls"])
    for d in rel_decls:
        if d.get("dom") == "binary":
            d["lb"], d["ub"] = 0.0, 1.0
        d.pop("dom", None)
    dom_over = {}
    bnd_over = {}
    try:
        tw = twin.call({"op": "solve", "prob": dict(prob, decls=rel_decls), "method": method, "kwargs": kw,
                        "bounds_override": bnd_over, "domain_override": dom_over})
    except TwinError as ex:
        rec.inconclusive.append("twin: " + str(ex))
        return
    if "error" in tw:
        rec.noncomp["twin-error:" + tw["error"][:40]] += 1
        return
    rec.cmp(1, "relaxation-equals-twin")
    if tw["status"] != sol.status.value:
        bad("relaxation-status-differs", got=sol.status.value, want=tw["status"])
        return
    if sol.status.value == "optimal":
        d = abs(sol.objective_value - tw["objective"]) / (1 + abs(tw["objective"]))
        rec.disc("relaxation", d)
        dx = max(abs(sol.values[k] - tw["values"].get(k, 1e9)) for k in sol.values)
        if d > 1e-7 or dx > 1e-5:
            bad("relaxation-result-differs", got=[sol.objective_value, sol.values], want=[tw["objective"], tw["values"]])
    rec.sample(show, cap=3)


def split_names(s):
    out, depth, cur = [], 0, ""
    for ch in s:
        if ch == "[":
            depth += 1
        elif ch == "]":
            depth -= 1
        if ch == "," and depth == 0:
            out.append(cur.strip())
            cur = ""
        else:
            cur += ch
    if cur.strip():
        out.append(cur.strip())
    return out


def run_odd_names(rec, seams, method, nonlinear):
    """Discrete scalar variables whose names come from tuple / string keys ("y(0, 1)", "n[a, b]", "q, r"): the strict error and the
    warning name exactly the discrete problem variables - names are data, not a format"""
    import optyx
    from optyx.core.errors import IntegerVariableError

    rec.case({"odd-names": method, "nl": nonlinear})
    ys = {(i_, j_): optyx.Variable(f"y{(i_, j_)}", domain="binary") for i_ in range(2) for j_ in range(2)}
    n_ab = optyx.Variable("n[a, b]", lb=0, ub=3, domain="integer")
    qr = optyx.Variable("q, r", lb=0, ub=2, domain="integer")
    plain = optyx.Variable("k", lb=0, ub=3, domain="integer")
    t = optyx.Variable("t", lb=0.0, ub=2.0)
    disc = list(ys.values()) + [n_ab, qr, plain]
    want = sorted(v.name for v in disc)
    obj = None
    for i_, v in enumerate(disc + [t]):
        term = (v - (0.3 + 0.2 * i_)) ** 2 if nonlinear else (1.0 + 0.5 * i_) * v
        obj = term if obj is None else obj + term
    tot = t
    for v in disc:
        tot = tot + v
    P = optyx.Problem().minimize(obj).subject_to(tot >= 1.25)
    seams.reset()
    rec.cmp(1, "names-with-commas")
    try:
        with warnings.catch_warnings():
            warnings.simplefilter("ignore")
            P.solve(method=method, strict=True)
        rec.violation("strict-did-not-raise", {"method": method, "names": want})
    except IntegerVariableError as ex:
        listed = sorted(getattr(ex, "variable_names", []) or [])
        if listed != want:
            rec.violation("strict-error-lists-wrong-variables", {"method": method, "got": listed, "want": want, "model": "scalar variables named from tuple keys"})
    except Exception as ex:
        rec.violation("strict-raises-other:" + type(ex).__name__, {"method": method, "error": repr(ex)[:200]})
    try:
        with warnings.catch_warnings(record=True) as wl:
            warnings.simplefilter("always")
            P.solve(method=method)
        msgs = [str(w.message) for w in wl if issubclass(w.category, UserWarning) and "integer/binary" in str(w.message)]
        rec.cmp(1, "names-with-commas")
        if not msgs:
            rec.violation("no-relaxation-warning", {"method": method, "model": "scalar variables named from tuple keys"})
        elif not all(nm in msgs[0] for nm in want) or "'t'" in msgs[0]:
            rec.violation("warning-names-wrong-variables", {"method": method, "message": msgs[0][:300], "want": want})
    except Exception as ex:
        rec.violation("non-strict-solve-raises:" + type(ex).__name__, {"method": method, "error": repr(ex)[:200]})


def run(ctx, rec):
    seams = Seams().install()
    twin = Twin().start()
    try:
        i = 0
        for mi, method in enumerate(METHODS):
            for nonlinear in (False, True):
                i += 1
                if ctx.mine(i) and not (method in LP_ONLY and nonlinear):
                    run_odd_names(rec, seams, method, nonlinear)
        for route in ROUTES:
            for domain in ("integer", "binary"):
                for shape in SHAPES:
                    for mi, method in enumerate(METHODS):
                        for nonlinear in (False, True):
                            i += 1
                            if not ctx.mine(i):
                                continue
                            if ctx.tier == "quick" and (i // 16 + ctx.seed) % 3 != 0:
                                continue
                            if rec.out_of_time():
                                rec.inconclusive.append("time budget reached before the cell matrix was finished")
                                return
                            modes = ["plain", "fractional", "pinned-some", "large"] if domain == "integer" and (i // 5) % 2 else ["plain", "fractional", "pinned-some", "pinned-all"] if domain == "integer" else ["plain", "odd", "pinned-some", "pinned-all"]
                            bm = modes[(i // 3 + mi) % 4]
                            rec.cells["bounds:" + bm] += 0
                            run_cell(rec, seams, twin, route, domain, shape, method, nonlinear, odd=(False if bm == "plain" else bm))
                            if rec.inconclusive:
                                return
    finally:
        twin.close()
        seams.uninstall()


def replay(w, rec):
    seams = Seams().install()
    twin = Twin().start()
    try:
        run_cell(rec, seams, twin, w["route"], w["domain"], w["shape"], w["method"], w["nonlinear"], w["odd"])
    finally:
        twin.close()
        seams.uninstall()


# workloads added after the seventh round of seeded changes (DESIGN section 9): part of the rule of this check
_RULE_ADDENDUM = 'relaxed values read through container handles; discrete scalar variables whose names contain commas'
_info_base = info


def info(tier):  # noqa: F811
    d = _info_base(tier)
    d["rule"] = d["rule"] + "; " + _RULE_ADDENDUM
    return d
