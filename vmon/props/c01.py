"""C01 - compiled callable = tree evaluation = formula.

Oracle: independent reference interpreter (float64) on the recipe.
Routes observed per case and point: Expression.evaluate, compile_expression
(cold + LRU hit), compile_to_dict_function, CompiledExpression.value, a fresh
build compiled through the iterative (deep-tree) builder, and - when the recipe
has parameters - callables compiled *before* a Parameter.set().
"""
from __future__ import annotations

import numpy as np

from .. import exprcase as X
from .. import harness as H
from ..harness import close
from ..monitors.coverage import closure_sites
from ..recipes import ast as A
from ..recipes import build as B
from ..recipes import ref as R

LEVEL = "exploration"
BUDGET_S = {"quick": 420, "thorough": 1500}
N_RANDOM = {"quick": 1500, "thorough": 40000}  # per shard
RTOL = 1e-9


def info(tier):
    return {
        "level": LEVEL,
        "rule": "scalar recipes (directed: every public scalar node kind x 4 variable-list relations; random: weighted "
        "grammar, depth<=4, seeded) evaluated at 3 regular points (margin>=1e-2, |.|<=1e6) through 6 routes; every second directed and every sixth random recipe "
        "also as a DAG (the recipe occurring 2-4 times as ONE shared object inside t*t+t, sin(t)/(t*t+1.5), ...); a case is "
        "non-trivial if it has >=2 operator nodes; distinct = distinct canonical recipe+V hashes",
        "required_cells": X.required_cells() + [c for c, _, _ in same_name_batches()] + ["shared-subexpressions|" + v for v in X.VRELS] + [c for c, _, _ in kink_cases()]
        + [f"special:{k}|{v}" for k in ("tiny", "near-one", "near-integer-exponent", "near-integer-vpow", "near-zero") for v in ("exact", "superset_permuted")],
        "assumptions": [
            "NumPy ufuncs are the arithmetic substrate of both optyx and the reference",
            "points are regular (distance to every singular set >= 1e-2); irregular points are excluded, not judged",
            "constructions the API rejects at build time with an exception are counted as unsupported, not judged",
        ],
    }


def _scalar(v):
    a = np.asarray(v)
    if a.size != 1:
        raise TypeError(f"non-scalar result of shape {a.shape}")
    return float(a.reshape(-1)[0])


def run_case(case, rec, lowered=True):
    from optyx.core import compiler as C

    decls, node, V = case["decls"], case["node"], case["V"]
    D = R.Decls(decls)
    fam, vrel = case["family"], case["vrel"]
    cell = f"{fam}|{vrel}"
    B.SHARE[0] = bool(case.get("share"))
    H.SCALE_INV[0] = float(case.get("inv_scale", 1.0))
    rec.case({"d": decls, "n": node, "V": V, "s": B.SHARE[0]}, nontrivial=A.n_ops(node) >= 2)
    if B.SHARE[0]:
        cell = "shared-subexpressions|" + vrel
    try:
        b = B.Builder(decls)
        e = b.S(node)
    except Exception as ex:  # the API rejected the construction
        rec.events["unsupported-build:" + type(ex).__name__] += 1
        return
    if not hasattr(e, "evaluate") or not hasattr(e, "get_variables"):
        rec.events["unsupported-build:not-an-expression"] += 1
        return
    Vobjs = b.variables(V)

    def bad(route, what, pt, got=None, want=None, ex=None):
        mech = f"{route}:{what}"
        rec.violation(mech, {"case": case, "route": route, "point": pt, "got": got, "want": want,
                             "error": repr(ex)[:300] if ex is not None else None, "show": X.show(case)})

    routes = {}
    try:
        routes["compile"] = C.compile_expression(e, Vobjs)
        routes["compile-cached"] = C.compile_expression(e, Vobjs)
        routes["dict"] = C.compile_to_dict_function(e, Vobjs)
        ce = C.CompiledExpression(e, Vobjs)
        routes["CompiledExpression"] = ce.value
    except Exception as ex:
        bad("compile", "raises:" + type(ex).__name__, None, ex=ex)
        rec.cmp(1, cell)
        return
    for s in closure_sites(routes["compile"]):
        rec.paths["site:%s:%d" % s] += 1

    # fresh build of the same recipe through the iterative builder
    it_fn = None
    b2 = None
    if lowered:
        old = C._RECURSION_THRESHOLD
        try:
            C._RECURSION_THRESHOLD = 1
            b2 = B.Builder(decls)
            e2 = b2.S(node)
            it_fn = C.compile_expression(e2, b2.variables(V))
        except Exception as ex:
            bad("compile-iterative", "raises:" + type(ex).__name__, None, ex=ex)
        finally:
            C._RECURSION_THRESHOLD = old

    # the same expression object compiled again for another order of the same variables
    if len(V) >= 2:
        V2 = list(reversed(V)) if len(V) == 2 else V[1:] + V[:1]
        pt = case["points"][0]
        try:
            got2 = _scalar(C.compile_expression(e, b.variables(V2))(B.point_array(V2, pt)))
            want2, t2 = R.ref_value(D, node, pt)
            rec.cmp(1, cell)
            if not close(got2, want2, RTOL, t2.mag)[0]:
                bad("compile-second-variable-order", "mismatch", pt, got2, want2)
        except Exception as ex:
            bad("compile-second-variable-order", "raises:" + type(ex).__name__, pt, ex=ex)

    nbad = {}
    worst = {}
    for pt in case["points"]:
        want, t = R.ref_value(D, node, pt)
        x = B.point_array(V, pt)
        obs = {}
        for name in ("evaluate", "compile", "compile-cached", "dict", "CompiledExpression", "compile-iterative"):
            try:
                if name == "evaluate":
                    obs[name] = _scalar(e.evaluate(dict(pt)))
                elif name == "dict":
                    obs[name] = _scalar(routes["dict"](dict(pt)))
                elif name == "compile-iterative":
                    if it_fn is None:
                        continue
                    obs[name] = _scalar(it_fn(x))
                else:
                    obs[name] = _scalar(routes[name](x))
            except Exception as ex:
                bad(name, "raises:" + type(ex).__name__, pt, ex=ex)
                rec.cmp(1, cell)
                nbad[name] = -99
                continue
            ok, d = close(obs[name], want, RTOL, t.mag)
            rec.cmp(1, cell)
            rec.disc("value", d if ok else 0.0)
            if not ok:
                nbad[name] = nbad.get(name, 0) + 1
                if d > worst.get(name, (0, None))[0]:
                    worst[name] = (d, (pt, obs[name], want))
    for name, k in nbad.items():
        if k > 0 and (k >= 2 or worst[name][0] > 1e-3):
            pt, got, want = worst[name][1]
            bad(name, "mismatch", pt, got, want)

    # the dict entry point with exactly the compiled names, inserted in other orders than the variable list
    if not nbad and len(V) >= 2:
        pt = case["points"][0]
        want, t = R.ref_value(D, node, pt)
        for label, order in (("reversed", list(reversed(V))), ("rotated", V[1:] + V[:1]), ("sorted-by-value", sorted(V, key=lambda nm: (pt[nm], nm)))):
            try:
                got = _scalar(routes["dict"]({nm: pt[nm] for nm in order}))
            except Exception as ex:
                bad("dict", "raises-on-exact-keys:" + type(ex).__name__, pt, ex=ex)
                break
            rec.cmp(1, cell)
            rec.events["dict-key-order-comparisons"] += 1
            if not close(got, want, RTOL, t.mag)[0]:
                bad("dict", "result-depends-on-the-insertion-order-of-the-dict:" + label, pt, got, want)
                break

    # the caller's point buffer reused: one ndarray (and one dict) updated in place between the calls
    if len(case["points"]) >= 2 and not nbad:
        buf = B.point_array(V, case["points"][0]).copy()
        dbuf = dict(case["points"][0])
        seq = {"compile": routes["compile"], "CompiledExpression": routes["CompiledExpression"]}
        if it_fn is not None:
            seq["compile-iterative"] = it_fn
        for pt in list(case["points"]) + [case["points"][0]]:
            buf[:] = B.point_array(V, pt)
            dbuf.update(pt)
            want, t = R.ref_value(D, node, pt)
            for name, fn in list(seq.items()) + [("dict", None)]:
                try:
                    got = _scalar(routes["dict"](dbuf)) if name == "dict" else _scalar(fn(buf))
                except Exception as ex:
                    bad(name + "-same-buffer", "raises:" + type(ex).__name__, pt, ex=ex)
                    continue
                rec.cmp(1, cell)
                rec.events["same-buffer-comparisons"] += 1
                if not close(got, want, RTOL, t.mag)[0]:
                    bad(name, "stale-or-wrong-after-in-place-update-of-the-point-buffer", pt, got, want)
                    seq.pop(name, None)

    # the point in other legal representations (integer-typed arrays, a list of ints)
    forms = X.other_point_forms(case, margin=1e-2) if not nbad else None
    if forms is not None:
        pt, reps = forms
        want, t = R.ref_value(D, node, pt)
        if np.isfinite(want) and t.regular():
            for label, xrep in reps:
                for name in ("compile", "CompiledExpression"):
                    try:
                        with np.errstate(all="ignore"):
                            got = _scalar(routes[name](xrep))
                    except Exception as ex:  # NumPy's own integer-arithmetic refusals: not a result, not judged
                        rec.events[f"point-form-refused:{label}:{type(ex).__name__}"] += 1
                        continue
                    rec.cmp(1, cell)
                    rec.events["point-form-comparisons:" + label] += 1
                    if not close(got, want, RTOL, t.mag)[0]:
                        bad(name, "result-depends-on-the-dtype-of-the-point:" + label, pt, got, want)

    # parameters: callables compiled before the update must see the new value
    pnames = sorted({x[1] for x in A.walk(node) if x[0] == "par"} | {f"{x[1]}[{x[2]}]" for x in A.walk(node) if x[0] == "pel"})
    if pnames:
        pt = case["points"][0]
        newvals = {}
        xb = B.point_array(V, pt)
        for fn_ in (routes["compile"], routes["CompiledExpression"], it_fn):
            # the last call before the update is at the very point (and array object) of the first call after it
            if fn_ is not None:
                try:
                    fn_(xb)
                except Exception:
                    pass
        for i, pn in enumerate(pnames):
            nv = [0.75, -1.25, 2.25, 0.5][i % 4]
            b.params[pn].set(nv)
            newvals[pn] = nv
        want, t = R.ref_value(D, node, pt, params=newvals)
        if np.isfinite(want) and t.regular():
            x = xb
            after = {"evaluate": lambda: e.evaluate(dict(pt)), "compile": lambda: routes["compile"](x),
                     "CompiledExpression": lambda: routes["CompiledExpression"](x), "dict": lambda: routes["dict"](dict(pt))}
            if it_fn is not None:
                # the callable of the *other* build (iterative builder), compiled before the update: its own Parameter objects
                for pn, nv in newvals.items():
                    b2.params[pn].set(nv)
                after["compile-iterative"] = lambda: it_fn(x)
            for name in after:
                try:
                    got = _scalar(after[name]())
                except Exception as ex:
                    bad(name + "-after-set", "raises:" + type(ex).__name__, pt, ex=ex)
                    continue
                ok, d = close(got, want, RTOL, t.mag)
                rec.cmp(1, cell)
                rec.events["after-set-comparisons"] += 1
                if not ok:
                    bad(name + "-after-set", "mismatch", pt, got, want)
    rec.sample(X.show(case))


SN_DECLS = [{"k": "vec", "name": "x", "n": 6}, {"k": "mat", "name": "A", "r": 2, "c": 4}, {"k": "var", "name": "s"}]


def same_name_batches():
    """Groups of *different* views that carry the same generated name (x[0:6], x[0:6:2], x[::-1] are all "x[0:6]";
    A[0,0:2], A[0,2:4], A[0,1:] are all "A[0,:]"): every reduction of every view is compiled against ONE variable
    list, one after the other, so that anything keyed by the view's name instead of its elements shows up."""
    x, A_ = ["vec", "x"], ["mat", "A"]
    groups = [
        [["slice", x, 0, 6, None], ["slice", x, 0, 6, 2], ["slice", x, None, None, -1], ["slice", x, 0, 6, 3], ["slice", x, 5, None, -2]],
        [["slice", x, 1, 5, None], ["slice", x, 1, 5, 2], ["slice", x, 1, 5, 3]],
        [["rows", A_, 0, 0, 2, None], ["rows", A_, 0, 2, 4, None], ["rows", A_, 0, 1, None, None], ["row", A_, 0], ["rows", A_, 0, None, None, -1]],
        [["cols", A_, 1, 0, 1, None], ["cols", A_, 1, 1, 2, None], ["col", A_, 1]],
    ]
    forms = [
        ("sum", lambda v, n: ["sum", v]),
        ("lc", lambda v, n: ["matmul", ["arr", [1.0 + 0.5 * i for i in range(n)]], v]),
        ("dot-self", lambda v, n: ["dot", v, v]),
        ("norm2", lambda v, n: ["norm", v, 2, "method"]),
        ("norm1", lambda v, n: ["norm", v, 1, "method"]),
        ("powsum", lambda v, n: ["sum", ["vpow", v, 3]]),
        ("unarysum", lambda v, n: ["sum", ["vfn", "exp", v]]),
        ("qf", lambda v, n: ["qf", v, [[1.0 + (i == j) + 0.25 * i - 0.5 * j for j in range(n)] for i in range(n)]]),
        ("sum+const", lambda v, n: ["bin", "+", ["sum", v], ["raw", 1.0, "float"]]),
    ]
    out = []
    for gi, g in enumerate(groups):
        for fname, mk in forms:
            out.append((f"same-name-views:{gi}:{fname}", g, mk))
    return out


def run_same_name_batch(rec, rng, cell, views, mk):
    from optyx.core import compiler as C

    D = R.Decls(SN_DECLS)
    V = R.natural_sorted(D.all_var_names())
    pt = {nm: round(rng.uniform(0.4, 1.9), 4) for nm in V}
    x = B.point_array(V, pt)
    b = B.Builder(SN_DECLS)
    Vobjs = b.variables(V)
    it = R.Interp(D, R.SetAlg())
    for vnode in views:
        node = mk(vnode, len(it.vnames(vnode)))
        rec.case({"n": node, "batch": cell})
        want, t = R.ref_value(D, node, pt)
        try:
            e = b.S(node)
            got = {"compile": _scalar(C.compile_expression(e, Vobjs)(x)), "evaluate": _scalar(e.evaluate(dict(pt))),
                   "CompiledExpression": _scalar(C.CompiledExpression(e, Vobjs).value(x))}
        except Exception as ex:
            rec.violation("same-name-views:raises:" + type(ex).__name__, {"show": {"expr": A.render(node), "V": V}, "error": repr(ex)[:200]})
            rec.cmp(1, cell)
            continue
        for route, g in got.items():
            rec.cmp(1, cell)
            if not close(g, want, RTOL, t.mag)[0]:
                rec.violation(f"{route}:mismatch-after-same-named-view", {"show": {"expr": A.render(node), "V": V, "batch": [A.render(v) for v in views]},
                                                                           "route": route, "got": g, "want": want})


def kink_cases():
    """(cell, node, point): points on a kink of the expression where its VALUE is perfectly defined (a norm at the origin, |x| at 0,
    a distance between coinciding points) - derivatives are C19's business, the value is C01's"""
    y, x = ["vec", "y"], ["vec", "x"]
    z3 = {"y[0]": 0.0, "y[1]": 0.0, "y[2]": 0.0}
    c = [0.5, -1.25, 2.0]
    at_c = {"y[0]": c[0], "y[1]": c[1], "y[2]": c[2]}
    same = {"y[0]": 0.75, "y[1]": -0.5, "y[2]": 1.5, "x[1]": 0.75, "x[2]": -0.5, "x[3]": 1.5}
    return [
        ("kink:norm2@origin", ["norm", y, 2, "method"], z3), ("kink:norm2-function@origin", ["norm", y, 2], z3),
        ("kink:norm1@origin", ["norm", y, 1, "method"], z3), ("kink:norm2(y-c)@y=c", ["norm", ["vbin", "-", y, ["arr", c]], 2], at_c),
        ("kink:norm2(y-x[1:4])@equal", ["norm", ["vbin", "-", y, ["slice", x, 1, 4, None]], 2], same),
        ("kink:sqrt(y.y)@origin", ["fn", "sqrt", ["dot", y, y]], z3), ("kink:abs@0", ["bin", "+", ["fn", "abs", ["var", "a"]], ["var", "b"]], {"a": 0.0, "b": 1.5}),
        ("kink:sum-abs@origin", ["sum", ["vfn", "abs", y]], z3), ("kink:norm2*scalar@origin", ["bin", "*", ["norm", y, 2, "method"], ["var", "a"]], {**z3, "a": 2.0}),
        ("kink:fro@zero-matrix", ["fro", ["mat", "A"]], {f"A[{i},{j}]": 0.0 for i in range(2) for j in range(3)}),
        ("kink:norm2@one-zero-component", ["norm", y, 2, "method"], {"y[0]": 0.0, "y[1]": -3.0, "y[2]": 4.0}),
        ("kink:norm2@largest-entry-zero", ["norm", y, 2], {"y[0]": 0.0, "y[1]": -3.0, "y[2]": -4.0}),
    ]


def run_kink(rec, rng, cell, node, spt):
    from optyx.core import compiler as C

    D = R.Decls(X.D0)
    used = R.ref_vars(D, node)
    V = R.natural_sorted(set(used) | {"zz"})
    if rng.random() < 0.5:
        V = list(reversed(V))
    pt = {nm: 0.9 for nm in D.all_var_names()}
    pt["zz"] = 0.3
    pt.update(spt)
    rec.case({"kink": cell, "V": V})
    want, _t = R.ref_value(D, node, pt)
    show = {"expr": A.render(node), "V": V, "point": {k: pt[k] for k in V}}
    try:
        b = B.Builder(X.D0)
        e = b.S(node)
        Vobjs = b.variables(V)
        xarr = B.point_array(V, pt)
        ce = C.CompiledExpression(e, Vobjs)
        obs = {"evaluate": lambda: e.evaluate(dict(pt)), "compile": lambda: C.compile_expression(e, Vobjs)(xarr),
               "dict": lambda: C.compile_to_dict_function(e, Vobjs)({nm: pt[nm] for nm in V}), "CompiledExpression": lambda: ce.value(xarr)}
        old = C._RECURSION_THRESHOLD
        try:
            C._RECURSION_THRESHOLD = 1
            b2 = B.Builder(X.D0)
            fn_it = C.compile_expression(b2.S(node), b2.variables(V))
        finally:
            C._RECURSION_THRESHOLD = old
        obs["compile-iterative"] = lambda: fn_it(xarr)
    except Exception as ex:
        rec.violation("kink:build-or-compile-raises:" + type(ex).__name__, {"show": show, "error": repr(ex)[:200]})
        return
    for route, f in obs.items():
        rec.cmp(1, cell)
        try:
            with np.errstate(all="ignore"):
                got = _scalar(f())
        except Exception as ex:
            rec.violation(f"{route}:raises-at-a-kink:{type(ex).__name__}", {"show": show, "error": repr(ex)[:200]})
            continue
        if not close(got, want, RTOL, 10.0)[0]:
            rec.violation(f"{route}:value-wrong-at-a-kink", {"show": show, "got": got, "want": want, "cell": cell})


def run(ctx, rec):
    rng = ctx.rng
    for i, (cell, node, spt) in enumerate(kink_cases()):
        if ctx.mine(i):
            run_kink(rec, rng, cell, node, spt)
    k = 0
    for case in X.directed_cases(rng, ctx.mine):
        run_case(case, rec)
        k += 1
        if k % 3 == 0:
            rec.events["twin-named-cases"] += 1
            run_case(X.twin_named_case(case), rec)
        if k % 2 == 0:
            # the same family with the node occurring several times as one shared object (DAG)
            sc = X.shared_case(rng, case, form=(k // 2) % len(X.DAG_FORMS))
            if sc is not None:
                run_case(sc, rec)
    for case in X.special_cases(rng, ctx.mine, n_points=3):
        run_case(case, rec)
    H.SCALE_INV[0] = 1.0
    for i, (cell, views, mk) in enumerate(same_name_batches()):
        if ctx.mine(i):
            vs = list(views)
            rng.shuffle(vs)
            run_same_name_batch(rec, rng, cell, vs, mk)
    n = 0
    target = N_RANDOM[ctx.tier]
    while n < target and not rec.out_of_time():
        n += 1
        case = X.random_case(rng, params=(n % 3 == 0))
        if case is None:
            rec.events["no-regular-point-or-no-vars"] += 1
            continue
        run_case(case, rec)
        if n % 6 == 0:
            sc = X.shared_case(rng, case)
            if sc is not None:
                run_case(sc, rec)
    hits = None
    try:
        from optyx.core.compiler import _compile_cached

        hits = _compile_cached.cache_info().hits
    except Exception:
        pass
    if hits is not None:
        rec.paths["compile-cache-hits"] += hits


def replay(w, rec):
    run_case(w["case"], rec)


# workloads added after the seventh round of seeded changes (DESIGN section 9): part of the rule of this check
_RULE_ADDENDUM = 'every third directed case also under zero-padded twin names (t1 / t01, s1 / s01); vectors packed from bare scalars and narrow-dtype coefficient families'
_info_base = info


def info(tier):  # noqa: F811
    d = _info_base(tier)
    d["rule"] = d["rule"] + "; " + _RULE_ADDENDUM
    return d
