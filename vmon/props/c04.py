"""C04 - degree / linearity classification never under-reports.

Semantic oracle: f is a polynomial of total degree <= d iff along every line
t -> f(p + t u) the (d+1)-th finite difference vanishes identically.  The
reference interpreter is evaluated along random rational lines, exactly
(fractions) when the recipe is rational, in float64 otherwise.  Only
under-reporting is judged (None / too high is allowed).
"""
from __future__ import annotations

import math
from fractions import Fraction

import numpy as np

from .. import exprcase as X
from ..recipes import ast as A
from ..recipes import build as B
from ..recipes import gen as G
from ..recipes import ref as R

LEVEL = "exploration"
BUDGET_S = {"quick": 420, "thorough": 1500}
N_RANDOM = {"quick": 2000, "thorough": 50000}

_x, _y, _a, _b = ["vec", "x"], ["vec", "y"], ["var", "a"], ["var", "b"]
_xe = ["vbin", "*", _y, ["raw", 2.0, "float"]]


def risky_families():
    F = [
        ("dot:nonpoly-elements", ["dot", ["vfn", "sin", _xe], _y]),
        ("dot:poly-elements-deg3", ["dot", ["vpow", _xe, 2], _y]),
        ("dot:const-vexpr", ["dot", ["vbin", "*", _y, ["raw", 0.0, "float"]], _y]),
        ("lc:nonpoly-elements", ["matmul", ["arr", [1.0, 2.0, 3.0]], ["vfn", "exp", _xe]]),
        ("lc:quadratic-elements", ["matmul", ["arr", [1.0, 2.0, 3.0]], ["vpow", _xe, 2]]),
        ("qf:nonpoly-elements", ["qf", ["vfn", "sin", _xe], X.Q3]),
        ("qf:quadratic-elements", ["qf", ["vpow", _xe, 2], X.Q3]),
        ("dotQ:other", ["dotQ", _y, X.Q3, ["slice", _x, 0, 3, None]]),
        ("vpowsum:2.5", ["sum", ["vpow", _x, 2.5]]),
        ("vpowsum:-1", ["sum", ["vpow", _x, -1]]),
        ("vpowsum:-2", ["sum", ["vpow", _x, -2]]),
        ("vpowsum:0.5", ["sum", ["vpow", _x, 0.5]]),
        ("vpowsum:1.5", ["sum", ["vpow", _x, 1.5]]),
        ("vpowsum:3", ["sum", ["vpow", _x, 3]]),
        ("vpowsum:0", ["sum", ["vpow", _x, 0]]),
        ("el:vpow:2.5", ["el", ["vpow", _x, 2.5], 1]),
        ("el:vpow:-1", ["el", ["vpow", _x, -1], 1]),
        ("vexpr-pow:2.5", ["sum", ["vpow", _xe, 2.5]]),
        ("vexpr-pow:-1", ["sum", ["vpow", _xe, -1]]),
        ("vfnsum", ["sum", ["vfn", "cos", _y]]),
        ("pow:0", ["bin", "**", ["fn", "sin", _a], ["raw", 0, "int"]]),
        ("pow:1", ["bin", "**", ["bin", "+", _a, ["raw", 5, "int"]], ["raw", 1, "int"]]),
        ("pow:2.0", ["bin", "**", _a, ["raw", 2.0, "float"]]),
        ("pow:-1", ["bin", "**", _a, ["raw", -1, "int"]]),
        ("pow:0.5", ["bin", "**", _a, ["raw", 0.5, "float"]]),
        ("pow:pow", ["bin", "**", ["bin", "**", _a, ["raw", 2, "int"]], ["raw", 3, "int"]]),
        ("pow:const-node", ["bin", "**", _a, ["const", 2, "int"]]),
        ("pow:npint", ["bin", "**", _a, ["const", 3, "npi64"]]),
        ("pow:arr0d", ["bin", "**", _a, ["const", 2.0, "arr0d"]]),
        ("div:by-const", ["bin", "/", ["bin", "+", _a, _b], ["raw", 2.0, "float"]]),
        ("div:by-var", ["bin", "/", _a, _b]),
        ("div:by-const-expr", ["bin", "/", _a, ["bin", "+", ["const", 1.0, "float"], ["const", 1.0, "float"]]]),
        ("div:const-by-var", ["bin", "/", ["raw", 1.0, "float"], _a]),
        ("mul:two-linear", ["bin", "*", ["bin", "+", _a, ["raw", 1, "int"]], ["bin", "-", _b, ["raw", 1, "int"]]]),
        ("mul:const-expr", ["bin", "*", ["bin", "+", ["const", 2.0, "float"], ["const", 3.0, "float"]], _a]),
        ("mul:zero", ["bin", "*", ["raw", 0, "int"], ["fn", "exp", _a]]),
        ("mul:lin-by-const-pow", ["bin", "*", _a, ["bin", "**", _b, ["raw", 0, "int"]]]),
        ("sub:cancel", ["bin", "-", ["fn", "sin", _a], ["fn", "sin", _a]]),
        ("neg:poly", ["neg", ["bin", "**", _a, ["raw", 3, "int"]]]),
        ("fn:poly-arg", ["fn", "abs", ["bin", "*", _a, ["raw", 0, "int"]]]),
        ("par:coef", ["bin", "*", ["par", "p"], _a]),
        ("par:exponent-of-variable", ["bin", "+", ["bin", "**", _a, ["par", "p"]], ["bin", "*", ["raw", 2, "int"], _b]]),
        ("par:exponent-of-sum", ["bin", "**", ["bin", "+", _a, _b], ["par", "p"]]),
        ("pel:exponent", ["bin", "*", ["bin", "**", _a, ["pel", "r", 0]], _b]),
        ("par:coefficient-of-square", ["bin", "+", ["bin", "*", ["par", "p"], ["bin", "**", _a, ["raw", 2, "int"]]], _b]),
        ("pinned:fixed-times-free", ["bin", "*", _a, _b]),
        ("pinned:fixed-cubed-plus-free", ["bin", "+", ["bin", "**", _a, ["raw", 3, "int"]], _b]),
        ("pinned:square-of-sum-times-fixed", ["bin", "*", ["bin", "**", ["bin", "+", _a, _b], ["raw", 2, "int"]], ["var", "x2"]]),
        ("msum:mat", ["msum", ["mat", "A"]]),
        ("msum:sq", ["msum", ["mbin", "**", ["mat", "A"], ["raw", 2, "int"]]]),
        ("trace", ["trace", ["mat", "G"]]),
        ("Mv:sum", ["sum", ["Mv", ["mat", "A"], _y]]),
        ("mv:sum", ["sum", ["mv", X.Q3, _y]]),
        ("mv:lc-over-quadratic", ["matmul", ["arr", [1.0, 2.0, 3.0]], ["mv", X.Q3, ["vpow", _xe, 2]]]),
        ("mv:lc-over-nonpoly", ["matmul", ["arr", [1.0, 2.0, 3.0]], ["mv", X.Q3, ["vfn", "sin", _xe]]]),
        ("mv:dot-with-quadratic", ["dot", _y, ["mv", X.Q3, ["vpow", _xe, 2]]]),
        ("mv:qf-of-quadratic", ["qf", ["mv", X.Q3, ["vpow", _xe, 2]], X.Q3]),
        ("mv:nested", ["sum", ["mv", X.Q3, ["mv", X.Q3, ["vpow", _xe, 3]]]]),
        ("mv:el-of-nonlinear", ["el", ["mv", X.Q3, ["vfn", "exp", _xe]], 1]),
        ("Mv:lc", ["matmul", ["arr", [1.0, -1.0]], ["Mv", ["mat", "A"], _y]]),
        ("norm2", ["norm", _y, 2]),
        ("sumsq", ["sum", ["vbin", "-", ["vpow", _xe, 2], _y]]),
    ]
    return F


def pinned_decls(decls):
    """every variable container declared with coinciding bounds"""
    import copy

    out = copy.deepcopy(decls)
    for k, d in enumerate(out):
        if d["k"] in ("var", "vec", "mat"):
            d["lb"] = d["ub"] = [2.0, -1.0, 0.5, 1.0][k % 4]
    return out


class PrequeryBuilder(B.Builder):
    def S(self, n):
        obj = super().S(n)
        try:
            if hasattr(obj, "degree"):
                obj.degree
                obj.is_linear()
        except Exception:
            pass
        return obj


class InspectBuilder(B.Builder):
    """every scalar / vector / matrix piece is inspected through the queries that are NOT classification (variables,
    text, hash) as soon as it is built - state those queries leave on a node must not change what it is classified as"""

    def _look(self, obj):
        for q in ("get_variables", "__repr__", "__str__", "__hash__"):
            try:
                getattr(obj, q)()
            except Exception:
                pass
        return obj

    def S(self, n):
        return self._look(super().S(n))

    def V(self, n):
        return self._look(super().V(n))

    def M(self, n):
        return self._look(super().M(n))


def info(tier):
    return {
        "level": LEVEL,
        "rule": "scalar recipes (directed: every family of exprcase + %d degree-risky families; random grammar); each "
        "reported finite degree (Expression.degree fresh and re-read, compute_degree, is_linear, is_quadratic, "
        "Expression.is_linear, the iterative traversal, Problem._is_linear_problem) is refuted or not by the "
        "(d+1)-th finite difference of the reference along 3 random rational lines (exact when rational); every case is "
        "built plainly, with every piece classified as soon as it exists (prequeried) and with every piece inspected "
        "through get_variables / repr / str / hash first (inspected); "
        "non-trivial = >=2 operator nodes" % len(risky_families()),
        "required_cells": [f"{fam}|{r}" for fam in [f_ for f_, _ in risky_families()] + ["shared-subexpressions"] for r in ("recursive", "iterative", "recursive-prequeried", "iterative-prequeried", "recursive-inspected", "iterative-inspected")],
        "assumptions": [
            "Schwartz-Zippel: a non-polynomial / higher-degree rational function has a non-zero (d+1)-th difference on "
            "random rational lines with overwhelming probability",
            "for non-rational recipes a float threshold 1e-6*scale separates float noise (~1e-12) from genuine differences",
        ],
    }


def _line(rng, names, positive):
    p, u = {}, {}
    for n in names:
        if positive:
            p[n] = Fraction(rng.randint(6, 12), 8)
            u[n] = Fraction(rng.randint(1, 3), 16)
        else:
            p[n] = Fraction(rng.randint(-12, 12), 8)
            u[n] = Fraction(rng.choice([-3, -2, -1, 1, 2, 3]), 8)
    return p, u


def exceeds_degree(rng, D, node, names, d, lines=3):
    """True / False / None(non-comparable): is the reference NOT a polynomial of degree <= d?"""
    order = max(d, -1) + 1
    verdicts = []
    for li in range(lines):
        positive = li % 2 == 0
        p, u = _line(rng, names, positive)
        pts = [{n: p[n] + k * u[n] for n in names} for k in range(order + 1)]
        vals = None
        try:
            vals = [R.ref_frac(D, node, pt) for pt in pts]
            exact = True
        except R.NotRational:
            exact = False
        except ZeroDivisionError:
            continue
        if not exact:
            vals = []
            for pt in pts:
                v, t = R.ref_value(D, node, {n: float(x) for n, x in pt.items()})
                vals.append(v)
            if not all(math.isfinite(v) for v in vals):
                continue
        diff = sum((-1) ** (order - k) * math.comb(order, k) * vals[k] for k in range(order + 1))
        if exact:
            verdicts.append(diff != 0)
        else:
            scale = max(1.0, max(abs(v) for v in vals)) * 2.0**order
            verdicts.append(abs(diff) > 1e-6 * scale)
    if not verdicts:
        return None
    return any(verdicts)


def run_case(case, rec, rng):
    import optyx
    from optyx import analysis as AN

    decls, node = case["decls"], case["node"]
    D = R.Decls(decls)
    fam = case["family"]
    B.SHARE[0] = bool(case.get("share"))
    rec.case({"d": decls, "n": node, "s": B.SHARE[0]}, nontrivial=A.n_ops(node) >= 2)
    names = sorted(set(R.ref_vars(D, node)) | set(D.all_var_names()))
    show = {"decls": A.render_decls(decls), "expr": A.render(node)}

    under = {}

    def bad(route, what, reported, ex=None):
        if what == "under-reports":
            under.setdefault(route.split(":")[0].replace("-prequeried", "").replace("-inspected", "") + ("+prior-degree-queries" if "prequeried" in route else "+prior-other-queries" if "inspected" in route else ""), []).append((route, reported))
            return
        rec.violation(f"{route}:{what}", {"case": case, "route": route, "reported": reported,
                                          "error": repr(ex)[:300] if ex is not None else None, "show": show})

    memo = {}

    def judge(route, d, cellroute):
        """d: finite degree claimed by `route`."""
        cell = f"{fam}|{cellroute}"
        if d not in memo:
            memo[d] = exceeds_degree(rng, D, node, names, d) if names else (None if d >= 0 else None)
        v = memo[d]
        if v is None:
            rec.noncomp["no-evaluable-line"] += 1
            rec.cmp(1, cell)
            return
        rec.cmp(1, cell)
        rec.paths[f"reported-degree:{min(d, 9)}|{cellroute}"] += 1
        if v:
            bad(route, "under-reports", d)

    for cellroute in ("recursive", "iterative", "recursive-prequeried", "iterative-prequeried", "recursive-inspected", "iterative-inspected"):
        old = AN._RECURSION_THRESHOLD
        try:
            if cellroute.startswith("iterative"):
                AN._RECURSION_THRESHOLD = 1
            try:
                # "prequeried": every sub-expression is classified (and caches its degree on the node) as soon as it is
                # built, like a user inspecting pieces of a model before assembling it
                b = (PrequeryBuilder if cellroute.endswith("prequeried") else InspectBuilder if cellroute.endswith("inspected") else B.Builder)(decls)
                e = b.S(node)
            except Exception as ex:
                rec.events["unsupported-build:" + type(ex).__name__] += 1
                return
            if not isinstance(e, optyx.Expression):
                rec.events["unsupported-build:not-an-expression"] += 1
                return
            obs = []
            try:
                obs.append(("compute_degree", AN.compute_degree(e)))
                obs.append(("Expression.degree", e.degree))
                obs.append(("Expression.degree(re-read)", e.degree))
                obs.append(("compute_degree(again)", AN.compute_degree(e)))
                obs.append(("is_linear", 1 if AN.is_linear(e) else None))
                obs.append(("is_quadratic", 2 if AN.is_quadratic(e) else None))
                obs.append(("Expression.is_linear", 1 if e.is_linear() else None))
                P = optyx.Problem().minimize(e)
                obs.append(("Problem._is_linear_problem", 1 if P._is_linear_problem() else None))
                va = b.variables(names[:1] or ["zz"])[0]
                P2 = optyx.Problem().minimize(va).subject_to(e <= 1.0)
                obs.append(("Problem._is_linear_problem(constraint)", 1 if P2._is_linear_problem() else None))
            except Exception as ex:
                bad(cellroute, "raises:" + type(ex).__name__, None, ex=ex)
                rec.cmp(1, f"{fam}|{cellroute}")
                continue
            any_finite = False
            for route, d in obs:
                if d is None:
                    continue
                any_finite = True
                judge(f"{cellroute}:{route}", int(d), cellroute)
            if not any_finite:
                rec.cmp(1, f"{fam}|{cellroute}")
                rec.paths[f"reported-degree:None|{cellroute}"] += 1
            # the same expression objects classified again after Parameter.set(): an answer that was read off the parameter's value
            # (an exponent, a zero coefficient) and memoised must not survive the update
            if b.params and case.get("after_set") and any(x[0] in ("par", "pel", "vparv", "dotP") for x in A.walk(node)):
                newvals = case["after_set"]
                try:
                    b.set_params(newvals)
                    obs2 = [("compute_degree", AN.compute_degree(e)), ("Expression.degree", e.degree),
                            ("is_linear", 1 if AN.is_linear(e) else None), ("is_quadratic", 2 if AN.is_quadratic(e) else None),
                            ("Problem._is_linear_problem", 1 if optyx.Problem().minimize(e)._is_linear_problem() else None)]
                except Exception as ex:
                    bad(cellroute, "raises-after-set:" + type(ex).__name__, None, ex=ex)
                    continue
                D2 = R.Decls(X.with_param_values(decls, newvals))
                for route, d in obs2:
                    if d is None:
                        continue
                    v2 = exceeds_degree(rng, D2, node, names, int(d)) if names else None
                    rec.cmp(1, f"{fam}|{cellroute}")
                    rec.events["after-set-classifications"] += 1
                    if v2:
                        rec.violation(f"{cellroute.replace('-prequeried', '')}:under-reports-after-Parameter.set", {
                            "case": case, "route": f"{cellroute}:{route}", "reported": int(d), "set": newvals, "show": show})
                        break
        finally:
            AN._RECURSION_THRESHOLD = old
    for trav, lst in under.items():
        rec.violation(f"{trav}:under-reports", {"case": case, "route": [r for r, _ in lst],
                                                "reported": sorted({d for _, d in lst}), "show": show})
    rec.sample(show)


def run(ctx, rec):
    rng = ctx.rng
    i = 0
    for fam, node in risky_families() + X.directed_families():
        i += 1
        if ctx.mine(i):
            run_case({"decls": X.D0, "node": node, "family": fam}, rec, rng)
            if i % 3 == 0 or fam.startswith(("mul:", "bilinear:", "pow:", "mel", "el")):
                # the same formula over variables whose bounds coincide (lb == ub): still variables of the expression
                rec.events["pinned-bounds-cases"] += 1
                run_case({"decls": pinned_decls(X.D0), "node": node, "family": fam, "pinned": True}, rec, rng)
            if any(x[0] in ("par", "pel", "vparv", "dotP") for x in A.walk(node)):
                for k_, (v0, v1) in enumerate([(1.0, 2.0), (0.0, 3.0), (2.0, 0.5)]):
                    d0 = X.with_param_values(X.D0, {"p": v0, "r": [v0, 1.0, v0]})
                    rec.events["parameter-reclassification-cases"] += 1
                    run_case({"decls": d0, "node": node, "family": fam, "after_set": {"p": v1, "r": [v1, 2.0, v1]}}, rec, rng)
            if i % 2 == 0:
                # the family node occurring several times as ONE shared object: polynomial DAG forms t*t + t and (t+1)*(t+1) - (t+1)
                t = node
                u = ["bin", "+", t, ["raw", 1.0, "float"]]
                dag = ["bin", "+", ["bin", "*", t, t], t] if i % 4 == 0 else ["bin", "-", ["bin", "*", u, u], u]
                run_case({"decls": X.D0, "node": dag, "family": "shared-subexpressions", "share": True}, rec, rng)
    B.SHARE[0] = False
    n = 0
    while n < N_RANDOM[ctx.tier] and not rec.out_of_time():
        n += 1
        g = G.Gen(rng, params=(n % 6 == 0), max_depth=3 if n % 2 else 4)
        node = g.scalar()
        try:
            R.ref_vars(g.D, node)
        except (R.ShapeError, R.OutOfModel):
            continue
        run_case({"decls": g.decls, "node": node, "family": "random"}, rec, rng)
        if n % 6 == 0:
            run_case({"decls": g.decls, "node": ["bin", "+", ["bin", "*", node, node], node], "family": "shared-subexpressions", "share": True}, rec, rng)
            B.SHARE[0] = False


def replay(w, rec):
    import random

    run_case(w["case"], rec, random.Random(0))


# workloads added after the seventh round of seeded changes (DESIGN section 9): part of the rule of this check
_RULE_ADDENDUM = 'the same formulas over variables pinned by lb == ub; the same expression objects re-classified after Parameter.set()'
_info_base = info


def info(tier):  # noqa: F811
    d = _info_base(tier)
    d["rule"] = d["rule"] + "; " + _RULE_ADDENDUM
    return d
