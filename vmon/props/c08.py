"""C08 - linear problems are solved to the true LP optimum with the true status.

Workload: linear models drawn as data (optimal, degenerate, infeasible by a
Farkas pair, unbounded along a free direction) written in random API syntax.
Oracle: scipy.optimize.linprog called directly on the *drawn data* assembled
in the canonical form (natural variable order, constraint order preserved,
>= rows negated) with the same HiGHS method.  The linprog seam additionally
records the arrays optyx actually passes on every (re-)solve.
"""
from __future__ import annotations

import numpy as np

from ..monitors.seams import Seams
from ..recipes import ast as A
from ..recipes import build as B
from ..recipes import lpgen as L
from ..recipes import ref as R

LEVEL = "exploration"
BUDGET_S = {"quick": 420, "thorough": 1500}
N_RANDOM = {"quick": 300, "thorough": 10000}
METHODS = ["auto", "linprog", "highs", "highs-ds", "highs-ipm"]
KINDS = ["optimal", "any", "infeasible", "unbounded"]


def info(tier):
    return {
        "level": LEVEL,
        "rule": "linear models drawn as data x 5 LP methods x {min,max}, each problem object solved 3 times (cold, cached "
        "LP data, after an unrelated model); status and objective compared with scipy.optimize.linprog on the "
        "canonical matrix form of the drawn data; arrays at the linprog seam compared with that form; non-trivial = "
        ">=2 variables and >=1 row; distinct = canonical (recipe, method) hashes",
        "required_cells": [f"method:{m}" for m in METHODS] + [f"ref-status:{s}" for s in ("optimal", "infeasible", "unbounded")]
        + ["sense:min", "sense:max", "solve:1", "solve:2", "solve:3", "history:flip-sense-same-object", "objective:deep-accumulation", "sweep:vector-spellings", "sweep:block-spellings"],
        "assumptions": [
            "HiGHS (through SciPy) is the trusted LP solver on both sides; identical input arrays give identical verdicts",
            "generator self-check (written recipe == drawn data, exact) else inconclusive",
        ],
    }


def canonical(lp):
    """Matrix form of the drawn data in the form a correct extraction yields."""
    D = R.Decls(lp["decls"])
    names = L.mentioned_names(lp)
    idx = {n: i for i, n in enumerate(names)}
    n = len(names)
    c = np.zeros(n)
    for nm, v in lp["c"].items():
        if nm in idx:
            c[idx[nm]] = v
    Aub, bub, Aeq, beq = [], [], [], []
    for row in lp["rows"]:
        r = np.zeros(n)
        for nm, v in row["coef"].items():
            r[idx[nm]] += v
        if row["sense"] == "==":
            Aeq.append(r)
            beq.append(row["rhs"])
        elif row["sense"] == "<=":
            Aub.append(r)
            bub.append(row["rhs"])
        else:
            Aub.append(-r)
            bub.append(-row["rhs"])
    info = D.var_info()
    bounds = [tuple(lp["bound_edits"][nm]) if nm in (lp.get("bound_edits") or {}) else (info[nm][0], info[nm][1]) for nm in names]
    return names, c, (np.array(Aub) if Aub else None), (np.array(bub) if bub else None), \
        (np.array(Aeq) if Aeq else None), (np.array(beq) if beq else None), bounds


REF_STATUS = {0: "optimal", 1: "max_iterations", 2: "infeasible", 3: "unbounded"}


def run_model(lp, method, rec, rng, seams, other_problem=None):
    import optyx

    rec.case({"o": lp["objective"], "c": lp["constraints"], "d": lp["decls"], "m": method, "s": lp["sense"]},
             nontrivial=len(lp["c"]) >= 2 and len(lp["rows"]) >= 1)
    chk = L.self_check(lp, rng)
    if chk is not None:
        rec.inconclusive.append("lp generator self-check failed: " + chk)
        return
    show = {"decls": A.render_decls(lp["decls"]), "objective": A.render(lp["objective"]),
            "constraints": [A.render(c) for c in lp["constraints"]], "sense": lp["sense"], "method": method}

    def bad(what, **kw):
        rec.violation(what, {"lp": lp, "method": method, "show": show, **kw})

    names, c, Aub, bub, Aeq, beq, bounds = canonical(lp)
    sgn = 1.0 if lp["sense"] == "min" else -1.0
    ref_method = "highs" if method in ("auto", "linprog") else method
    kw = {"c": sgn * c, "method": ref_method, "bounds": bounds}
    if Aub is not None:
        kw.update(A_ub=Aub, b_ub=bub)
    if Aeq is not None:
        kw.update(A_eq=Aeq, b_eq=beq)
    try:
        ref = seams.orig_linprog(**kw)
    except Exception as ex:
        rec.noncomp["reference-linprog-raises:" + type(ex).__name__] += 1
        return
    ref_status = REF_STATUS.get(ref.status, "failed")
    if ref.status == 1:
        # iteration / time limit on the reference side (HiGHS' interior point can spin on a degenerate LP; the harness bounds every
        # linprog call): no verdict of the trusted solver to compare with
        rec.noncomp["reference-linprog-hit-a-limit"] += 1
        return
    ref_obj = None
    if ref.status == 0:
        ref_obj = sgn * float(ref.fun) + lp["c0"]

    try:
        b = B.Builder(lp["decls"])
        P = b.problem(lp)
        if not P._is_linear_problem():
            rec.noncomp["not-treated-as-linear"] += 1
            return
    except Exception as ex:
        rec.events["unsupported-build:" + type(ex).__name__] += 1
        return

    for k in (1, 2, 3):
        if k == 3 and other_problem is not None:
            try:
                other_problem.solve()
            except Exception:
                pass
        seams.reset()
        try:
            sol = P.solve(method=method)
        except Exception as ex:
            bad(f"solve-raises:{type(ex).__name__}", solve=k, error=repr(ex)[:300])
            rec.cmp(1, f"solve:{k}")
            return
        rec.cmp(1, f"solve:{k}")
        rec.cmp(1, f"method:{method}")
        rec.cmp(1, f"ref-status:{ref_status}" if ref_status in ("optimal", "infeasible", "unbounded") else None)
        rec.cmp(1, f"sense:{lp['sense']}")
        got_status = sol.status.value
        rec.paths[f"status:{ref_status}->{got_status}"] += 1
        if got_status == "max_iterations" and any(getattr(cl.get("result"), "status", 0) == 1 for cl in seams.lp_calls if isinstance(cl, dict)):
            rec.noncomp["optyx-side-linprog-hit-a-limit"] += 1
            return
        if got_status == "max_iterations" and "time" in (sol.message or "").lower():
            rec.noncomp["optyx-side-linprog-hit-the-time-limit"] += 1
            return
        if got_status != ref_status:
            bad(f"status-differs:ref={ref_status}:optyx={got_status}", solve=k, ref_message=str(ref.message)[:100], message=sol.message[:100])
            return
        if ref_obj is not None:
            if sol.objective_value is None:
                bad("objective-missing", solve=k)
                return
            d = abs(sol.objective_value - ref_obj)
            rec.disc("objective", d / (1 + abs(ref_obj)))
            if d > 1e-7 * (1 + abs(ref_obj)):
                what = "objective-differs"
                if abs(sol.objective_value + lp["c0"] - ref_obj) <= 1e-7 * (1 + abs(ref_obj)):
                    what = "objective-differs-by-the-constant-term"
                bad(what, solve=k, got=sol.objective_value, want=ref_obj)
                return
        # second observation: the arrays at the seam equal the canonical form
        if len(seams.lp_calls) != 1:
            bad("linprog-seam-call-count", solve=k, got=len(seams.lp_calls))
            return
        call = seams.lp_calls[0]["kwargs"]
        for key, want in (("c", sgn * c), ("A_ub", Aub), ("b_ub", bub), ("A_eq", Aeq), ("b_eq", beq)):
            got = call.get(key)
            rec.cmp(1, None)
            if want is None:
                if got is not None and np.size(got):
                    bad(f"seam:{key}-present-but-no-such-rows", solve=k)
                    return
                continue
            if got is None or np.shape(got) != np.shape(want) or np.max(np.abs(np.asarray(got, float) - want)) > 1e-12:
                bad(f"seam:{key}-differs-from-the-written-model", solve=k, got=None if got is None else np.asarray(got).tolist(), want=want.tolist())
                return
        gb = call.get("bounds")
        if gb is not None and [tuple(x) for x in gb] != [tuple(x) for x in bounds]:
            bad("seam:bounds-differ", solve=k, got=[tuple(x) for x in gb], want=bounds)
            return
        if call.get("method") != ref_method:
            bad("seam:method-differs", solve=k, got=call.get("method"), want=ref_method)
            return
    # the same objective object re-set with the opposite sense, solved twice: must be the LP of the flipped model
    fsgn = -sgn
    kwf = dict(kw, c=fsgn * c)
    try:
        reff = seams.orig_linprog(**kwf)
    except Exception:
        return
    (P.maximize if lp["sense"] == "min" else P.minimize)(P.objective)
    for k in (4, 5):
        seams.reset()
        try:
            sol = P.solve(method=method)
        except Exception as ex:
            bad(f"solve-after-sense-flip-raises:{type(ex).__name__}", solve=k, error=repr(ex)[:200])
            return
        rec.cmp(1, "history:flip-sense-same-object")
        want_status = REF_STATUS.get(reff.status, "failed")
        if sol.status.value != want_status:
            bad(f"status-differs-after-sense-flip:ref={want_status}:optyx={sol.status.value}", solve=k)
            return
        if reff.status == 0:
            want_obj = fsgn * float(reff.fun) + lp["c0"]
            if sol.objective_value is None or abs(sol.objective_value - want_obj) > 1e-7 * (1 + abs(want_obj)):
                bad("objective-differs-after-sense-flip", solve=k, got=sol.objective_value, want=want_obj)
                return
    rec.sample(show, cap=3)


def run(ctx, rec):
    import optyx

    rng = ctx.rng
    seams = Seams().install()
    try:
        z = optyx.VectorVariable("x", 3, lb=0, ub=2)
        other = optyx.Problem().maximize(z.sum() + 1).subject_to(z[0] + 2 * z[1] <= 3)
        i = 0
        for form in L.VECTOR_FORMS:
            for s_ in ("<=", ">=", "=="):
                i += 1
                if ctx.mine(i):
                    for bare in (False, True):
                        rec.cmp(1, "sweep:vector-spellings")
                        run_model(L.form_lp(rng, form, s_, bare_objective=bare), METHODS[(i + ctx.shard) % len(METHODS)], rec, rng, seams, other)
        for form in L.BLOCK_FORMS:
            for s_ in ("<=", ">=", "=="):
                i += 1
                if ctx.mine(i):
                    rec.cmp(1, "sweep:block-spellings")
                    run_model(L.block_lp(rng, form, s_), METHODS[(i + ctx.shard) % len(METHODS)], rec, rng, seams, other)
        n = 0
        while n < N_RANDOM[ctx.tier] and not rec.out_of_time():
            kind = KINDS[n % len(KINDS)]
            layout = L.LAYOUTS[(n // len(KINDS)) % len(L.LAYOUTS)]
            method = METHODS[(n + ctx.shard) % len(METHODS)]
            n += 1
            if n % 25 == 14:
                lp = L.draw_lp(rng, layout=layout, kind="optimal", deep_objective=True, max_rows=0)  # deep objective, bounds only
            else:
                lp = L.draw_lp(rng, layout=layout, kind=kind, risky=(n % 5 != 0), deep_objective=(n % 25 == 3))
            if "deep-objective" in lp["layout"]:
                rec.cmp(1, "objective:deep-accumulation")
            run_model(lp, method, rec, rng, seams, other)
    finally:
        seams.uninstall()


def replay(w, rec):
    import random

    seams = Seams().install()
    try:
        run_model(w["lp"], w["method"], rec, random.Random(0), seams)
    finally:
        seams.uninstall()


# workloads added after the seventh round of seeded changes (DESIGN section 9): part of the rule of this check
_RULE_ADDENDUM = 'directed sweep of every vector / block spelling x sense as constraint and as bare objective'
_info_base = info


def info(tier):  # noqa: F811
    d = _info_base(tier)
    d["rule"] = d["rule"] + "; " + _RULE_ADDENDUM
    return d
