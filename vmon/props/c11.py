"""C11 - vector and matrix modelling operations denote their NumPy counterparts.

Oracle: the reference interpreter (plain float arithmetic on lists of values,
NumPy's shape rule) on the construction recipe.  Three workloads:
 (a) an enumerated operand-kind matrix: operation x operand kind x operand
     order for vectors and matrices, including every shape mismatch;
 (b) views: indexing / slicing / rows / columns / diagonals / transposes /
     symmetric sharing must select exactly the named variables;
 (c) random vector-, matrix- and scalar-valued construction recipes.
A construction the API rejects with an exception is never a violation; a
mismatched construction must raise (at build, or at the latest on first
evaluation) - silently yielding numbers is the violation.
"""
from __future__ import annotations

import numpy as np

from .. import harness as H
from ..harness import close
from ..recipes import ast as A
from ..recipes import build as B
from ..recipes import gen as G
from ..recipes import ref as R

LEVEL = "exploration"
BUDGET_S = {"quick": 420, "thorough": 1500}
N_RANDOM = {"quick": 2000, "thorough": 50000}
RTOL = 1e-9

DV = [
    {"k": "vec", "name": "x", "n": 3},
    {"k": "vec", "name": "y", "n": 3},
    {"k": "vec", "name": "z", "n": 2},
    {"k": "vec", "name": "w", "n": 1},
    {"k": "vec", "name": "v", "n": 5},
    {"k": "var", "name": "a"},
    {"k": "mat", "name": "A", "r": 2, "c": 3},
    {"k": "mat", "name": "B", "r": 2, "c": 3},
    {"k": "mat", "name": "C", "r": 3, "c": 2},
    {"k": "mat", "name": "S", "r": 3, "c": 3, "sym": True},
    {"k": "mat", "name": "Q", "r": 3, "c": 3},
]
_x, _y, _z, _w, _v = (["vec", n] for n in "xyzwv")
_A, _Bm, _C, _S, _Q = (["mat", n] for n in "ABCSQ")
_xe = ["vbin", "+", _y, ["raw", 1.0, "float"]]
_Ae = ["mbin", "*", _Bm, ["raw", 2.0, "float"]]

VEC_OPERANDS = [
    ("int", ["raw", 2, "int"]),
    ("float", ["raw", 1.5, "float"]),
    ("bool", ["raw", True, "bool"]),
    ("npf64", ["raw", 2.5, "npf64"]),
    ("npi64", ["raw", 3, "npi64"]),
    ("npf32", ["raw", 0.5, "npf32"]),
    ("arr0d", ["raw", 1.25, "arr0d"]),
    ("arr", ["arr", [1.5, -2.0, 0.5]]),
    ("arr-int", ["arr", [1, -2, 3]]),
    ("list", ["list", [1.5, -2.0, 0.5]]),
    ("tuple", ["tuple", [1.5, -2.0, 0.5]]),
    ("vector", _y),
    ("same-vector", _x),
    ("vexpr", _xe),
    ("reversed-view", ["slice", _x, None, None, -1]),
    ("slice-of-larger", ["slice", _v, 1, 4, None]),
    ("row-of-matrix", ["row", _A, 1]),
    ("vpow-node", ["vpow", _y, 2]),
    # the same data in other legal representations: unsigned / narrow integer dtypes, non-contiguous views
    ("arr-uint8", ["arr", [3, 2, 5], "uint8"]),
    ("arr-int8", ["arr", [3, -2, 5], "int8"]),
    ("arr-uint16", ["arr", [3, 2, 5], "uint16"]),
    ("arr-bool", ["arr", [1, 0, 1], "bool_"]),
    ("arr-strided-view", ["arr", [1.5, -2.0, 0.5], "strided"]),
    ("arr-reversed-view", ["arr", [1.5, -2.0, 0.5], "fliplr"]),
    ("arr-size1", ["arr", [2.0]]),
    ("vector-size1", _w),
    # mismatches (both sizes > 1 and unequal, or wrong dimensionality)
    ("MISMATCH:arr-short", ["arr", [1.0, 2.0]]),
    ("MISMATCH:arr-long", ["arr", [1.0, 2.0, 3.0, 4.0]]),
    ("MISMATCH:list-short", ["list", [1.0, 2.0]]),
    ("MISMATCH:vector-short", _z),
    ("MISMATCH:vector-long", _v),
    ("MISMATCH:vexpr-short", ["vbin", "*", _z, ["raw", 2.0, "float"]]),
    ("MISMATCH:arr2d", ["arr2", [[1.0, 2.0, 3.0], [4.0, 5.0, 6.0]]]),
]
MAT_OPERANDS = [
    ("int", ["raw", 2, "int"]),
    ("float", ["raw", 1.5, "float"]),
    ("npf64", ["raw", 2.5, "npf64"]),
    ("npi64", ["raw", 3, "npi64"]),
    ("arr0d", ["raw", 1.25, "arr0d"]),
    ("arr2", ["arr2", [[1.5, -2.0, 0.5], [2.0, 4.0, -1.0]]]),
    ("list2", ["list2", [[1.5, -2.0, 0.5], [2.0, 4.0, -1.0]]]),
    ("arr2-fortran-order", ["arr2", [[1.5, -2.0, 0.5], [2.0, 4.0, -1.0]], "F"]),
    ("arr2-transposed-view", ["arr2", [[1.5, -2.0, 0.5], [2.0, 4.0, -1.0]], "T"]),
    ("arr2-flipud-view", ["arr2", [[1.5, -2.0, 0.5], [2.0, 4.0, -1.0]], "flipud"]),
    ("arr2-fliplr-view", ["arr2", [[1.5, -2.0, 0.5], [2.0, 4.0, -1.0]], "fliplr"]),
    ("arr2-strided-view", ["arr2", [[1.5, -2.0, 0.5], [2.0, 4.0, -1.0]], "strided"]),
    ("arr2-uint8", ["arr2", [[3, 2, 5], [2, 4, 1]], "uint8"]),
    ("arr2-int16", ["arr2", [[3, -2, 5], [2, 4, -1]], "int16"]),
    ("matrix", _Bm),
    ("same-matrix", _A),
    ("mexpr", _Ae),
    ("transposed-view", ["T", _C]),
    ("MISMATCH:arr2-transposed-shape", ["arr2", [[1.0, 2.0], [3.0, 4.0], [5.0, 6.0]]]),
    ("MISMATCH:arr2-2x2", ["arr2", [[1.0, 2.0], [3.0, 4.0]]]),
    ("MISMATCH:matrix-3x2", _C),
    ("MISMATCH:mexpr-3x2", ["mbin", "+", _C, ["raw", 1.0, "float"]]),
    ("MISMATCH:arr1d", ["arr", [1.0, 2.0, 3.0]]),
]
OPS = ["+", "-", "*", "/", "**"]


def operand_matrix():
    """(cell, kind, node, expect_mismatch)"""
    out = []
    for left_name, left in (("vecvar", _x), ("vexpr", ["vbin", "*", _x, ["raw", 2.0, "float"]])):
        for oname, o in VEC_OPERANDS:
            mm = oname.startswith("MISMATCH")
            for op in OPS:
                out.append((f"{left_name} {op} {oname}", "V", ["vbin", op, left, o], mm))
                out.append((f"{oname} {op} {left_name}", "V", ["vrbin", op, o, left], mm))
    for left_name, left in (("matvar", _A), ("mexpr", ["mbin", "-", _A, ["raw", 1.0, "float"]])):
        for oname, o in MAT_OPERANDS:
            mm = oname.startswith("MISMATCH")
            for op in OPS:
                out.append((f"{left_name} {op} {oname}", "M", ["mbin", op, left, o], mm))
                out.append((f"{oname} {op} {left_name}", "M", ["mrbin", op, o, left], mm))
    # products, reductions
    Q3 = [[2.0, -0.5, 0.25], [1.0, 1.5, 0.0], [-0.75, 0.5, 3.0]]
    # vector on the LEFT of a constant 2-D array: NumPy's x @ M is M.T @ x (a size-k vector for an n x k array).  An API that does not
    # offer the form rejects it; one that accepts it must mean what NumPy means
    W32 = [[1.0, -2.0], [0.5, 0.25], [3.0, 1.0]]
    for left_name, left in (("vecvar", _x), ("vexpr", ["vbin", "*", _x, ["raw", 2.0, "float"]]), ("slice", ["slice", _x, None, None, -1])):
        out.append((f"{left_name} @ arr2(square-nonsymmetric)", "V", ["vM", left, Q3], False))
        out.append((f"{left_name}.dot(arr2 square-nonsymmetric)", "V", ["vM", left, Q3, "dot"], False))
        out.append((f"{left_name} @ nested-list(square-nonsymmetric)", "V", ["vM", left, Q3, "list"], False))
        out.append((f"{left_name} @ arr2(3x2)", "V", ["vM", left, W32], False))
        out.append((f"MISMATCH:{left_name} @ arr2(2x3)", "V", ["vM", left, [[1.0, -2.0, 0.5], [0.25, 3.0, 1.0]]], True))
    for oname, o in VEC_OPERANDS:
        # np.dot / @ do not broadcast: a size-1 operand is a mismatch here
        mm = oname.startswith("MISMATCH") or oname.endswith("size1")
        if o[0] in ("raw", "arr2"):
            continue
        out.append((f"vecvar.dot({oname})", "S", ["dot", _x, o], mm))
        out.append((f"vecvar @ {oname}", "S", ["matmul", _x, o], mm))
        out.append((f"{oname} @ vecvar", "S", ["matmul", o, _x], mm))
        out.append((f"vexpr @ {oname}", "S", ["matmul", _xe, o], mm))
        out.append((f"{oname} @ vexpr", "S", ["matmul", o, _xe], mm))
        out.append((f"vexpr.dot({oname})", "S", ["dot", _xe, o], mm))
    # element access with negative and mixed-sign indices on every matrix / vector kind (2x3 and 3x2 shapes: rows != cols)
    for mname, M in (("matvar", _A), ("mexpr", _Ae), ("mexpr.T", ["MT", _Ae]), ("matvar.T", ["T", _A]), ("sub", ["sub", _Q, 0, 2, 0, 3]),
                     ("mexpr-of-sub", ["mbin", "*", ["sub", _Q, 0, 2, 0, 3], ["raw", 2.0, "float"]]), ("symmetric", _S)):
        rows_, cols_ = (3, 2) if mname in ("mexpr.T", "matvar.T") else ((3, 3) if mname == "symmetric" else (2, 3))
        for (i_, j_) in ((0, -1), (-1, 0), (-1, -1), (1, -2), (-2, 1), (0, -cols_), (-rows_, cols_ - 1)):
            out.append((f"index {mname}[{'neg' if i_ < 0 else 'pos'},{'neg' if j_ < 0 else 'pos'}]", "S", ["mel", M, i_, j_], False))
    for vname, Vn in (("vecvar", _x), ("vexpr", _xe), ("slice", ["slice", _v, 1, 4, None]), ("row-of-mexpr", ["row", _Ae, 1]), ("col-of-matvar", ["col", _A, 1])):
        for i_ in (-1, -2, -(3 if vname != "col-of-matvar" else 2)):
            out.append((f"index {vname}[neg]", "S", ["el", Vn, i_], False))
    # quadratic forms whose constant matrix is an integer / boolean container, evaluated at non-integer points
    for form in ("int64", "int8", "uint8", "bool_", "list"):
        Qi = [[1, 0, 1], [1, 1, 0], [0, 1, 1]] if form == "bool_" else ([[2, 1, 0], [3, 1, 0], [0, 1, 3]] if form == "uint8" else [[2, -1, 0], [1, 3, 0], [-1, 1, 3]])
        out.append((f"quadratic form Q<{form}>", "S", ["qf", _x, Qi, form], False))
        out.append((f"quadratic form of vexpr Q<{form}>", "S", ["qf", _xe, Qi, form], False))
        if form != "list":
            out.append((f"x.dot(Q<{form}> @ x)", "S", ["dotQ", _x, Qi, _x, form], False))
    # coefficient data of tiny uniform scale (exact power of two; observations are scaled back before the comparison)
    t_ = 2.0 ** -30
    tiny3 = ["arr", [1.5 * t_, -2.0 * t_, 0.25 * t_]]
    Qt = [[v * t_ for v in row] for row in Q3]
    for nm, kind_, node_ in [
        ("TINY:vecvar @ array", "S", ["matmul", _x, tiny3]), ("TINY:array @ vecvar", "S", ["matmul", tiny3, _x]),
        ("TINY:vecvar.dot(list)", "S", ["dot", _x, ["list", tiny3[1]]]), ("TINY:array @ vexpr", "S", ["matmul", tiny3, _xe]),
        ("TINY:Q3x3 @ vec3", "V", ["mv", Qt, _x]), ("TINY:Q3x3 @ vexpr3", "V", ["mv", Qt, _xe]),
        ("TINY:vecvar * array", "V", ["vbin", "*", _x, tiny3]), ("TINY:quadratic form", "S", ["qf", _x, Qt]),
        ("TINY:x.dot(Q @ x)", "S", ["dotQ", _x, Qt, _x]),
    ]:
        out.append((nm, kind_, node_, False))
    for form in ("F", "T", "flipud", "strided"):
        out.append((f"Q3x3<{form}> @ vec3", "V", ["mv", Q3, _x, form], False))
        out.append((f"Q3x3<{form}> @ vexpr3", "V", ["mv", Q3, _xe, form], False))
    out.append(("Q3x3<uint8> @ vec3", "V", ["mv", [[2, 1, 0], [1, 3, 4], [0, 5, 6]], _x, "uint8"], False))
    for nm, Qm, vec, mm in [
        ("Q3x3 @ vec3", Q3, _x, False),
        ("Q2x3 @ vec3", Q3[:2], _x, False),
        ("Q3x3 @ vexpr3", Q3, _xe, False),
        ("MISMATCH:Q3x3 @ vec2", Q3, _z, True),
        ("MISMATCH:Q2x3 @ vec5", Q3[:2], _v, True),
    ]:
        out.append((nm, "V", ["mv", Qm, vec], mm))
    for nm, M, vec, mm in [
        ("A2x3 @ vec3", _A, _x, False),
        ("A2x3 @ vexpr3", _A, _xe, False),
        ("S3x3 @ vec3", _S, _y, False),
        ("A.T3x2 @ vec2", ["T", _A], _z, False),
        ("MISMATCH:A2x3 @ vec2", _A, _z, True),
        ("MISMATCH:C3x2 @ vec3", _C, _x, True),
    ]:
        out.append((nm, "V", ["Mv", M, vec], mm))
    for nm, vec, Qm, mm in [
        ("qf vec3 Q3", _x, Q3, False),
        ("qf vexpr3 Q3", _xe, Q3, False),
        ("MISMATCH:qf vec2 Q3", _z, Q3, True),
        ("MISMATCH:qf vec3 Q2x3", _x, Q3[:2], True),
    ]:
        out.append((nm, "S", ["qf", vec, Qm], mm))
    out.append(("x.dot(Q @ x)", "S", ["dotQ", _x, Q3, _x], False))
    out.append(("x.dot(Q @ y)", "S", ["dotQ", _x, Q3, _y], False))
    out.append(("x.dot(Q @ reversed x)", "S", ["dotQ", _x, Q3, ["slice", _x, None, None, -1]], False))
    out.append(("v[1:4].dot(Q @ v[3:0:-1])", "S", ["dotQ", ["slice", _v, 1, 4, None], Q3, ["slice", _v, 3, 0, -1]], False))
    out.append(("MISMATCH:z.dot(Q3 @ x)", "S", ["dotQ", _z, Q3, _x], True))
    for nm, node, mm in [
        ("trace S", ["trace", _S], False),
        ("trace method Q", ["trace", _Q, "method"], False),
        ("MISMATCH:trace A2x3", ["trace", _A], True),
        ("MISMATCH:trace method A2x3", ["trace", _A, "method"], True),
        ("msum A", ["msum", _A], False),
        ("msum S", ["msum", _S], False),
        ("msum mexpr", ["msum", _Ae], False),
        ("msum hadamard", ["msum", ["mbin", "*", _A, _Bm]], False),
        ("fro A", ["fro", _A], False),
        ("fro mexpr", ["fro", ["mbin", "-", _A, ["arr2", [[0.5, -1.0, 2.0], [1.5, 0.25, -0.75]]]]], False),
        ("fro matvar+matvar", ["fro", ["mbin", "+", _A, _Bm]], False),
        ("fro mexpr.T", ["fro", ["MT", ["mbin", "*", _Q, ["raw", 2.0, "float"]]]], False),
        ("fro sub-matrix", ["fro", ["sub", _Q, 0, 2, 1, 3]], False),
        ("msum of reused mexpr", ["msum", ["mbin", "**", ["mbin", "-", _A, ["raw", 1.0, "float"]], ["raw", 2, "int"]]], False),
        ("fro S", ["fro", _S], False),
        ("norm2 vec", ["norm", _x, 2, "method"], False),
        ("norm1 vec", ["norm", _x, 1, "method"], False),
        ("norm2 vexpr", ["norm", _xe, 2], False),
        ("norm1 vexpr", ["norm", _xe, 1], False),
        ("sum vec", ["sum", _x], False),
        ("sum vexpr", ["sum", _xe], False),
        ("sum vpow", ["sum", ["vpow", _x, 3]], False),
        ("sum vfn", ["sum", ["vfn", "exp", _x]], False),
    ]:
        out.append((nm, "S", node, mm))
    for nm, node, mm in [
        ("diag S", ["diag", _S], False),
        ("diagf Q", ["diagf", _Q], False),
        ("MISMATCH:diag A2x3", ["diag", _A], True),
        ("MISMATCH:diagf A2x3", ["diagf", _A], True),
        ("vfn vecvar", ["vfn", "sin", _x], False),
        ("vfn vexpr", ["vfn", "exp", _xe], False),
        ("vpow vecvar", ["vpow", _x, 3], False),
        ("vpow vexpr", ["vpow", _xe, 2], False),
        ("vneg vecvar", ["vneg", _x], False),
        ("vneg vexpr", ["vneg", _xe], False),
    ]:
        out.append((nm, "V", node, mm))
    for nm, node, mm in [
        ("mneg matvar", ["mneg", _A], False),
        ("mneg mexpr", ["mneg", _Ae], False),
        ("mexpr.T", ["MT", _Ae], False),
        ("dmat x", ["dmat", _x], False),
    ]:
        out.append((nm, "M", node, mm))
    return out


def view_recipes():
    """(cell, kind, node): pure views whose element names are checked."""
    out = []
    for a, b, c in [(None, None, None), (1, None, None), (None, 2, None), (1, 4, None), (0, 5, 2), (1, 5, 2), (None, None, -1),
                    (4, 1, -1), (3, None, -1), (None, None, -2), (-2, None, None), (None, -1, None), (-3, -1, None), (1, 2, None)]:
        out.append((f"slice[{a}:{b}:{c}]", "V", ["slice", _v, a, b, c]))
        out.append((f"slice-of-slice[{a}:{b}:{c}]", "V", ["slice", ["slice", _v, None, None, -1], a, b, c]))
    for M, nm, (r, c) in [(_A, "A", (2, 3)), (_S, "S", (3, 3)), (["T", _A], "A.T", (3, 2)), (["T", _S], "S.T", (3, 3)),
                          (["sub", _Q, 1, 3, 0, 2], "Q[1:3,0:2]", (2, 2)), (["T", ["sub", _Q, 0, 2, 1, 3]], "Q[0:2,1:3].T", (2, 2)),
                          (["T", ["T", _A]], "A.T.T", (2, 3)), (["sub", ["T", _A], 0, 3, 1, 2], "A.T[0:3,1:2]", (3, 1)),
                          (["T", ["T", _Q]], "Q.T.T", (3, 3)), (["T", _Q], "Q.T", (3, 3)), (["T", ["T", ["T", _Q]]], "Q.T.T.T", (3, 3)),
                          (["T", ["T", ["sub", _Q, 0, 2, 1, 3]]], "Q[0:2,1:3].T.T", (2, 2)),
                          # blocks of a symmetric matrix: principal and off-diagonal, and their transposes
                          (["sub", _S, 0, 2, 1, 3], "S[0:2,1:3]", (2, 2)), (["T", ["sub", _S, 0, 2, 1, 3]], "S[0:2,1:3].T", (2, 2)),
                          (["T", ["sub", _S, 1, 3, 0, 2]], "S[1:3,0:2].T", (2, 2)), (["sub", _S, 0, 2, 0, 2], "S[0:2,0:2]", (2, 2)),
                          (["T", ["sub", _S, 0, 2, 0, 2]], "S[0:2,0:2].T", (2, 2)), (["T", ["sub", _S, 0, 1, 1, 3]], "S[0:1,1:3].T", (2, 1)),
                          (["T", ["T", ["sub", _S, 0, 2, 1, 3]]], "S[0:2,1:3].T.T", (2, 2))]:
        out.append((f"matrix {nm}", "M", M))
        for i in range(r):
            out.append((f"row {nm}", "V", ["row", M, i]))
        out.append((f"row {nm}", "V", ["row", M, -1]))
        for j in range(c):
            out.append((f"col {nm}", "V", ["col", M, j]))
        if r == c:
            out.append((f"diag {nm}", "V", ["diag", M]))
            out.append((f"diagf {nm}", "V", ["diagf", M]))
        out.append((f"slice-of-row {nm}", "V", ["slice", ["row", M, 0], None, None, -1]))
    out.append(("dmat", "M", ["dmat", _x]))
    out.append(("dmat row", "V", ["row", ["dmat", _x], 1]))
    return out


def info(tier):
    return {
        "level": LEVEL,
        "exhaustive": False,
        "rule": "operand-kind matrix (%d constructions: op x operand kind x order, incl. every mismatch), %d view recipes "
        "(names of selected variables), random vector/matrix/scalar construction recipes (seeded); each built object "
        "is evaluated at 2 points and compared entrywise (shape included) with the reference; non-trivial = >=1 "
        "operator node over a vector/matrix operand" % (len(operand_matrix()), len(view_recipes())),
        "required_cells": sorted({"op:" + c for c, _, _, _ in operand_matrix()} | {"view:" + c for c, _, _ in view_recipes()}),
        "assumptions": [
            "NumPy's rule is the reference: equal shapes or a scalar / size-1 operand; size-1 broadcasts may be accepted or rejected",
            "a construction rejected with an exception at build time is 'unsupported', never a violation",
        ],
    }


class MemoBuilder(B.Builder):
    """Builds every distinct vector / matrix sub-recipe ONCE and reuses the object (a user's `R = X - C; sq = R ** 2`),
    remembering the intermediate objects so that they can be re-observed after they were used as operands."""

    def __init__(self, decls):
        super().__init__(decls)
        self.memo = {}

    def V(self, n):
        key = A.canon(n)
        if key not in self.memo:
            self.memo[key] = ("V", n, super().V(n))
        return self.memo[key][2]

    def M(self, n):
        key = A.canon(n)
        if key not in self.memo:
            self.memo[key] = ("M", n, super().M(n))
        return self.memo[key][2]


def observe(obj, values):
    """(shape, flat float array) of a built object at `values`."""
    import optyx
    from optyx.core.vectors import VectorVariable
    from optyx.core.matrices import MatrixVariable

    if isinstance(obj, (VectorVariable, MatrixVariable)):
        arr = np.asarray(obj.to_numpy(values), dtype=float)
    elif hasattr(obj, "evaluate"):
        arr = np.asarray(obj.evaluate(values), dtype=float)
    else:
        raise TypeError(f"built object of type {type(obj).__name__} cannot be evaluated")
    return arr


def ref_array(D, kind, node, pt):
    alg = R.FloatAlg(pt, D.param_values())
    it = R.Interp(D, alg)
    with np.errstate(all="ignore"):
        if kind == "S":
            return np.asarray(float(it.S(node))), alg.t
        if kind == "V":
            return np.asarray([float(v) for v in it.V(node)]), alg.t
        return np.asarray([[float(v) for v in row] for row in it.M(node)]), alg.t


def points_for(rng, D, names, k=2):
    pts = []
    for _ in range(k):
        pt = {n: round(rng.uniform(0.6, 1.9), 4) for n in names}
        pts.append(pt)
    return pts


def run_case(rec, rng, cell, kind, node, decls, expect_mismatch=None, check_names=False):
    D = R.Decls(decls)
    H.SCALE_INV[0] = 2.0 ** 30 if str(cell).startswith("op:TINY") or str(cell).startswith("TINY") else 1.0
    rec.case({"d": decls, "n": node}, nontrivial=A.n_ops(node) >= 1)
    show = {"decls": A.render_decls(decls), "expr": A.render(node)}
    names = D.all_var_names()
    for x in A.walk(node):
        if x[0] == "dmat":
            nn = D.by_name[x[1][1]]["n"]
            names = names + [f"_diag_{x[1][1]}[{i},{j}]" for i in range(nn) for j in range(nn) if i != j]
    pts = points_for(rng, D, names)
    for pt in pts:
        for n in names:
            if n.startswith("_diag_"):
                pt[n] = 0.0

    def bad(what, **kw):
        rec.violation(what, {"cell": cell, "kind": kind, "node": node, "decls": decls, "show": show, **kw})

    # what does the reference say about shapes?
    try:
        want0, _ = ref_array(D, kind, node, pts[0])
        ref_mismatch = False
    except R.ShapeError:
        ref_mismatch = True
    except R.OutOfModel:
        rec.events["out-of-model"] += 1
        return
    if expect_mismatch is not None and expect_mismatch != ref_mismatch:
        rec.inconclusive.append(f"harness self-check: cell {cell} expected mismatch={expect_mismatch}, reference says {ref_mismatch}")
        return
    try:
        b = MemoBuilder(decls)
        obj = b.any(node)
        built = True
    except Exception as ex:
        built = False
        rec.events[("rejected-mismatch:" if ref_mismatch else "unsupported-build:") + type(ex).__name__] += 1
        rec.paths[f"{'mismatch' if ref_mismatch else 'compatible'}:rejected-at-build"] += 1
    rec.cmp(1, cell)
    if not built:
        return
    if ref_mismatch:
        # must not silently produce numbers
        try:
            arr = observe(obj, pts[0])
        except Exception as ex:
            rec.events["late-rejection:" + type(ex).__name__] += 1
            rec.paths["mismatch:rejected-at-evaluate"] += 1
            return
        bad("shape-mismatch-accepted-silently", got_shape=list(np.shape(arr)), got=np.asarray(arr).reshape(-1)[:6].tolist())
        return
    rec.paths["compatible:built"] += 1
    if check_names:
        it = R.Interp(D, R.SetAlg())
        want_names = it.vnames(node) if kind == "V" else it.mnames(node)
        try:
            if kind == "V":
                got_names = [v.name for v in obj]
                n_ok = len(obj) == len(want_names)
            else:
                got_names = [[obj[i, j].name for j in range(obj.cols)] for i in range(obj.rows)]
                n_ok = tuple(obj.shape) == (len(want_names), len(want_names[0]))
        except Exception as ex:
            bad("view-raises:" + type(ex).__name__, error=repr(ex)[:200])
            return
        rec.cmp(1, cell)
        if got_names != want_names or not n_ok:
            bad("view-selects-wrong-variables", got=got_names, want=want_names)
            return
    for pt in pts:
        want, t = ref_array(D, kind, node, pt)
        try:
            got = observe(obj, pt)
        except Exception as ex:
            bad("evaluate-raises:" + type(ex).__name__, error=repr(ex)[:300], point=pt)
            rec.cmp(1, cell)
            return
        rec.cmp(1, cell)
        if tuple(np.shape(got)) != tuple(np.shape(want)):
            bad("wrong-shape", got_shape=list(np.shape(got)), want_shape=list(np.shape(want)))
            return
        if not np.all(np.isfinite(want)) or not t.regular(1e-3):
            rec.noncomp["irregular-point"] += 1
            continue
        g, w = np.asarray(got, float).reshape(-1), np.asarray(want, float).reshape(-1)
        # a float32 operand legitimately makes NumPy compute in single precision (NEP 50)
        rtol = 2e-6 if any(x[0] in ("raw", "const") and len(x) > 2 and x[2] == "npf32" for x in A.walk(node)) else RTOL
        for gi, wi in zip(g, w):
            ok, d = close(gi, wi, rtol, t.mag)
            rec.disc("value", d if ok else 0.0)
            if not ok:
                bad("value-mismatch", got=g[:8].tolist(), want=w[:8].tolist(), point=pt)
                return
    # the caller's values mapping reused: evaluated, updated in place, evaluated again with the same dict object
    if built and len(pts) >= 2 and hasattr(obj, "evaluate"):
        try:
            d_ = dict(pts[0])
            obj.evaluate(d_)
            d_.update(pts[1])
            got_b = np.asarray(obj.evaluate(d_), dtype=float)
            want_b, t_b = ref_array(D, kind, node, pts[1])
            rec.cmp(1, cell)
            rec.events["same-mapping-comparisons"] += 1
            if np.all(np.isfinite(want_b)) and t_b.regular(1e-3) and (tuple(np.shape(got_b)) != tuple(np.shape(want_b)) or not all(
                    close(g_, w_, 2e-6 if "npf32" in A.canon(node) else RTOL, t_b.mag)[0] for g_, w_ in zip(got_b.reshape(-1), np.asarray(want_b, float).reshape(-1)))):
                bad("stale-value-after-in-place-update-of-the-values-mapping", got=got_b.reshape(-1)[:8].tolist(), want=np.asarray(want_b, float).reshape(-1)[:8].tolist())
                return
        except (R.ShapeError, R.OutOfModel):
            pass
        except Exception as ex:
            bad("evaluate-raises-on-reused-mapping:" + type(ex).__name__, error=repr(ex)[:200])
            return
    # operands must be intact after they were used: every intermediate vector / matrix object is observed again
    import optyx

    for key, (k2, n2, o2) in list(b.memo.items()):
        if n2 is node or n2[0] in ("arr", "list", "tuple", "arr2", "list2") or not (hasattr(o2, "evaluate") or hasattr(o2, "to_numpy")):
            continue
        if isinstance(o2, (np.ndarray, list, tuple)):
            continue
        try:
            want2, t2 = ref_array(D, k2, n2, pts[0])
            got2 = observe(o2, pts[0])
        except (R.ShapeError, R.OutOfModel):
            continue
        except Exception as ex:
            bad("operand-unusable-after-use:" + type(ex).__name__, operand=A.render(n2), error=repr(ex)[:200])
            return
        rec.cmp(1, cell)
        rec.events["operand-intact-checks"] += 1
        if not np.all(np.isfinite(want2)) or not t2.regular(1e-3):
            continue
        if tuple(np.shape(got2)) != tuple(np.shape(want2)) or not all(close(g_, w_, 2e-6 if "npf32" in key else RTOL, t2.mag)[0] for g_, w_ in zip(np.asarray(got2, float).reshape(-1), np.asarray(want2, float).reshape(-1))):
            bad("operand-changed-by-a-later-operation", operand=A.render(n2), got=np.asarray(got2, float).reshape(-1)[:8].tolist(), want=np.asarray(want2, float).reshape(-1)[:8].tolist())
            return
    rec.sample(show, cap=6)


def mutate_mismatch(rng, node):
    """Replace one array operand by one of a different length (>1)."""
    cands = [x for x in A.walk(node) if x[0] in ("arr", "list") and len(x[1]) >= 2]
    if not cands:
        return False
    x = rng.choice(cands)
    if rng.random() < 0.5:
        x[1] = x[1] + [1.5]
    elif len(x[1]) > 2:
        x[1] = x[1][:-1]
    else:
        x[1] = x[1] + [2.5, -1.0]
    return True


def run(ctx, rec):
    rng = ctx.rng
    i = 0
    for cell, kind, node, mm in operand_matrix():
        i += 1
        if ctx.mine(i):
            run_case(rec, rng, "op:" + cell, kind, node, DV, expect_mismatch=mm)
    for cell, kind, node in view_recipes():
        i += 1
        if ctx.mine(i):
            run_case(rec, rng, "view:" + cell, kind, node, DV, check_names=True)
    n = 0
    while n < N_RANDOM[ctx.tier] and not rec.out_of_time():
        n += 1
        g = G.Gen(rng)
        r = rng.random()
        if r < 0.45:
            node, _ = g.vector(rng.randint(1, 3))
            kind = "V"
        elif r < 0.65 and g.mats:
            node, _ = g.matrix(rng.randint(1, 3))
            kind = "M"
            if node is None:
                continue
        else:
            node = g.reduction(rng.randint(0, 2)) if g.vecs else g.scalar(2)
            kind = "S"
        import copy

        node = copy.deepcopy(node)
        cell = "random:" + kind
        if n % 5 == 0 and mutate_mismatch(rng, node):
            cell = "random-mutated:" + kind
        run_case(rec, rng, cell, kind, node, g.decls)


def replay(w, rec):
    import random

    run_case(rec, random.Random(0), w["cell"], w["kind"], w["node"], w["decls"])


# workloads added after the seventh round of seeded changes (DESIGN section 9): part of the rule of this check
_RULE_ADDENDUM = "vector @ constant 2-D array cells (refused, or NumPy's M.T @ x)"
_info_base = info


def info(tier):  # noqa: F811
    d = _info_base(tier)
    d["rule"] = d["rule"] + "; " + _RULE_ADDENDUM
    return d
