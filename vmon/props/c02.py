"""C02 - symbolic gradient = true partial derivative.

Oracle: own forward-mode jet arithmetic on the recipe.  For every case and
every variable of the (super)set V - occurring or not - gradient(e, v) is
built by the recursive and by the iterative traversal and evaluated at the
regular points.
"""
from __future__ import annotations

import numpy as np

from .. import exprcase as X
from .. import harness as H
from ..harness import close
from ..recipes import ast as A
from ..recipes import build as B
from ..recipes import ref as R

LEVEL = "exploration"
BUDGET_S = {"quick": 420, "thorough": 1500}
N_RANDOM = {"quick": 1500, "thorough": 40000}  # per shard
RTOL = 1e-7


def info(tier):
    return {
        "level": LEVEL,
        "rule": "scalar recipes (directed families x {superset, superset_permuted} so that non-occurring variables are "
        "differentiated too; random weighted grammar biased to 0/1 sub-derivatives) ; for each variable v of V the "
        "symbolic gradient(e, v) from both traversals is evaluated at 3 regular points and compared with the jet "
        "reference; non-trivial = >=2 operator nodes; distinct = canonical (recipe, V) hashes",
        "required_cells": [f"{fam}|occurring" for fam, _ in X.directed_families()]
        + [f"{fam}|non-occurring" for fam, _ in X.directed_families()],
        "assumptions": [
            "derivative compared only at regular points (margin >= 1e-2 from every singular set)",
            "reference derivatives: own forward-mode Taylor arithmetic, validated by selftest against finite differences",
        ],
    }


def _scalar(v):
    a = np.asarray(v)
    if a.size != 1:
        raise TypeError(f"non-scalar derivative of shape {a.shape}")
    return float(a.reshape(-1)[0])


def run_case(case, rec):
    from optyx.core import autodiff as AD

    decls, node, V = case["decls"], case["node"], case["V"]
    D = R.Decls(decls)
    fam = case["family"]
    B.SHARE[0] = bool(case.get("share"))
    H.SCALE_INV[0] = float(case.get("inv_scale", 1.0))
    if B.SHARE[0]:
        fam = "shared-subexpressions"
    rec.case({"d": decls, "n": node, "V": V, "s": B.SHARE[0]}, nontrivial=A.n_ops(node) >= 2)
    used = R.ref_vars(D, node)
    try:
        b = B.Builder(decls)
        e = b.S(node)
    except Exception as ex:
        rec.events["unsupported-build:" + type(ex).__name__] += 1
        return
    Vobjs = b.variables(V)

    def bad(route, what, vname, pt=None, got=None, want=None, ex=None):
        rec.violation(f"{route}:{what}", {"case": case, "route": route, "wrt": vname, "point": pt, "got": got,
                                          "want": want, "error": repr(ex)[:300] if ex is not None else None,
                                          "show": X.show(case)})

    grads = {}
    for route in ("recursive", "iterative"):
        old = AD._RECURSION_THRESHOLD
        try:
            if route == "iterative":
                AD._RECURSION_THRESHOLD = 1
                # fresh node identities: the gradient LRU must not serve the recursive result
                b2 = B.Builder(decls)
                e2 = b2.S(node)
                objs = b2.variables(V)
            else:
                e2, objs = e, Vobjs
            for nm, vo in zip(V, objs):
                try:
                    grads[(route, nm)] = AD.gradient(e2, vo)
                except Exception as ex:
                    bad(route, "raises:" + type(ex).__name__, nm, ex=ex)
                    rec.cmp(1, f"{fam}|{'occurring' if nm in used else 'non-occurring'}")
        finally:
            AD._RECURSION_THRESHOLD = old
    # a fresh tree differentiated with respect to *other objects of the same names* (a variable is identified by its name: a second
    # declaration, a copy, `Variable("x[1]")`): the memo of the trees above must not be able to serve these requests
    try:
        import optyx

        b3 = B.Builder(decls)
        e3 = b3.S(node)
        for nm in V:
            try:
                grads[("wrt-equal-named-object", nm)] = AD.gradient(e3, optyx.Variable(nm))
            except Exception as ex:
                bad("wrt-equal-named-object", "raises:" + type(ex).__name__, nm, ex=ex)
    except Exception:
        rec.events["wrt-by-name-build-failed"] += 1
    # the symbolic Jacobian row of the same expression (per-node jacobian_row rules where a node has one): also expressions
    # "returned by symbolic differentiation"
    try:
        row = AD.compute_jacobian([e], Vobjs)[0]
        for nm, gexpr in zip(V, row):
            grads[("compute_jacobian", nm)] = gexpr
        rec.paths["compute_jacobian-rows"] += 1
    except Exception as ex:
        bad("compute_jacobian", "raises:" + type(ex).__name__, None, ex=ex)
    try:
        rec.paths["gradient-cache-hits"] = AD._gradient_cached.cache_info().hits
    except Exception:
        pass

    nbad, worst = {}, {}
    for pt in case["points"]:
        j, t = R.ref_jet(D, node, V, pt, order=1)
        for (route, nm), gexpr in grads.items():
            want = float(j.g[V.index(nm)])
            cell = f"{fam}|{'occurring' if nm in used else 'non-occurring'}"
            try:
                got = _scalar(gexpr.evaluate(dict(pt)))
            except Exception as ex:
                bad(route, "evaluate-raises:" + type(ex).__name__, nm, pt, ex=ex)
                rec.cmp(1, cell)
                continue
            ok, d = close(got, want, RTOL, max(t.mag, t.dmag))
            rec.cmp(1, cell)
            rec.disc("gradient", d if ok else 0.0)
            if nm not in used and got != 0.0:
                bad(route, "nonzero-for-absent-variable", nm, pt, got, 0.0)
            elif not ok:
                key = (route, nm)
                nbad[key] = nbad.get(key, 0) + 1
                if d > worst.get(key, (0, None))[0]:
                    worst[key] = (d, (pt, got, want))
    for key, k in nbad.items():
        if k >= 2 or worst[key][0] > 1e-3:
            pt, got, want = worst[key][1]
            bad(key[0], "mismatch", key[1], pt, got, want)
    # parameters updated after differentiation: the gradient expressions built above, and fresh gradient() calls on the
    # same expression (memoised), must follow the current values
    pnames = sorted(b.params)
    if any(x[0] in ("par", "pel") for x in A.walk(node)) and pnames:
        newvals = {pn: [0.75, -1.25, 2.25, 0.5, 0.0, 1.0][(i + len(V)) % 6] for i, pn in enumerate(pnames)}
        for pn, nv in newvals.items():
            b.params[pn].set(nv)
        pt = case["points"][0]
        j, t = R.ref_jet(D, node, V, pt, order=1, params=newvals)
        if t.regular() and np.all(np.isfinite(j.g)):
            for idx, (nm, vo) in enumerate(zip(V, Vobjs)):
                want = float(j.g[idx])
                for label, gexpr in (("earlier-gradient-after-set", grads.get(("recursive", nm))), ("fresh-gradient-after-set", None)):
                    try:
                        if gexpr is None:
                            gexpr = AD.gradient(e, vo)
                        got = _scalar(gexpr.evaluate(dict(pt)))
                    except Exception as ex:
                        bad(label, "raises:" + type(ex).__name__, nm, pt, ex=ex)
                        continue
                    rec.cmp(1, f"{fam}|{'occurring' if nm in used else 'non-occurring'}")
                    rec.events["after-set-comparisons"] += 1
                    if not close(got, want, RTOL, max(t.mag, t.dmag))[0]:
                        bad(label, "mismatch", nm, pt, got, want)
    rec.sample({**X.show(case), "wrt": V})


def run_handwritten(rec, name, build, pt, value, partials):
    from optyx.core import autodiff as AD

    rec.case({"handwritten": name})
    cell = "handwritten:" + name
    show = {"case": name, "point": pt, "expected": partials}
    for route in ("recursive", "iterative", "compute_jacobian"):
        old = AD._RECURSION_THRESHOLD
        try:
            if route == "iterative":
                AD._RECURSION_THRESHOLD = 1
            e, V = build()
            try:
                with np.errstate(all="ignore"):
                    if route == "compute_jacobian":
                        row = AD.compute_jacobian([e], V)[0]
                        got = {v.name: _scalar(g.evaluate(dict(pt))) for v, g in zip(V, row)}
                    else:
                        got = {v.name: _scalar(AD.gradient(e, v).evaluate(dict(pt))) for v in V}
            except Exception as ex:
                rec.violation(f"{route}:raises:{type(ex).__name__}", {"show": show, "error": repr(ex)[:200]})
                rec.cmp(1, cell)
                continue
        finally:
            AD._RECURSION_THRESHOLD = old
        for nm, want in partials.items():
            rec.cmp(1, cell)
            if not close(got.get(nm, float("nan")), want, RTOL, 10.0)[0]:
                rec.violation(f"{route}:mismatch", {"show": show, "wrt": nm, "got": got.get(nm), "want": want})


def run(ctx, rec):
    rng = ctx.rng
    for i, (name, build, pt, value, partials) in enumerate(X.handwritten_cases()):
        if ctx.mine(i):
            run_handwritten(rec, name, build, pt, value, partials)
    k = 0
    for case in X.directed_cases(rng, ctx.mine, vrels=["superset", "superset_permuted"]):
        run_case(case, rec)
        k += 1
        if k % 3 == 0:
            rec.events["twin-named-cases"] += 1
            run_case(X.twin_named_case(case), rec)
        if k % 2 == 0:
            sc = X.shared_case(rng, case, form=(k // 2) % len(X.DAG_FORMS))
            if sc is not None:
                run_case(sc, rec)
    for case in X.special_cases(rng, ctx.mine, vrels=("superset", "superset_permuted")):
        run_case(case, rec)
    H.SCALE_INV[0] = 1.0
    n = 0
    while n < N_RANDOM[ctx.tier] and not rec.out_of_time():
        n += 1
        case = X.random_case(rng, params=(n % 4 == 0))
        if case is None:
            rec.events["no-regular-point-or-no-vars"] += 1
            continue
        run_case(case, rec)
        if n % 6 == 0:
            sc = X.shared_case(rng, case)
            if sc is not None:
                run_case(sc, rec)


def replay(w, rec):
    run_case(w["case"], rec)


# workloads added after the seventh round of seeded changes (DESIGN section 9): part of the rule of this check
_RULE_ADDENDUM = 'every third directed case also under zero-padded twin names'
_info_base = info


def info(tier):  # noqa: F811
    d = _info_base(tier)
    d["rule"] = d["rule"] + "; " + _RULE_ADDENDUM
    return d
