"""C17 - symbolic and compiled Hessians are the true symmetric second derivatives.

Oracle: second-order jet arithmetic (value, gradient, Hessian) on the recipe.
All n^2 symbolic entries of compute_hessian are checked (not only the upper
triangle), the compiled matrix entrywise and for symmetry, under the four
variable-list relations; the name of the compiled callable (diagonal
shortcuts vs general path) is recorded as evidence.
"""
from __future__ import annotations

import numpy as np

from .. import exprcase as X
from .. import harness as H
from ..harness import close
from ..recipes import ast as A
from ..recipes import build as B
from ..recipes import ref as R

LEVEL = "exploration"
BUDGET_S = {"quick": 420, "thorough": 1500}
N_RANDOM = {"quick": 500, "thorough": 15000}
RTOL = 1e-6
MAXN = 7


def info(tier):
    return {
        "level": LEVEL,
        "rule": "scalar recipes (directed families x 4 V-relations; random grammar depth<=3, |V|<=7); all n^2 entries of "
        "compute_hessian evaluated, and compile_hessian output, at 2 regular points (margin>=0.05) vs second-order jet "
        "reference; H=H^T asserted; non-trivial = >=2 operator nodes",
        "required_cells": [f"{fam}|{v}" for fam, _ in X.directed_families() for v in X.VRELS] + [f"shared-subexpressions|{v}" for v in X.VRELS]
        + [f"special:{k}|{v}" for k in ("tiny", "near-one", "near-integer-exponent", "near-integer-vpow", "near-zero") for v in ("exact", "superset_permuted")],
        "assumptions": ["regular points with margin >= 0.05", "jet reference validated by selftest (differences of first-order jets)"],
    }


def run_case(case, rec):
    from optyx.core import autodiff as AD

    decls, node, V = case["decls"], case["node"], case["V"]
    D = R.Decls(decls)
    fam, vrel = case["family"], case["vrel"]
    cell = f"{fam}|{vrel}"
    B.SHARE[0] = bool(case.get("share"))
    H.SCALE_INV[0] = float(case.get("inv_scale", 1.0))
    if B.SHARE[0]:
        cell = f"shared-subexpressions|{vrel}"
    n = len(V)
    rec.case({"d": decls, "n": node, "V": V, "s": B.SHARE[0]}, nontrivial=A.n_ops(node) >= 2)
    try:
        b = B.Builder(decls)
        e = b.S(node)
    except Exception as ex:
        rec.events["unsupported-build:" + type(ex).__name__] += 1
        return
    Vobjs = b.variables(V)

    def bad(route, what, pt=None, ij=None, got=None, want=None, ex=None):
        rec.violation(f"{route}:{what}", {"case": case, "route": route, "entry": ij, "point": pt, "got": got, "want": want,
                                          "error": repr(ex)[:300] if ex is not None else None, "show": X.show(case)})

    sym = None
    try:
        sym = AD.compute_hessian(e, Vobjs)
    except Exception as ex:
        bad("compute_hessian", "raises:" + type(ex).__name__, ex=ex)
    fn = None
    try:
        fn = AD.compile_hessian(e, Vobjs)
        rec.paths[f"hessian:{fn.__name__}|{vrel}"] += 1
    except Exception as ex:
        bad("compile_hessian", "raises:" + type(ex).__name__, ex=ex)
    if sym is None and fn is None:
        rec.cmp(1, cell)
        return

    # the same expression object compiled again for another order of the same variables (after the first compile)
    if fn is not None and n >= 2:
        V2 = list(reversed(V)) if n == 2 else V[1:] + V[:1]
        try:
            fn2 = AD.compile_hessian(e, b.variables(V2))
            pt = case["points"][0]
            j2, t2 = R.ref_jet(D, node, V2, pt, order=2)
            got2 = np.asarray(fn2(B.point_array(V2, pt)), dtype=float)
            rec.cmp(n * n, cell)
            if got2.shape != (n, n) or not all(close(got2[i, k], j2.H[i, k], RTOL, max(t2.mag, t2.dmag))[0] for i in range(n) for k in range(n)):
                bad("compile_hessian", "second-variable-order-on-same-expression:mismatch", pt, got=got2.tolist(), want=np.asarray(j2.H).tolist())
        except Exception as ex:
            bad("compile_hessian", "second-variable-order-raises:" + type(ex).__name__, ex=ex)

    nbad, worst = {}, {}
    for pt in case["points"]:
        j, t = R.ref_jet(D, node, V, pt, order=2)
        want = j.H
        mag = max(t.mag, t.dmag)
        x = B.point_array(V, pt)
        obs = {}
        if sym is not None:
            got = np.full((n, n), np.nan)
            try:
                for i in range(n):
                    for k in range(n):
                        got[i, k] = float(np.asarray(sym[i][k].evaluate(dict(pt))).reshape(-1)[0])
                obs["compute_hessian"] = got
            except Exception as ex:
                bad("compute_hessian", "evaluate-raises:" + type(ex).__name__, pt, ex=ex)
        if fn is not None:
            try:
                got = np.asarray(fn(x.copy()), dtype=float)
                if got.shape != (n, n):
                    bad("compile_hessian", "wrong-shape", pt, got=list(got.shape), want=[n, n])
                else:
                    obs["compile_hessian"] = got
                    if not np.allclose(got, got.T, rtol=1e-9, atol=1e-12, equal_nan=True):
                        bad("compile_hessian", "asymmetric", pt, got=got.tolist())
            except Exception as ex:
                bad("compile_hessian", "call-raises:" + type(ex).__name__, pt, ex=ex)
        for route, got in obs.items():
            for i in range(n):
                for k in range(n):
                    ok, d = close(got[i, k], want[i, k], RTOL, mag)
                    rec.disc("hessian", d if ok else 0.0)
                    if not ok:
                        key = (route, i, k)
                        nbad[key] = nbad.get(key, 0) + 1
                        if d > worst.get(key, (0, None))[0]:
                            worst[key] = (d, (pt, float(got[i, k]), float(want[i, k])))
            rec.cmp(n * n, cell)
    # the same callable on one point buffer updated in place, and on integer-typed points
    if fn is not None and not nbad:
        # results kept by the caller ([h(p) for p in path]) must not be overwritten by later calls
        kept = []
        try:
            for pt in case["points"]:
                r_ = fn(B.point_array(V, pt))
                kept.append((r_, np.array(r_, dtype=float, copy=True)))
            rec.cmp(len(kept), cell)
            rec.events["retained-result-checks"] += len(kept)
            for r_, snap in kept:
                if not np.array_equal(np.asarray(r_, dtype=float), snap, equal_nan=True):
                    bad("compile_hessian", "returned-array-overwritten-by-a-later-call", case["points"][0], got=np.asarray(r_, dtype=float).tolist(), want=snap.tolist())
                    break
        except Exception as ex:
            bad("compile_hessian", "call-raises:" + type(ex).__name__, case["points"][0], ex=ex)
        buf = B.point_array(V, case["points"][0]).copy()
        for pt in list(case["points"]) + [case["points"][0]]:
            buf[:] = B.point_array(V, pt)
            j, t = R.ref_jet(D, node, V, pt, order=2)
            try:
                got = np.asarray(fn(buf), dtype=float)
            except Exception as ex:
                bad("compile_hessian", "same-buffer-call-raises:" + type(ex).__name__, pt, ex=ex)
                break
            rec.cmp(n * n, cell)
            rec.events["same-buffer-comparisons"] += 1
            if got.shape != (n, n) or not all(close(got[i, k], j.H[i, k], RTOL, max(t.mag, t.dmag))[0] for i in range(n) for k in range(n)):
                bad("compile_hessian", "stale-or-wrong-after-in-place-update-of-the-point-buffer", pt, got=got.tolist(), want=np.asarray(j.H).tolist())
                break
        forms = X.other_point_forms(case)
        if forms is not None:
            pt, reps = forms
            j, t = R.ref_jet(D, node, V, pt, order=2)
            if t.regular(0.05) and np.all(np.isfinite(j.H)):
                for label, xrep in reps:
                    try:
                        with np.errstate(all="ignore"):
                            got = np.asarray(fn(xrep), dtype=float)
                    except Exception as ex:  # NumPy's own integer-arithmetic refusals (int ** negative int): not a result, not judged
                        rec.events[f"point-form-refused:{label}:{type(ex).__name__}"] += 1
                        continue
                    rec.cmp(n * n, cell)
                    rec.events["point-form-comparisons:" + label] += 1
                    if got.shape != (n, n) or not all(close(got[i, k], j.H[i, k], RTOL, max(t.mag, t.dmag))[0] for i in range(n) for k in range(n)):
                        bad("compile_hessian", "result-depends-on-the-dtype-of-the-point:" + label, pt, got=got.tolist(), want=np.asarray(j.H).tolist())
                        break
    # parameters updated after compilation: the compiled Hessian and the symbolic entries must follow the current values
    if b.params and any(x[0] in ("par", "pel") for x in A.walk(node)):
        newvals = {pn: [0.75, -1.25, 2.25, 0.5, 0.0, 1.0][(i + n) % 6] for i, pn in enumerate(sorted(b.params))}
        for pn, nv in newvals.items():
            b.params[pn].set(nv)
        pt = case["points"][0]
        j, t = R.ref_jet(D, node, V, pt, order=2, params=newvals)
        if t.regular(0.05) and np.all(np.isfinite(j.H)):
            mag = max(t.mag, t.dmag)
            try:
                if fn is not None:
                    got = np.asarray(fn(B.point_array(V, pt)), dtype=float)
                    rec.cmp(n * n, cell)
                    rec.events["after-set-comparisons"] += 1
                    if got.shape != (n, n) or not all(close(got[i, k], j.H[i, k], RTOL, mag)[0] for i in range(n) for k in range(n)):
                        bad("compile_hessian", "after-set:mismatch", pt, got=got.tolist(), want=np.asarray(j.H).tolist())
                if sym is not None:
                    gs = np.array([[float(np.asarray(sym[i][k].evaluate(dict(pt))).reshape(-1)[0]) for k in range(n)] for i in range(n)])
                    rec.cmp(n * n, cell)
                    if not all(close(gs[i, k], j.H[i, k], RTOL, mag)[0] for i in range(n) for k in range(n)):
                        bad("compute_hessian", "after-set:mismatch", pt, got=gs.tolist(), want=np.asarray(j.H).tolist())
            except Exception as ex:
                bad("compile_hessian", "after-set-raises:" + type(ex).__name__, pt, ex=ex)
    seen = set()
    for key, k in nbad.items():
        if (k >= 2 or worst[key][0] > 1e-3) and key[0] not in seen:
            seen.add(key[0])
            pt, got, want = worst[key][1]
            bad(key[0], "mismatch", pt, [V[key[1]], V[key[2]]], got, want)
    rec.sample(X.show(case))


def run(ctx, rec):
    rng = ctx.rng
    i = 0
    for fam, node in X.directed_families():
        for vrel in X.VRELS:
            i += 1
            if not ctx.mine(i):
                continue
            c = X.finish_case(rng, X.D0, node, vrel, fam, n_points=2, margin=0.05)
            if c is not None and len(c["V"]) <= 18:
                run_case(c, rec)
                if i % 3 == 0:
                    rec.events["twin-named-cases"] += 1
                    run_case(X.twin_named_case(c), rec)
                if i % 2 == 0:
                    sc = X.shared_case(rng, c, form=(i // 2) % len(X.DAG_FORMS))
                    if sc is not None:
                        run_case(sc, rec)
    for c in X.special_cases(rng, ctx.mine):
        if len(c["V"]) <= 18:
            run_case(c, rec)
    H.SCALE_INV[0] = 1.0
    n = 0
    while n < N_RANDOM[ctx.tier] and not rec.out_of_time():
        n += 1
        c = X.random_case(rng, n_points=2, margin=0.05, max_depth=3, params=(n % 5 == 0))
        if c is None or len(c["V"]) > MAXN:
            rec.events["skipped"] += 1
            continue
        run_case(c, rec)
        if n % 6 == 0:
            sc = X.shared_case(rng, c)
            if sc is not None:
                run_case(sc, rec)


def replay(w, rec):
    run_case(w["case"], rec)


# workloads added after the seventh round of seeded changes (DESIGN section 9): part of the rule of this check
_RULE_ADDENDUM = 'every third directed case also under zero-padded twin names; narrow NumPy scalar coefficients / exponents'
_info_base = info


def info(tier):  # noqa: F811
    d = _info_base(tier)
    d["rule"] = d["rule"] + "; " + _RULE_ADDENDUM
    return d
