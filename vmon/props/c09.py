"""C09 - nonlinear solves are a transparent wrapper over SciPy.

Workload: strictly convex problems with a manufactured optimum (recipes/nlpgen).
Two monitors:
 * wiring (online, at the `minimize` seam): every fun / jac / hess / constraint
   fun / constraint jac evaluation the solver makes is compared with the
   reference (jet) interpreter; bounds, x0 and method handed over are checked.
 * end-to-end: raw scipy.optimize.minimize with reference callables, same
   method, same x0.  When the raw call converges to the manufactured optimum,
   optyx must report OPTIMAL with objective and point within solver accuracy.
"""
from __future__ import annotations

import math
import warnings

import numpy as np

from ..harness import close
from ..monitors.seams import Seams
from ..recipes import ast as A
from ..recipes import build as B
from ..recipes import nlpgen as NG
from ..recipes import ref as R

LEVEL = "exploration"
BUDGET_S = {"quick": 420, "thorough": 1500}
N_RANDOM = {"quick": 40, "thorough": 1500}
BOUNDS_METHODS = {"L-BFGS-B", "TNC", "SLSQP", "Powell", "trust-constr", "Nelder-Mead"}
CHECK_FIRST = 25


def info(tier):
    return {
        "level": LEVEL,
        "rule": "strictly convex problems with manufactured KKT optimum (5 families x constrained/unconstrained x bounds "
        "active/inactive x min / max of the negated objective x methods auto, SLSQP, trust-constr, L-BFGS-B, BFGS x "
        "default / explicit x0); parameterised models (weights starting at 0 / 1) re-solved after Parameter.set(); objectives accumulated over 400+ pair terms with recurring operands; online comparison of every callable evaluation made by the solver (first 25 per callable, "
        "then every 10th) with the jet reference + end-to-end comparison with raw SciPy; distinct = canonical "
        "(problem, method, x0) hashes",
        "required_cells": [f"family:{f}" for f in NG.FAMILIES] + ["sense:min", "sense:max", "method:auto", "method:SLSQP",
                                                                   "method:trust-constr", "method:L-BFGS-B", "method:BFGS",
                                                                   "wiring:fun", "wiring:jac", "wiring:hess", "wiring:cfun", "wiring:cjac",
                                                                   "wiring:bounds", "wiring:x0", "x0:default", "x0:explicit", "end-to-end", "re-solve", "staged-model", "constraints:single-variable-only", "objective:bare-reduction-with-other-variables", "parameters:first-solve", "parameters:solve-after-set", "deep-accumulated-objective"],
        "assumptions": [
            "SciPy's solvers are trusted; only optyx's use of them is judged",
            "end-to-end verdicts only where raw SciPy with reference callables itself converges to the manufactured optimum (else non-comparable)",
        ],
    }


def rel_parts(D, rel, names, pt, order=1):
    """jet of (lhs - rhs) of a scalar relation"""
    alg = R.JetAlg(order, names, pt, D.param_values())
    it = R.Interp(D, alg)
    l = it.S(rel[2])
    r = it.S(rel[3]) if rel[3][0] != "raw" else alg.const(float(rel[3][1]))
    return alg.sub(l, r), alg


def run_problem(prob, method, x0mode, rec, rng, seams):
    import optyx

    D = R.Decls(prob["decls"])
    names = prob["names"]
    n = len(names)
    rec.case({"p": prob["objective"], "c": prob["constraints"], "d": prob["decls"], "m": method, "x0": x0mode, "s": prob["sense"]})
    show = {"decls": A.render_decls(prob["decls"]), "objective": A.render(prob["objective"]), "sense": prob["sense"],
            "constraints": [A.render(c) for c in prob["constraints"]], "method": method, "x0": x0mode,
            "xstar": prob["xstar"], "fstar": prob["fstar"]}

    def bad(what, **kw):
        rec.violation(what, {"prob": prob, "method": method, "x0mode": x0mode, "show": show, **kw})

    staged = bool(prob.get("constraints")) and len(prob["constraints"]) >= 2 and x0mode == "default" and (len(prob["objective"]) + len(names)) % 3 == 0
    try:
        b = B.Builder(prob["decls"])
        if staged:
            # the model is written in two stages: solved once with the first constraint only, then the remaining
            # constraints are added with ONE subject_to([...]) call; the comparison below is for the final model
            P = b.problem(dict(prob, constraints=prob["constraints"][:1]))
            with warnings.catch_warnings():
                warnings.simplefilter("ignore")
                P.solve(method=method)
            lst = []
            for r_ in prob["constraints"][1:]:
                c_ = b.rel(r_)
                lst.extend(c_ if isinstance(c_, list) else [c_])
            P.subject_to(lst)
            rec.cmp(1, "staged-model")
        else:
            P = b.problem(prob)
    except Exception as ex:
        bad("build-raises:" + type(ex).__name__, error=repr(ex)[:300])
        return
    info = D.var_info()
    decl_bounds = [(info[nm][0], info[nm][1]) for nm in names]
    x0_default = np.array([R.default_start(lb, ub) for lb, ub in decl_bounds])
    x0_user = None
    if x0mode == "explicit":
        x0_user = np.array([prob["xstar"][nm] + rng.choice([-0.5, 0.25, 0.75]) for nm in names])
        for i, (lb, ub) in enumerate(decl_bounds):
            if lb is not None:
                x0_user[i] = max(x0_user[i], lb + 1e-3)
            if ub is not None:
                x0_user[i] = min(x0_user[i], ub - 1e-3)
    rels = prob["constraints"]
    fmin = prob["fmin"]
    counters = {}
    flagged = set()

    def f_ref(x, order=1):
        pt = dict(zip(names, map(float, x)))
        return R.ref_jet(D, fmin, names, pt, order=order)

    def wrap(kind, fn, call):
        base = kind if isinstance(kind, str) else kind[0]

        def wrapped(x, *a, **k):
            out = fn(x, *a, **k)
            c = counters[kind] = counters.get(kind, 0) + 1
            call["evals"][base] = call["evals"].get(base, 0) + 1
            if (c > CHECK_FIRST and c % 10) or kind in flagged:
                return out
            xx = np.asarray(x, dtype=float)
            if not np.all(np.isfinite(xx)):
                return out
            try:
                with np.errstate(all="ignore"):
                    if base in ("fun", "jac", "hess"):
                        j, t = f_ref(xx, 2 if base == "hess" else 1)
                        want = j.v if base == "fun" else (j.g if base == "jac" else j.H)
                    else:
                        rel = rels[kind[1]]
                        diff, alg = rel_parts(D, rel, names, dict(zip(names, map(float, xx))))
                        t = alg.t
                        s = rel[1]
                        sign = -1.0 if s == "<=" else 1.0
                        got0 = np.asarray(out, dtype=float)
                        if s == "==" and base == "cfun":
                            # orientation of an equality (h or -h, the solver does not care): read off a value that is clearly
                            # non-zero and kept - at a nearly converged point h is round-off and says nothing about the sign
                            if abs(diff.v) > 1e-6 * max(1.0, alg.t.mag):
                                eqsign[kind[1]] = 1.0 if abs(float(got0) - diff.v) <= abs(float(got0) + diff.v) else -1.0
                            sign = eqsign.get(kind[1], 1.0)
                        elif s == "==":
                            sign = eqsign.get(kind[1], 1.0)
                        want = sign * (diff.v if base == "cfun" else diff.g)
            except Exception:
                return out
            if not t.regular(1e-6, 1e8):
                rec.noncomp["solver-visited-irregular-point"] += 1
                return out
            got = np.asarray(out, dtype=float).reshape(-1)
            want = np.asarray(want, dtype=float).reshape(-1)
            rec.cmp(1, f"wiring:{base}")
            if got.shape != want.shape:
                flagged.add(kind)
                bad(f"wiring:{base}-wrong-shape", got=list(got.shape), want=list(want.shape))
                return out
            mag = max(t.mag, t.dmag)
            for g_, w_ in zip(got, want):
                ok, d = close(g_, w_, 1e-7, mag)
                rec.disc("wiring:" + base, d if ok else 0.0)
                if not ok:
                    flagged.add(kind)
                    what = "negated" if close(g_, -w_, 1e-7, mag)[0] and abs(w_) > 1e-9 else "wrong"
                    bad(f"wiring:{base}-{what}", at=xx.tolist(), got=got[:8].tolist(), want=want[:8].tolist(), constraint=(kind[1] if not isinstance(kind, str) else None))
                    break
            return out

        return wrapped

    eqsign = {}
    seams.reset()
    seams.wrap_callables = wrap
    kwargs = {}
    if x0_user is not None:
        kwargs["x0"] = x0_user.copy()
    try:
        with warnings.catch_warnings():
            warnings.simplefilter("ignore")
            sol = P.solve(method=method, **kwargs)
    except Exception as ex:
        bad("solve-raises:" + type(ex).__name__, error=repr(ex)[:300])
        return
    finally:
        seams.wrap_callables = None
    rec.cmp(1, f"family:{prob['family']}")
    rec.cmp(1, f"sense:{prob['sense']}")
    rec.cmp(1, f"method:{method}")
    rec.cmp(1, f"x0:{x0mode}")
    if not seams.min_calls:
        bad("minimize-seam-not-reached")
        return
    call = seams.min_calls[0]
    used_method = call["method"]
    rec.paths[f"auto->{used_method}" if method == "auto" else f"explicit:{used_method}"] += 1
    if len(seams.min_calls) > 1:
        rec.paths["retry:" + "->".join(str(c["method"]) for c in seams.min_calls)] += 1
    if method != "auto" and used_method != method:
        bad("wiring:method-not-the-requested-one", got=used_method)
    # variable order
    pn = [v.name for v in P.variables]
    if pn != names:
        bad("wiring:variable-order-not-natural", got=pn, want=names)
        return
    # x0
    rec.cmp(1, "wiring:x0")
    want_x0 = x0_user if x0_user is not None else x0_default
    if call["x0"] is None or call["x0"].shape != want_x0.shape or np.max(np.abs(call["x0"] - want_x0)) > 1e-12:
        bad("wiring:x0-not-the-documented-start", got=None if call["x0"] is None else call["x0"].tolist(), want=want_x0.tolist())
    # bounds
    if used_method in BOUNDS_METHODS:
        rec.cmp(1, "wiring:bounds")
        gb = call["bounds"]
        wantb = [(-math.inf if lb is None else float(lb), math.inf if ub is None else float(ub)) for lb, ub in decl_bounds]
        if any(lb is not None or ub is not None for lb, ub in decl_bounds):
            gotb = None if gb is None else [(float(l), float(u)) for l, u in gb]
            if gotb != wantb:
                bad("wiring:bounds-not-the-declared-bounds", got=gotb, want=wantb)
    # callable kinds handed over
    if used_method in ("SLSQP", "trust-constr", "L-BFGS-B", "BFGS") and not call["has_jac"]:
        bad("wiring:no-gradient-handed-to-gradient-method")
    if rels and used_method in ("SLSQP", "trust-constr"):
        cl = call["constraints"] or []
        if len(cl) != len(rels):
            bad("wiring:wrong-number-of-constraints", got=len(cl), want=len(rels))

    # ---- end-to-end against raw SciPy with reference callables --------------
    # linearly dependent constraints / bounds active at x* (x[1] == c together with x[1] >= c; x[1] <= c next to the declared bound
    # x[1] >= c): a degenerate KKT system, on which the path of the
    # direct SciPy run is decided by round-off - outside "smooth convex problem with a unique optimum"; generated no more, and not judged
    try:
        D_ = R.Decls(prob["decls"])
        act = []
        for c_ in prob.get("cons") or []:
            if c_.get("active"):
                jc, _ = R.ref_jet(D_, c_["g"], names, prob["xstar"], order=1)
                act.append([float(v) for v in jc.g])
        for k_, nm_ in enumerate(names):
            if (prob.get("active_bounds") or {}).get(nm_):
                act.append([1.0 if i_ == k_ else 0.0 for i_ in range(len(names))])
        if len(act) >= 2 and np.linalg.matrix_rank(np.array(act), tol=1e-9) < len(act):
            rec.noncomp["degenerate-active-set-at-the-manufactured-optimum"] += 1
            return
    except Exception:
        pass
    has_bounds = any(lb is not None or ub is not None for lb, ub in decl_bounds)
    raw_method = used_method
    if (rels and used_method not in ("SLSQP", "trust-constr", "COBYLA")) or (has_bounds and used_method not in BOUNDS_METHODS):
        if method != "auto":
            # the user asked for a method that ignores constraints / bounds: the user's choice, not judged
            rec.noncomp["requested-method-ignores-constraints-or-bounds"] += 1
            return
        # "auto" is optyx's own choice: the reference is a direct SciPy call with a method that can handle the model
        raw_method = "SLSQP"
        rec.events["auto-picked-a-method-that-ignores-part-of-the-model:" + str(used_method)] += 1

    def rf(x):
        with np.errstate(all="ignore"):
            return float(f_ref(x)[0].v)

    def rg(x):
        with np.errstate(all="ignore"):
            return np.array(f_ref(x)[0].g, dtype=float)

    def rh(x):
        with np.errstate(all="ignore"):
            return np.array(f_ref(x, 2)[0].H, dtype=float)

    rcons = []
    for rel in rels:
        s = rel[1]
        sign = -1.0 if s == "<=" else 1.0

        def cf(x, rel=rel, sign=sign):
            d, _ = rel_parts(D, rel, names, dict(zip(names, map(float, x))))
            return sign * float(d.v)

        def cj(x, rel=rel, sign=sign):
            d, _ = rel_parts(D, rel, names, dict(zip(names, map(float, x))))
            return sign * np.array(d.g, dtype=float)

        rcons.append({"type": "eq" if s == "==" else "ineq", "fun": cf, "jac": cj})
    rb = [(-np.inf if lb is None else lb, np.inf if ub is None else ub) for lb, ub in decl_bounds]
    try:
        with warnings.catch_warnings():
            warnings.simplefilter("ignore")
            raw = seams.orig_minimize(rf, want_x0.copy(), method=raw_method, jac=rg,
                                      hess=rh if raw_method == "trust-constr" else None,
                                      bounds=rb if (has_bounds and raw_method in BOUNDS_METHODS) else None,
                                      constraints=rcons if rcons else ())
    except Exception as ex:
        rec.noncomp["raw-scipy-raises:" + type(ex).__name__] += 1
        return
    fstar = prob["fstar"]
    xstar = np.array([prob["xstar"][nm] for nm in names])
    gap_raw = float(raw.fun) - fstar
    raw_ok = bool(raw.success) and abs(gap_raw) <= 1e-4 * (1 + abs(fstar)) and np.linalg.norm(raw.x - xstar) <= 1e-2 * (1 + np.linalg.norm(xstar))
    if not raw_ok:
        rec.noncomp["raw-scipy-did-not-converge-to-x*"] += 1
        return
    rec.cmp(1, "end-to-end")
    if sol.status.value != "optimal":
        if used_method == "BFGS" and "precision loss" in (sol.message or "") and sol.values:
            # BFGS is not one of the methods the statement quantifies over (auto, SLSQP, trust-constr, L-BFGS-B); its wiring is checked
            # like the others', but its line search ending "precision loss" AT the optimum is decided by the last bits of the function
            # values (badly scaled exponential objectives): only a point away from the optimum is a finding
            fo_ = rf(np.array([sol.values[nm] for nm in names]))
            if fo_ - fstar <= 10 * abs(gap_raw) + 1e-6 * (1 + abs(fstar)):
                rec.noncomp["bfgs-line-search-precision-loss-at-the-optimum"] += 1
                return
        bad("end-to-end:raw-scipy-converges-but-optyx-is-" + sol.status.value, message=sol.message[:150], raw_message=str(raw.message)[:100])
        return
    xo = np.array([sol.values[nm] for nm in names])
    fo = rf(xo)
    tol = 10 * abs(gap_raw) + 1e-6 * (1 + abs(fstar))
    rec.disc("end-to-end:objective-gap", (fo - fstar) / (1 + abs(fstar)))
    # the statement bounds the objective gap, f(x_optyx) - f(x*) <= tol; the distance of the points is recorded, not judged
    # (trust-constr stopping on xtol along a flat direction was met 2e-3 away from x* with a gap of 1e-5: a false alarm of an
    # earlier version of this check that also demanded |x - x*| <= 1e-3)
    rec.disc("end-to-end:point-distance", float(np.linalg.norm(xo - xstar) / (1 + np.linalg.norm(xstar))))
    if fo - fstar > tol:
        bad("end-to-end:optyx-optimum-differs-from-raw-scipy", f_optyx=fo, f_raw=float(raw.fun), fstar=fstar, x_optyx=xo.tolist(), x_raw=raw.x.tolist())
        return
    # the same problem object solved again (cached callables): deterministic solvers must reproduce the first result
    try:
        with warnings.catch_warnings():
            warnings.simplefilter("ignore")
            sol_b = P.solve(method=method, **kwargs)
        rec.cmp(1, "re-solve")
        if sol_b.status != sol.status or abs((sol_b.objective_value or 0.0) - (sol.objective_value or 0.0)) > 1e-9 * (1 + abs(sol.objective_value or 0.0)):
            bad("re-solve-of-the-same-problem-differs", first=[sol.status.value, sol.objective_value], second=[sol_b.status.value, sol_b.objective_value])
    except Exception as ex:
        bad("re-solve-raises:" + type(ex).__name__, error=repr(ex)[:200])
    # reported objective is in the user's orientation
    want_obj = fo if prob["sense"] == "min" else -fo
    if sol.objective_value is None or abs(sol.objective_value - want_obj) > 1e-7 * (1 + abs(want_obj)):
        bad("end-to-end:reported-objective-not-in-user-orientation", got=sol.objective_value, want=want_obj)
    rec.sample(show, cap=3)


def run_param_history(rec, rng, seams, method):
    """A strictly convex model with multiplicative Parameters that start at the structural values 0 / 1 (a ridge weight switched off,
    a unit weight), solved, updated with Parameter.set() and solved again: at every solve each fun / jac evaluation the solver makes
    is compared with the reference at the *current* parameter values, and the result with raw SciPy on reference callables."""
    n = 3
    x = ["vec", "x"]
    t = [round(rng.choice([-1.5, -0.5, 0.75, 1.25, 2.0]) + 0.125 * i, 3) for i in range(n)]
    w0, l0 = rng.choice([(1.0, 0.0), (1.0, 1.0), (0.0, 1.0), (2.0, 0.0)])
    decls = [{"k": "vec", "name": "x", "n": n, "lb": -4.0, "ub": 4.0}, {"k": "par", "name": "w", "val": w0}, {"k": "par", "name": "lam", "val": l0}]
    d = ["vbin", "-", x, ["arr", t]]
    spelling = rng.randrange(3)
    ridge = [["bin", "*", ["par", "lam"], ["dot", x, x]], ["bin", "*", ["dot", x, x], ["par", "lam"]], ["bin", "*", ["par", "lam"], ["sum", ["vpow", x, 2]]]][spelling]
    fit = [["bin", "*", ["par", "w"], ["dot", d, d]], ["bin", "/", ["dot", d, d], ["bin", "/", ["raw", 1.0, "float"], ["bin", "+", ["par", "w"], ["raw", 1e-9, "float"]]]],
           ["bin", "*", ["dot", d, d], ["par", "w"]]][spelling]
    base = ["bin", "*", ["raw", 0.1, "float"], ["sum", ["vfn", "exp", ["vbin", "*", x, ["raw", 0.3, "float"]]]]]
    fmin = ["bin", "+", ["bin", "+", fit, ridge], base]
    sense = rng.choice(["min", "max"])
    obj = fmin if sense == "min" else ["neg", fmin]
    cons = [["rel", ">=", ["sum", x], ["raw", 0.5, "float"], "direct"]] if rng.random() < 0.6 and method != "L-BFGS-B" else []
    prob = {"decls": decls, "objective": obj, "sense": sense, "constraints": cons}
    D = R.Decls(decls)
    names = [f"x[{i}]" for i in range(n)]
    rec.case({"param-history": prob, "m": method})
    show = {"decls": A.render_decls(decls), "objective": A.render(obj), "sense": sense, "constraints": [A.render(c) for c in cons], "method": method}
    cur = {"w": w0, "lam": l0}
    state = {"flagged": False, "n": 0}

    def bad(what, **kw):
        rec.violation(what, {"prob": prob, "method": method, "params": dict(cur), "show": show, **kw})

    def wrap(kind, fn, call):
        base_kind = kind if isinstance(kind, str) else kind[0]
        if base_kind not in ("fun", "jac"):
            return fn

        def wrapped(xx, *a, **k):
            out = fn(xx, *a, **k)
            state["n"] += 1
            if state["flagged"] or state["n"] > 60:
                return out
            pt = dict(zip(names, map(float, np.asarray(xx, dtype=float))))
            j, tr = R.ref_jet(D, fmin, names, pt, order=1, params=cur)
            if not tr.regular(1e-6, 1e8):
                return out
            rec.cmp(1, "wiring:" + base_kind)
            if base_kind == "fun":
                if not close(float(out), float(j.v), 1e-9, tr.mag)[0]:
                    state["flagged"] = True
                    bad("wiring:fun-differs-from-the-model-at-current-parameters", got=float(out), want=float(j.v), point=pt)
            else:
                g = np.asarray(out, dtype=float).reshape(-1)
                if g.shape != (n,) or not all(close(g[i], float(j.g[i]), 1e-7, max(tr.mag, tr.dmag))[0] for i in range(n)):
                    state["flagged"] = True
                    bad("wiring:jac-differs-from-the-model-at-current-parameters", got=g.tolist(), want=[float(v) for v in j.g], point=pt)
            return out

        return wrapped

    try:
        b = B.Builder(decls)
        P = b.problem(prob)
    except Exception as ex:
        bad("build-raises:" + type(ex).__name__, error=repr(ex)[:200])
        return
    updates = [(2.5, 0.75), (0.5, 2.0), (1.0, 0.0), (3.0, 1.0)]
    rng.shuffle(updates)
    for step, upd in enumerate([None] + updates[:2]):
        if upd is not None:
            b.params["w"].set(upd[0])
            b.params["lam"].set(upd[1])
            cur.update(w=upd[0], lam=upd[1])
        if cur["w"] + cur["lam"] <= 0:
            continue
        state.update(flagged=False, n=0)
        seams.reset()
        seams.wrap_callables = wrap
        try:
            with warnings.catch_warnings():
                warnings.simplefilter("ignore")
                sol = P.solve(method=method)
        except Exception as ex:
            bad("solve-raises:" + type(ex).__name__, error=repr(ex)[:200], step=step)
            return
        finally:
            seams.wrap_callables = None
        rec.cmp(1, "parameters:first-solve" if step == 0 else "parameters:solve-after-set")
        if state["flagged"]:
            return
        # raw SciPy on the reference callables at the current parameters, same start
        used = seams.min_calls[-1]["method"] if seams.min_calls else method
        x0 = seams.min_calls[-1]["x0"] if seams.min_calls else np.zeros(n)
        rf = lambda z: float(R.ref_jet(D, fmin, names, dict(zip(names, map(float, z))), order=1, params=cur)[0].v)  # noqa: E731
        rg = lambda z: np.array(R.ref_jet(D, fmin, names, dict(zip(names, map(float, z))), order=1, params=cur)[0].g, dtype=float)  # noqa: E731
        rh = lambda z: np.array(R.ref_jet(D, fmin, names, dict(zip(names, map(float, z))), order=2, params=cur)[0].H, dtype=float)  # noqa: E731
        rcons = [{"type": "ineq", "fun": lambda z: float(np.sum(z) - 0.5), "jac": lambda z: np.ones(n)}] if cons else ()
        try:
            with warnings.catch_warnings():
                warnings.simplefilter("ignore")
                raw = seams.orig_minimize(rf, np.array(x0, dtype=float), method=used, jac=rg, hess=rh if used == "trust-constr" else None,
                                          bounds=[(-4.0, 4.0)] * n if used in BOUNDS_METHODS else None, constraints=rcons)
        except Exception as ex:
            rec.noncomp["raw-scipy-raises:" + type(ex).__name__] += 1
            continue
        if not raw.success:
            rec.noncomp["raw-scipy-did-not-converge"] += 1
            continue
        rec.cmp(1, "end-to-end")
        if sol.status.value != "optimal":
            bad("parameters:raw-scipy-converges-but-optyx-is-" + sol.status.value, step=step, message=sol.message[:120])
            return
        xo = np.array([sol.values[nm] for nm in names])
        if rf(xo) - float(raw.fun) > 1e-5 * (1 + abs(float(raw.fun))):
            bad("parameters:optimum-differs-from-raw-scipy-at-current-parameters", step=step, f_optyx=rf(xo), f_raw=float(raw.fun), x_optyx=xo.tolist(), x_raw=raw.x.tolist())
            return
    rec.sample(show, cap=2)


def run_bare_objective(rec, rng, seams, method):
    """The objective is ONE bare reduction node over a vector (the forms with vectorised gradient shortcuts of their own) in a model that
    has further variables, which occur only in constraints and sort after / before the vector: fun and jac handed to SciPy are compared
    with the reference on every evaluation, the result with raw SciPy."""
    n = 3
    x = ["vec", "x"]
    other = rng.choice(["z", "a0", "x_aux"])
    decls = [{"k": "vec", "name": "x", "n": n, "lb": -1.0, "ub": 6.0}, {"k": "var", "name": other, "lb": 0.0, "ub": 3.0}]
    kind = rng.choice(["sum x^2", "sum x^4", "x.x", "sum exp", "qf", "sum x^2 over slice"])
    obj = {"sum x^2": ["sum", ["vpow", x, 2]], "sum x^4": ["sum", ["vpow", x, 4]], "x.x": ["dot", x, x], "sum exp": ["sum", ["vfn", "exp", x]],
           "qf": ["qf", x, [[2.0, 0.5, 0.0], [0.5, 1.0, 0.25], [0.0, 0.25, 1.5]]], "sum x^2 over slice": ["sum", ["vpow", ["slice", x, 0, 2, None], 2]]}[kind]
    a = [1.0, 2.0, 0.5]
    cons = [["rel", "==", ["bin", "+", ["matmul", ["arr", a], x], ["var", other]], ["raw", 6.0, "float"], "direct"]]
    sense = "min"
    prob = {"decls": decls, "objective": obj, "sense": sense, "constraints": cons}
    D = R.Decls(decls)
    names = R.natural_sorted(D.all_var_names())
    N = len(names)
    rec.case({"bare-objective": kind, "other": other, "m": method})
    show = {"decls": A.render_decls(decls), "objective": A.render(obj), "constraints": [A.render(c) for c in cons], "method": method}
    state = {"flagged": False, "n": 0}

    def bad(what, **kw):
        rec.violation(what, {"prob": prob, "method": method, "show": show, **kw})

    def wrap(kind_, fn, call):
        base_kind = kind_ if isinstance(kind_, str) else kind_[0]
        if base_kind not in ("fun", "jac"):
            return fn

        def wrapped(xx, *a_, **k_):
            out = fn(xx, *a_, **k_)
            state["n"] += 1
            if state["flagged"] or state["n"] > 60:
                return out
            pt = dict(zip(names, map(float, np.asarray(xx, dtype=float))))
            j, tr = R.ref_jet(D, obj, names, pt, order=1)
            if not tr.regular(1e-6, 1e8):
                return out
            rec.cmp(1, "wiring:" + base_kind)
            if base_kind == "fun" and not close(float(out), float(j.v), 1e-9, tr.mag)[0]:
                state["flagged"] = True
                bad("wiring:fun-of-a-bare-reduction-objective-differs", got=float(out), want=float(j.v))
            if base_kind == "jac":
                g = np.asarray(out, dtype=float).reshape(-1)
                if g.shape != (N,) or not all(close(g[i], float(j.g[i]), 1e-7, max(tr.mag, tr.dmag))[0] for i in range(N)):
                    state["flagged"] = True
                    bad("wiring:jac-of-a-bare-reduction-objective-differs", got=g.tolist(), want=[float(v) for v in j.g], order=names)
            return out

        return wrapped

    try:
        b = B.Builder(decls)
        P = b.problem(prob)
    except Exception as ex:
        bad("build-raises:" + type(ex).__name__, error=repr(ex)[:200])
        return
    seams.reset()
    seams.wrap_callables = wrap
    try:
        with warnings.catch_warnings():
            warnings.simplefilter("ignore")
            sol = P.solve(method=method, **({"maxiter": 300} if method == "trust-constr" else {}))
    except Exception as ex:
        bad("solve-raises:" + type(ex).__name__, error=repr(ex)[:200])
        return
    finally:
        seams.wrap_callables = None
    rec.cmp(1, "objective:bare-reduction-with-other-variables")
    if state["flagged"] or not seams.min_calls:
        return
    x0 = seams.min_calls[-1]["x0"]
    idx = {nm: i for i, nm in enumerate(names)}
    rf = lambda z: float(R.ref_jet(D, obj, names, dict(zip(names, map(float, z))), order=1)[0].v)  # noqa: E731
    rg = lambda z: np.array(R.ref_jet(D, obj, names, dict(zip(names, map(float, z))), order=1)[0].g, dtype=float)  # noqa: E731
    arow = np.zeros(N)
    for i_, c_ in enumerate(a):
        arow[idx[f"x[{i_}]"]] = c_
    arow[idx[other]] = 1.0
    rb = [(-1.0, 6.0) if nm.startswith("x[") else (0.0, 3.0) for nm in names]
    with warnings.catch_warnings():
        warnings.simplefilter("ignore")
        raw = seams.orig_minimize(rf, np.array(x0, dtype=float), method="SLSQP", jac=rg, bounds=rb,
                                  constraints=[{"type": "eq", "fun": lambda z: float(arow @ z - 6.0), "jac": lambda z: arow}])
    if not raw.success:
        rec.noncomp["raw-scipy-did-not-converge"] += 1
        return
    rec.cmp(1, "end-to-end")
    if sol.status.value != "optimal":
        bad("bare-objective:raw-scipy-converges-but-optyx-is-" + sol.status.value, message=sol.message[:120])
        return
    xo = np.array([sol.values[nm] for nm in names])
    if rf(xo) - float(raw.fun) > 1e-5 * (1 + abs(float(raw.fun))):
        bad("bare-objective:optimum-differs-from-raw-scipy", f_optyx=rf(xo), f_raw=float(raw.fun), x_optyx=xo.tolist(), x_raw=raw.x.tolist())


def run_deep_history(rec, rng, seams, method):
    """An objective accumulated term by term (> 400 terms) in which the same element objects recur as both operands of binary nodes
    ((x_i - x_j)^2 over all pairs): the callables handed to SciPy are compared with the closed form, the result with raw SciPy."""
    import optyx

    n = rng.choice([8, 9, 10])
    pairs = [(i, j) for i in range(n) for j in range(n) if i != j]
    rng.shuffle(pairs)
    while len(pairs) < 430:
        pairs = pairs + pairs
    pairs = pairs[: rng.choice([410, 430, 470])]
    dv = [0.25 * ((i * 3 + j) % 5) - 0.5 for i, j in pairs]
    tgt = np.array([0.5 + 0.25 * i for i in range(n)])
    rec.case({"deep-history": [n, len(pairs), pairs[:5]], "m": method})
    x = optyx.VectorVariable("x", n, lb=-5.0, ub=5.0)
    acc = (x[0] - float(tgt[0])) ** 2
    for i in range(1, n):
        acc = acc + (x[i] - float(tgt[i])) ** 2
    for (i, j), d_ in zip(pairs, dv):
        acc = acc + 0.01 * (x[i] - x[j] - d_) ** 2 if (i + j) % 3 else acc + 0.01 * (x[i] * x[j])
    I = np.array([p[0] for p in pairs]); J = np.array([p[1] for p in pairs]); Dv = np.array(dv); sq = np.array([(i + j) % 3 != 0 for i, j in pairs])

    def rf(z):
        z = np.asarray(z, dtype=float)
        r = z[I] - z[J] - Dv
        return float(np.sum((z - tgt) ** 2) + 0.01 * np.sum(np.where(sq, r * r, z[I] * z[J])))

    def rg(z):
        z = np.asarray(z, dtype=float)
        g = 2.0 * (z - tgt)
        r = z[I] - z[J] - Dv
        np.add.at(g, I, 0.01 * np.where(sq, 2 * r, z[J]))
        np.add.at(g, J, 0.01 * np.where(sq, -2 * r, z[I]))
        return g

    show = {"n": n, "terms": len(pairs) + n, "method": method, "objective": "sum (x_i - t_i)^2 + 0.01 * sum_pairs [(x_i - x_j - d)^2 | x_i * x_j], accumulated term by term"}
    state = {"flagged": False, "k": 0}

    def bad(what, **kw):
        rec.violation(what, {"deep": show, "method": method, "show": show, **kw})

    def wrap(kind, fn, call):
        if kind not in ("fun", "jac"):
            return fn

        def wrapped(xx, *a, **k):
            out = fn(xx, *a, **k)
            state["k"] += 1
            if state["flagged"] or state["k"] > 40:
                return out
            z = np.asarray(xx, dtype=float)
            rec.cmp(1, "wiring:" + kind)
            if kind == "fun" and not close(float(out), rf(z), 1e-9, 1e3)[0]:
                state["flagged"] = True
                bad("deep-objective:fun-differs-from-the-formula", got=float(out), want=rf(z))
            if kind == "jac":
                g, w_ = np.asarray(out, dtype=float).reshape(-1), rg(z)
                if g.shape != w_.shape or not all(close(a_, b_, 1e-7, 1e3)[0] for a_, b_ in zip(g, w_)):
                    state["flagged"] = True
                    bad("deep-objective:jac-differs-from-the-formula", got=g.tolist(), want=w_.tolist())
            return out

        return wrapped

    P = optyx.Problem().minimize(acc).subject_to(x.sum() >= 1.0)
    seams.reset()
    seams.wrap_callables = wrap
    try:
        with warnings.catch_warnings():
            warnings.simplefilter("ignore")
            sol = P.solve(method=method, **({"maxiter": 300} if method == "trust-constr" else {}))
    except Exception as ex:
        bad("deep-objective:solve-raises:" + type(ex).__name__, error=repr(ex)[:200])
        return
    finally:
        seams.wrap_callables = None
    rec.cmp(1, "deep-accumulated-objective")
    if state["flagged"]:
        return
    x0 = seams.min_calls[-1]["x0"] if seams.min_calls else np.zeros(n)
    used = seams.min_calls[-1]["method"] if seams.min_calls else method
    with warnings.catch_warnings():
        warnings.simplefilter("ignore")
        raw = seams.orig_minimize(rf, np.array(x0, dtype=float), method="SLSQP", jac=rg, bounds=[(-5.0, 5.0)] * n,
                                  constraints=[{"type": "ineq", "fun": lambda z: float(np.sum(z) - 1.0), "jac": lambda z: np.ones(n)}])
    if not raw.success:
        rec.noncomp["raw-scipy-did-not-converge"] += 1
        return
    rec.cmp(1, "end-to-end")
    if sol.status.value != "optimal":
        bad("deep-objective:raw-scipy-converges-but-optyx-is-" + sol.status.value, message=sol.message[:120], used=used)
        return
    xo = np.array([sol.values[f"x[{i}]"] for i in range(n)])
    if rf(xo) - float(raw.fun) > 1e-5 * (1 + abs(float(raw.fun))):
        bad("deep-objective:optimum-differs-from-raw-scipy", f_optyx=rf(xo), f_raw=float(raw.fun))


COMBOS = [(fam, True, m) for fam in NG.FAMILIES for m in ("auto", "SLSQP", "trust-constr")] + \
         [(fam, False, m) for fam in NG.FAMILIES for m in ("auto", "L-BFGS-B", "BFGS", "SLSQP", "trust-constr")]


import math as _math

STRIDE = next(p_ for p_ in (7, 11, 13, 17, 19, 23) if _math.gcd(p_, len(COMBOS)) == 1)  # walks through every combination


def plan(rng, k):
    fam, constrained, method = COMBOS[(k * STRIDE) % len(COMBOS)]
    bounds = method != "BFGS" and rng.random() < 0.7
    return fam, constrained, method, bounds


def run(ctx, rec):
    rng = ctx.rng
    seams = Seams().install()
    try:
        k = ctx.shard
        n = 0
        while n < N_RANDOM[ctx.tier] and not rec.out_of_time():
            fam, constrained, method, bounds = plan(rng, k)
            k += 1
            n += 1
            prob = NG.draw_convex(rng, family=fam, constrained=constrained, bounds=bounds, sense=["min", "max"][n % 2])
            run_problem(prob, method, "explicit" if n % 3 == 0 else "default", rec, rng, seams)
            if n % 5 == 2:
                # every constraint a single-variable linear one, at least one active: whatever method "auto" picks must honour them
                prob = NG.draw_convex(rng, family=fam, constrained=True, bounds=n % 2 == 0, sense=["min", "max"][n % 2], simple_constraints_only=True, scalars=False)
                rec.cmp(1, "constraints:single-variable-only")
                run_problem(prob, ["auto", "auto", "SLSQP", "trust-constr"][(n // 5) % 4], "default", rec, rng, seams)
            if n % 4 == 0:
                run_param_history(rec, rng, seams, ["SLSQP", "trust-constr", "auto", "L-BFGS-B"][(n // 4 + ctx.shard) % 4])
            if n % 4 == 1:
                run_bare_objective(rec, rng, seams, ["auto", "SLSQP", "trust-constr"][(n // 4 + ctx.shard) % 3])
            if n % 20 == 10:
                run_deep_history(rec, rng, seams, ["SLSQP", "trust-constr", "auto"][(n // 20 + ctx.shard) % 3])
    finally:
        seams.uninstall()


def replay(w, rec):
    import random

    seams = Seams().install()
    try:
        run_problem(w["prob"], w["method"], w["x0mode"], rec, random.Random(0), seams)
    finally:
        seams.uninstall()


# workloads added after the seventh round of seeded changes (DESIGN section 9): part of the rule of this check
_RULE_ADDENDUM = 'generator families incl. positive weights over a squared / exponential affine image as the whole base objective and a symmetric matrix variable with S.sum() active'
_info_base = info


def info(tier):  # noqa: F811
    d = _info_base(tier)
    d["rule"] = d["rule"] + "; " + _RULE_ADDENDUM
    return d
