"""Throwaway prototype: random scalar recipes, Dual reference vs optyx value/gradient.
Calibrates tolerances and regularity margins for DESIGN.md."""
import math, random, sys, numpy as np
from optyx import Variable, Constant
import optyx as ox
from optyx.core.autodiff import gradient
from optyx.core.compiler import compile_expression, compile_gradient
from optyx.core.autodiff import compile_jacobian, compile_hessian

UN = ["sin","cos","tan","exp","log","log2","log10","sqrt","abs_","tanh","sinh","cosh","asin","acos","atan","asinh","acosh","atanh"]
NAMES = ["x","y","z","w"]

class Dual:
    __slots__=("v","g","m")
    def __init__(s,v,g,m=math.inf): s.v=v; s.g=g; s.m=m
def const(c,n): return Dual(float(c), np.zeros(n))
def binop(op,a,b):
    m=min(a.m,b.m)
    if op=="+": return Dual(a.v+b.v,a.g+b.g,m)
    if op=="-": return Dual(a.v-b.v,a.g-b.g,m)
    if op=="*": return Dual(a.v*b.v,a.g*b.v+b.g*a.v,m)
    if op=="/":
        m=min(m,abs(b.v)); return Dual(a.v/b.v,(a.g*b.v-b.g*a.v)/(b.v*b.v),m)
    if op=="**":
        # general: a^b
        if not b.g.any():
            k=b.v
            if k==int(k):
                if k<0: m=min(m,abs(a.v))
                v=a.v**k
                g=(k*a.v**(k-1))*a.g if k!=0 else np.zeros_like(a.g)
                return Dual(v,g,m)
            m=min(m,a.v)
            return Dual(a.v**k,(k*a.v**(k-1))*a.g,m)
        m=min(m,a.v)
        v=a.v**b.v
        return Dual(v, v*(b.g*math.log(a.v)+b.v*a.g/a.v), m)
def unop(f,a):
    v=a.v; m=a.m
    if f=="neg": return Dual(-v,-a.g,m)
    if f=="sin": return Dual(math.sin(v),math.cos(v)*a.g,m)
    if f=="cos": return Dual(math.cos(v),-math.sin(v)*a.g,m)
    if f=="tan": m=min(m,abs(math.cos(v))); return Dual(math.tan(v),a.g/math.cos(v)**2,m)
    if f=="exp": return Dual(math.exp(v),math.exp(v)*a.g,m)
    if f=="log": m=min(m,v); return Dual(math.log(v),a.g/v,m)
    if f=="log2": m=min(m,v); return Dual(math.log2(v),a.g/(v*math.log(2)),m)
    if f=="log10": m=min(m,v); return Dual(math.log10(v),a.g/(v*math.log(10)),m)
    if f=="sqrt": m=min(m,v); return Dual(math.sqrt(v),a.g/(2*math.sqrt(v)),m)
    if f=="abs_": m=min(m,abs(v)); return Dual(abs(v),math.copysign(1,v)*a.g,m)
    if f=="tanh": return Dual(math.tanh(v),(1-math.tanh(v)**2)*a.g,m)
    if f=="sinh": return Dual(math.sinh(v),math.cosh(v)*a.g,m)
    if f=="cosh": return Dual(math.cosh(v),math.sinh(v)*a.g,m)
    if f=="asin": m=min(m,1-abs(v)); return Dual(math.asin(v),a.g/math.sqrt(1-v*v),m)
    if f=="acos": m=min(m,1-abs(v)); return Dual(math.acos(v),-a.g/math.sqrt(1-v*v),m)
    if f=="atan": return Dual(math.atan(v),a.g/(1+v*v),m)
    if f=="asinh": return Dual(math.asinh(v),a.g/math.sqrt(1+v*v),m)
    if f=="acosh": m=min(m,v-1); return Dual(math.acosh(v),a.g/math.sqrt(v*v-1),m)
    if f=="atanh": m=min(m,1-abs(v)); return Dual(math.atanh(v),a.g/(1-v*v),m)
    raise KeyError(f)

def gen(rng, d):
    if d==0 or rng.random()<0.2:
        r=rng.random()
        if r<0.6: return ["var", rng.choice(NAMES)]
        return ["const", rng.choice([0,1,2,-1,0.5,3,-2.5,1.0,0.0])]
    r=rng.random()
    if r<0.55:
        op=rng.choice(["+","-","*","/","**","+","-","*"])
        a=gen(rng,d-1)
        if op=="**" and rng.random()<0.8:
            b=["const", rng.choice([0,1,2,3,-1,0.5,2.0,-2,1.5])]
        else: b=gen(rng,d-1)
        return ["bin",op,a,b]
    if r<0.62: return ["neg",gen(rng,d-1)]
    return ["un",rng.choice(UN),gen(rng,d-1)]

def build(r, env):
    t=r[0]
    if t=="var": return env[r[1]]
    if t=="const": return r[1]
    if t=="neg": return -as_expr(build(r[1],env))
    if t=="un": return getattr(ox,r[1])(build(r[2],env))
    a=build(r[2],env); b=build(r[3],env)
    if not hasattr(a,"evaluate") and not hasattr(b,"evaluate"):
        a=Constant(a)
    op=r[1]
    return {"+":lambda:a+b,"-":lambda:a-b,"*":lambda:a*b,"/":lambda:a/b,"**":lambda:a**b}[op]()
def as_expr(a): return a if hasattr(a,"evaluate") else Constant(a)

def ref(r, pt, idx, n):
    t=r[0]
    if t=="var":
        g=np.zeros(n); g[idx[r[1]]]=1.0; return Dual(pt[r[1]],g)
    if t=="const": return const(r[1],n)
    if t=="neg": return unop("neg",ref(r[1],pt,idx,n))
    if t=="un": return unop(r[1],ref(r[2],pt,idx,n))
    return binop(r[1],ref(r[2],pt,idx,n),ref(r[3],pt,idx,n))

def main(seed, N):
    rng=random.Random(seed)
    env={k:Variable(k) for k in NAMES}
    V=[env[k] for k in NAMES]; idx={k:i for i,k in enumerate(NAMES)}; n=len(NAMES)
    stats={"cases":0,"noreg":0,"valmax":0.0,"gmax":0.0,"bad":[]}
    np.seterr(all="ignore")
    for c in range(N):
        r=gen(rng, rng.randint(1,5))
        try:
            e=as_expr(build(r,env))
        except Exception as ex:
            stats["bad"].append(("build",r,repr(ex))); continue
        pt=None
        for _ in range(30):
            cand={k:rng.uniform(-2,2) if rng.random()<0.5 else rng.uniform(0.2,1.8) for k in NAMES}
            try:
                d=ref(r,cand,idx,n)
            except (ValueError,ZeroDivisionError,OverflowError,TypeError):
                continue
            if isinstance(d.v,complex) or not math.isfinite(d.v) or not np.all(np.isfinite(d.g)) or d.m<1e-2 or abs(d.v)>1e6 or np.max(np.abs(d.g))>1e6: continue
            pt=cand;break
        if pt is None: stats["noreg"]+=1; continue
        stats["cases"]+=1
        x=np.array([pt[k] for k in NAMES])
        try:
            v1=float(e.evaluate(pt)); v2=float(compile_expression(e,V)(x))
            g=np.array([float(gradient(e,v).evaluate(pt)) for v in V])
            j=compile_jacobian([e],V)(x).ravel()
            cg=compile_gradient(e,V)(x)
        except Exception as ex:
            stats["bad"].append(("exc",r,pt,repr(ex))); continue
        dv=max(abs(v1-d.v),abs(v2-d.v))/max(1,abs(d.v))
        dg=max(np.max(np.abs(g-d.g)/np.maximum(1,np.abs(d.g))), np.max(np.abs(j-d.g)/np.maximum(1,np.abs(d.g))), np.max(np.abs(cg-d.g)/np.maximum(1,np.abs(d.g))))
        stats["valmax"]=max(stats["valmax"],dv); 
        if dg>1e-7 or dv>1e-9: stats["bad"].append(("mismatch",r,pt,dv,dg,d.m))
        else: stats["gmax"]=max(stats["gmax"],dg)
    return stats
if __name__=="__main__":
    s=main(int(sys.argv[1]), int(sys.argv[2]))
    print({k:v for k,v in s.items() if k!="bad"}, len(s["bad"]))
    for b in s["bad"][:12]: print(b)
