import numpy as np, warnings
from optyx import *
from optyx.core.autodiff import gradient, compile_jacobian, compile_hessian
from optyx.core.compiler import compile_gradient
def t(name, f):
    try:
        print(name, '->', f())
    except Exception as e:
        print(name, 'EXC', type(e).__name__, str(e)[:200])
x = VectorVariable("x", 3)
r = x[::-1]; s = x[0:3]
vals = {"x[0]":1.,"x[1]":2.,"x[2]":3.}
d = s.dot(r)
t("rev dot eval", lambda: d.evaluate(vals))
t("rev dot grad x0 (true 2*x2=6)", lambda: gradient(d, x[0]).evaluate(vals))
A = MatrixVariable("A", 2, 3)
d2 = A[0,0:2].dot(A[0,1:3])
v2 = {f"A[{i},{j}]": float(1+i*3+j) for i in range(2) for j in range(3)}
t("row overlap grad wrt A[0,1] (true A00+A02=4)", lambda: gradient(d2, A[0,1]).evaluate(v2))
S = MatrixVariable("S", 2, 2, symmetric=True)
vs = {"S[0,0]":1.,"S[0,1]":2.,"S[1,1]":3.}
t("sym sum eval (1+2+2+3=8)", lambda: S.sum().evaluate(vs))
t("sym sum jac (true [1,2,1])", lambda: compile_jacobian([S.sum()], S.get_variables())(np.array([1.,2,3])))
Q = np.array([[1.,2],[3,4]])
q = A[0,0:2].dot(Q @ A[0,1:3])
t("qform alias eval (true a^T Q b)", lambda: (q.evaluate(v2), np.array([1.,2]) @ Q @ np.array([2.,3])))
# BFGS with bounds
b = Variable("b", lb=1)
t("BFGS bounds", lambda: Problem().minimize(b**2).solve(method="BFGS"))
t("NM bounds", lambda: Problem().minimize(b**2).solve(method="Nelder-Mead"))
t("degree VectorExpr LinearCombination nonlinear", lambda: (np.array([1.,1,1]) @ sin(x+0)).degree)
