import numpy as np, sys
from optyx import *
from optyx.core.autodiff import gradient, compile_jacobian, _estimate_tree_depth
from optyx.core.compiler import compile_expression
np.seterr(all="ignore")
x=VectorVariable("x",5); pt=np.linspace(0.5,1.5,5); d={f"x[{i}]":pt[i] for i in range(5)}
def build(n,op,distinct=False):
    xs = VectorVariable("q",n) if distinct else None
    v=lambda i: (xs[i] if distinct else x[i%5])
    e=1+0.001*v(0)
    for i in range(1,n):
        t_=1+0.001*v(i); e = e*t_ if op=="*" else (e/t_ if op=="/" else (e+t_*t_))
    return e, (list(xs) if distinct else list(x))
def ok(n,op,distinct):
    e,V=build(n,op,distinct)
    try:
        p=np.linspace(0.5,1.5,len(V)); compile_jacobian([e],V[:3] if False else V)(p) if not distinct else compile_expression(gradient(e,V[0]),V)(p); return True
    except RecursionError: return False
for op in "*/+":
    for distinct in (False,True):
        lo,hi=2,900
        if ok(hi,op,distinct): print(op,"distinct" if distinct else "repeated","ok up to 900"); continue
        while hi-lo>1:
            mid=(lo+hi)//2
            if ok(mid,op,distinct): lo=mid
            else: hi=mid
        e,V=build(hi,op,distinct); g=gradient(e,V[0])
        print(op,"distinct" if distinct else "repeated","first failing n =",hi,"left-spine est",_estimate_tree_depth(g),"true depth",_estimate_tree_depth(g,max_check=10**6,full_traversal=True))
