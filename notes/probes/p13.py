import numpy as np, sys, time
from optyx import *
from optyx.core.autodiff import gradient, compile_jacobian
from optyx.core.compiler import compile_expression, compile_gradient
from optyx.core.expressions import get_all_variables
np.seterr(all="ignore")
def t(name, f):
    t0=time.time()
    try:
        r=f(); print(f"{name} -> {r}  ({time.time()-t0:.2f}s)")
    except BaseException as e: print(name, 'EXC', type(e).__name__, str(e)[:120])
def chain(terms, op):
    e=terms[0]
    for t_ in terms[1:]:
        e = {"+":lambda a,b:a+b,"-":lambda a,b:a-b,"*":lambda a,b:a*b,"/":lambda a,b:a/b}[op](e,t_)
    return e
def main():
    for n in (399,400,401,450,900):
        x=VectorVariable("x",n)
        pt=np.linspace(0.5,1.5,n); d={f"x[{i}]":pt[i] for i in range(n)}
        for op in "+-*/":
            terms=[x[i] if op in "+-" else (1+0.001*x[i]) for i in range(n)]
            e=chain(terms,op)
            ref={"+":pt.sum(),"-":pt[0]-pt[1:].sum(),"*":np.prod(1+0.001*pt),"/":(1+0.001*pt[0])/np.prod(1+0.001*pt[1:])}[op]
            def run():
                out=[]
                out.append(abs(float(e.evaluate(d))-ref)<1e-9*max(1,abs(ref)))
                f=compile_expression(e,list(x)); out.append(abs(float(f(pt))-ref)<1e-9*max(1,abs(ref)))
                out.append(len(get_all_variables(e))==n)
                out.append(e.degree)
                g=gradient(e,x[n//2]); 
                out.append("g")
                j=compile_jacobian([e],list(x))(pt); out.append(j.shape)
                return out
            t(f"n={n} op={op}", run)
    # solve deep
    for n in (450,900):
        x=VectorVariable("x",n)
        a=np.linspace(-1,1,n)
        e=(x[0]-a[0])**2
        for i in range(1,n): e=e+(x[i]-a[i])**2
        t(f"solve deep n={n}", lambda: Problem().minimize(e).solve().status)
        lin=x[0]*1.0
        for i in range(1,n): lin=lin+a[i]*x[i]
        xb=VectorVariable("xb",n,lb=0,ub=1)
        lin=xb[0]*1.0
        for i in range(1,n): lin=lin+a[i]*xb[i]
        t(f"solve deep LP n={n}", lambda: Problem().minimize(lin).solve().status)
    for n in (5000,20000):
        x=VectorVariable("x",n)
        e=chain([x[i] for i in range(n)],"-")
        t(f"grad n={n}", lambda: (gradient(e,x[0]).evaluate({}), gradient(e,x[n-1]).evaluate({}), e.degree, len(get_all_variables(e))))
main()
