import numpy as np, warnings
from optyx import *
np.seterr(all="ignore")
def probs():
    a=Variable("a"); b=Variable("b")
    yield "contradictory", lambda: Problem().minimize(a**2+b**2).subject_to(a>=1).subject_to(a<=0)
    yield "lin-infeas", lambda: Problem().minimize(a**2+b).subject_to(a+b>=2).subject_to(a+b<=1).subject_to(b>=-5)
    yield "ball", lambda: Problem().minimize((a-3)**2+b**2).subject_to(a**2+b**2<=1).subject_to(a>=2)
    yield "eq-infeas", lambda: Problem().minimize(a**2+b**2).subject_to((a+b).eq(1)).subject_to((a+b).eq(2))
    c=Variable("c",lb=1,ub=3)
    yield "bounds-only", lambda: Problem().minimize((c+2)**2)
    yield "bounds+con", lambda: Problem().minimize((c+2)**2).subject_to(c<=2.5)
    yield "feasible", lambda: Problem().minimize((a-1)**2+(b-2)**2).subject_to(a+b<=2)
for name,mk in probs():
    for m in ("auto","SLSQP","trust-constr","L-BFGS-B","BFGS","Nelder-Mead","COBYLA","Powell","TNC","CG","Newton-CG"):
        with warnings.catch_warnings():
            warnings.simplefilter("ignore")
            try:
                p=mk(); s=p.solve(method=m)
                viol=max([c.violation(s.values) for c in p.constraints]+[0.0]) if s.values else None
                bv=max([max(0,(v.lb-s.values[v.name]) if v.lb is not None else 0, (s.values[v.name]-v.ub) if v.ub is not None else 0) for v in p.variables]+[0.0]) if s.values else None
                flag="  <<<< OPTIMAL but infeasible" if s.status.value=="optimal" and (viol>1e-5 or bv>1e-5) else ""
                print(f"{name:14s}{m:13s}{s.status.value:15s} viol={viol} boundviol={bv}{flag}")
            except Exception as e:
                print(f"{name:14s}{m:13s}EXC {type(e).__name__} {str(e)[:80]}")
