import random, numpy as np, sys
from optyx import *
from optyx.analysis import LinearProgramExtractor, extract_constant_term
np.seterr(all="ignore")
rng=random.Random(3)
def H(e):
    try: e._hash
    except AttributeError: e._hash=None
    return e
def aff(rng, xs, vec, depth):
    """random affine expression in funny syntax"""
    r=rng.random()
    c=rng.choice([0.5,1,2,-1,-0.25,3,0,4])
    if depth==0 or r<0.25:
        k=rng.random()
        if k<0.35: return rng.choice(xs)
        if k<0.5: return Constant(c)
        if k<0.6: return vec.sum()
        if k<0.7: return np.array([rng.choice([1.,2,0,-1]) for _ in range(vec.size)]) @ vec
        if k<0.78: return np.array([rng.choice([1.,2,0,-1]) for _ in range(vec.size)]) @ (vec + c)
        if k<0.85: return (np.array([[1.,2,0],[0,1,1]])[:, :vec.size] @ vec)[rng.randrange(2)] if vec.size<=3 else vec[0]
        if k<0.9: return vec[rng.randrange(vec.size):].sum() if vec.size>1 else vec.sum()
        if k<0.95: return (2*vec).sum()
        return c*rng.choice(xs)
    a=aff(rng,xs,vec,depth-1)
    if r<0.45: return a + aff(rng,xs,vec,depth-1)
    if r<0.6: return a - aff(rng,xs,vec,depth-1)
    if r<0.68: return c*a
    if r<0.74: return a*c
    if r<0.8: return a/rng.choice([2,4,-0.5])
    if r<0.84: return -a
    if r<0.88: return (Constant(c)+rng.choice([1,2]))*a
    if r<0.91: return a**1
    if r<0.93: return a + rng.choice(xs)**0
    if r<0.96: return c + a
    return c - a
bad={}
cnt=0; lin=0
for it in range(4000):
    n=rng.randint(1,4)
    vec=VectorVariable("v",n)
    xs=[Variable(nm) for nm in rng.sample(["a","b","x2","x10"],rng.randint(1,3))]
    obj=aff(rng,xs,vec,rng.randint(0,3))
    cons=[]
    for k in range(rng.randint(0,3)):
        l=aff(rng,xs,vec,rng.randint(0,3)); rr=aff(rng,xs,vec,rng.randint(0,1)) if rng.random()<0.4 else rng.choice([1,2.5,-3,0])
        s=rng.choice(["<=",">=","=="])
        try:
            cons.append((l<=rr) if s=="<=" else ((l>=rr) if s==">=" else l.eq(rr)))
        except Exception as ex:
            bad.setdefault(("cmp",type(ex).__name__),[]).append(str(ex)[:80])
    if not hasattr(obj,"evaluate"): continue
    p=Problem(); (p.minimize if rng.random()<0.5 else p.maximize)(obj)
    for c in cons: p.subject_to(c)
    cnt+=1
    try:
        if not p._is_linear_problem(): continue
        lin+=1
        lp=LinearProgramExtractor().extract(p)
    except Exception as ex:
        bad.setdefault(("extract-exc",type(ex).__name__,str(ex)[:60]),[]).append(repr(obj)[:100]); continue
    V=p.variables; names=[v.name for v in V]; nn=len(V)
    assert names==lp.variables
    pts=[np.zeros(nn)]+[np.eye(nn)[i] for i in range(nn)]+[np.array([rng.uniform(-2,2) for _ in range(nn)])]
    def ev(e,x): return float(e.evaluate(dict(zip(names,x))))
    c0=extract_constant_term(obj)
    for x in pts:
        if abs(lp.c@x + c0 - ev(obj,x))>1e-9: bad.setdefault(("obj",),[]).append(repr(obj)[:160]); break
    iu=ie=0
    for c in p.constraints:
        if c.sense=="==": row,b,sg=lp.A_eq[ie],lp.b_eq[ie],1; ie+=1
        elif c.sense=="<=": row,b,sg=lp.A_ub[iu],lp.b_ub[iu],1; iu+=1
        else: row,b,sg=lp.A_ub[iu],lp.b_ub[iu],-1; iu+=1
        for x in pts:
            if abs(row@x-b - sg*ev(c.expr,x))>1e-9: bad.setdefault(("row",c.sense),[]).append(repr(c.expr)[:200]); break
print("problems",cnt,"linear",lin)
for k,v in bad.items():
    print(k,len(v)); 
    for s in v[:4]: print("    ",s)
