import sys, warnings, numpy as np
from optyx import *
import optyx.solvers.scipy_solver as ss
mon = sys.monitoring
TOOL = mon.PROFILER_ID
mon.use_tool_id(TOOL, "vmon")

def nested_codes(code, out=None):
    out = out if out is not None else {}
    for c in code.co_consts:
        if hasattr(c, "co_code"):
            out[c.co_name] = c
            nested_codes(c, out)
    return out
codes = nested_codes(ss.solve_scipy.__code__)
print(sorted(codes))
state = {"n":0, "k":None, "exc":None}
def on_start(code, off):
    state["n"] += 1
    if state["k"] is not None and state["n"] == state["k"]:
        raise state["exc"]("injected")
mon.register_callback(TOOL, mon.events.PY_START, on_start)
for name in ("objective","gradient","_hess_fn"):
    mon.set_local_events(TOOL, codes[name], mon.events.PY_START)

def mk():
    x = Variable("x", lb=0); y = Variable("y", lb=0)
    return Problem().minimize((x-1)**2 + (y-2)**2 + x*y).subject_to(x + y >= 1)
base = mk().solve(method="SLSQP")
K = state["n"]; print("events", K, base.status, base.objective_value)
orig_show = warnings.showwarning
for exc in (ValueError, MemoryError, KeyboardInterrupt, FloatingPointError):
    for k in (1, 2, K//2, K):
        p = mk(); state.update(n=0, k=k, exc=exc)
        try:
            r = p.solve(method="SLSQP"); out = ("returned", r.status.value, r.message[:30])
        except BaseException as e:
            out = ("raised", type(e).__name__)
        state.update(n=0, k=None)
        ok_globals = warnings.showwarning is orig_show
        r2 = p.solve(method="SLSQP")
        print(exc.__name__, k, out, ok_globals, r2.status.value, abs(r2.objective_value-base.objective_value)<1e-12)
