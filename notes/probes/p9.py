import numpy as np, itertools
from optyx import *
from optyx.core.autodiff import gradient, compile_jacobian, compile_hessian, compute_hessian
from optyx.core.compiler import compile_gradient, compile_expression
np.seterr(all="ignore")
def t(name, f):
    try:
        r=f(); print(name, '->', r if not isinstance(r,np.ndarray) else r.tolist())
    except Exception as e:
        print(name, 'EXC', type(e).__name__, str(e)[:160])
# after hash "fix" emulate: set _hash on instances
def H(e):
    try: e._hash
    except AttributeError: e._hash=None
    return e
x = VectorVariable("x", 3); y=Variable("y")
V=[x[2],y,x[0],x[1]]
pt=np.array([0.3,0.7,1.1,0.5])  # x2,y,x0,x1
def fd_h(f,p,h=1e-4):
    n=len(p);Hh=np.zeros((n,n))
    for i in range(n):
        for j in range(n):
            pp=p.copy();pp[i]+=h;pp[j]+=h;pm=p.copy();pm[i]+=h;pm[j]-=h;mp=p.copy();mp[i]-=h;mp[j]+=h;mm=p.copy();mm[i]-=h;mm[j]-=h
            Hh[i,j]=(f(pp)-f(pm)-f(mp)+f(mm))/(4*h*h)
    return Hh
exprs={"pow3":H((x**3).sum()),"pow2":H((x**2).sum()),"pow1":H((x**1).sum()),"pow2.5":H((x**2.5).sum()),"pow-1":H((x**-1).sum()),
 "sin":H(sin(x).sum()),"cos":H(cos(x).sum()),"exp":H(exp(x).sum()),"log":H(log(x).sum()),"sqrt":H(sqrt(x).sum()),"tanh":H(tanh(x).sum()),"abs":H(abs_(x).sum()),"tan":H(tan(x).sum()),
 "norm":x.norm(),"norm1":x.norm(1),"qf":x.dot(np.array([[1.,2,0],[0,3,1],[1,0,2]])@x),"dot":x.dot(x), "mix": x.norm()*y + exp(x[0]*y)}
for k,e in exprs.items():
    for Vn,VV in (("perm",V),("own",list(x)),("ownrev",list(x)[::-1])):
        if Vn!="perm" and k=="mix": continue
        p = pt if Vn=="perm" else (np.array([1.1,0.5,0.3]) if Vn=="own" else np.array([0.3,0.5,1.1]))
        try:
            f=compile_expression(e,VV); hf=compile_hessian(e,VV); gf=compile_gradient(e,VV); jf=compile_jacobian([e],VV)
            Hn=fd_h(lambda q: float(f(q)), p); Ho=hf(p)
            gn=np.array([(f(p+1e-6*np.eye(len(p))[i])-f(p-1e-6*np.eye(len(p))[i]))/2e-6 for i in range(len(p))])
            eh=np.max(np.abs(Hn-Ho)); eg=np.max(np.abs(gn-gf(p))); ej=np.max(np.abs(gn-jf(p).ravel()))
            flag = "  <<<<<" if (eh>1e-4 or eg>1e-5 or ej>1e-5 or np.isnan(eh)) else ""
            print(f"{k:7s} {Vn:6s} hess={hf.__name__:22s} grad={gf.__name__:20s} jac={jf.__name__:28s} errH={eh:.1e} errG={eg:.1e} errJ={ej:.1e}{flag}")
        except Exception as ex:
            print(k,Vn,"EXC",type(ex).__name__,str(ex)[:120])
