import numpy as np, types
from optyx import *
import optyx.core.compiler as cp
from optyx.core.compiler import compile_expression
x = VectorVariable("x", 3); y = Variable("y")
e = sin(x[0]) * 2 + x.dot(x + 1) - np.array([1.,2,3]) @ x + x.norm() / (y ** 2)
f = compile_expression(e, list(x)+[y])
def sites(fn, acc):
    if isinstance(fn, types.FunctionType):
        acc.add((fn.__code__.co_name, fn.__code__.co_firstlineno))
        for d in (fn.__defaults__ or ()):
            if isinstance(d, types.FunctionType): sites(d, acc)
            elif isinstance(d, list):
                for q in d: sites(q, acc)
        for c in (fn.__closure__ or ()):
            try: v = c.cell_contents
            except ValueError: continue
            if isinstance(v, types.FunctionType): sites(v, acc)
    return acc
print(sorted(sites(f, set()), key=lambda t:t[1]))
# all lambda sites in compiler module
def all_sites(code, acc):
    for c in code.co_consts:
        if hasattr(c, "co_code"):
            acc.add((c.co_name, c.co_firstlineno)); all_sites(c, acc)
    return acc
tot=set()
for name in ("_build_evaluator","_build_vector_evaluator","_build_evaluator_iterative"):
    all_sites(getattr(cp,name).__code__, tot)
print(len(tot))
