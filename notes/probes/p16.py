import math, random, sys, numpy as np
sys.path.insert(0,"/tmp/probe")
from proto_ref import gen, build, as_expr, NAMES
from optyx import Variable, Constant
import optyx.analysis as an
np.seterr(all="ignore")
from math import comb
def fd(f,p,u,d,h=0.37):
    # (d+1)-th forward difference along line
    k=d+1
    return sum((-1)**(k-i)*comb(k,i)*f(p+i*h*u) for i in range(k+1))
rng=random.Random(7)
env={k:Variable(k) for k in NAMES}
bad=[];rep={}
N=6000
for c in range(N):
    r=gen(rng, rng.randint(1,5))
    try: e=as_expr(build(r,env))
    except Exception: continue
    for mode in ("rec","iter"):
        if mode=="iter":
            an._RECURSION_THRESHOLD=1; an._compute_degree_cached.cache_clear()
            try: e=as_expr(build(r,env))
            except Exception: break
        else: an._RECURSION_THRESHOLD=400
        try: d=e.degree
        except Exception as ex: bad.append(("exc",mode,r,repr(ex))); continue
        rep[(mode,d)]=rep.get((mode,d),0)+1
        if d is None: continue
        f=lambda q: float(e.evaluate({k:q[i] for i,k in enumerate(NAMES)}))
        worst=0;sc=0
        for _ in range(3):
            p=np.array([rng.uniform(0.5,1.5) for _ in NAMES]); u=np.array([rng.uniform(0.2,1) for _ in NAMES])
            try:
                val=fd(f,p,u,d); s=max(1,abs(f(p)),abs(f(p+(d+1)*0.37*u)))
            except Exception: continue
            if math.isfinite(val): worst=max(worst,abs(val)/s)
        if worst>1e-6: bad.append(("under",mode,d,worst,r))
an._RECURSION_THRESHOLD=400
print(rep)
print(len(bad))
seen=set()
for b in bad:
    key=str(b)[:60]
    if key in seen: continue
    seen.add(key); print(b)
    if len(seen)>15: break
