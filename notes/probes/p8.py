import sys, json, numpy as np, warnings
from optyx import *
import optyx.solvers.scipy_solver as ss
from scipy.optimize import OptimizeResult
def mk():
    x = VectorVariable("x", 3, lb=-1, ub=4); y = Variable("y")
    p = Problem().minimize((x[0]-1)**2 + exp(x[1]) + x.dot(x) + (y-2)**2 + x[2]*y).subject_to(x.sum() + y >= 1).subject_to(x[0]*x[0] + y*y <= 9)
    return p
if len(sys.argv)>1 and sys.argv[1]=="twin":
    out={}
    for m in ("auto","SLSQP","trust-constr"):
        s=mk().solve(method=m); out[m]=(s.status.value, s.objective_value.hex(), {k:v.hex() for k,v in s.values.items()})
    print(json.dumps(out)); sys.exit()
import subprocess
a=subprocess.run([sys.executable,"-W","ignore",__file__,"twin"],capture_output=True,text=True).stdout
b=subprocess.run([sys.executable,"-W","ignore",__file__,"twin"],capture_output=True,text=True).stdout
print("bit-identical across processes:", a==b, len(a))
# stub
real=ss.minimize
def stub(fun,x0,**kw):
    return OptimizeResult(x=np.array([5.0]), success=False, status=8, message="Positive directional derivative for linesearch", fun=fun(np.array([5.0])), nit=3)
ss.minimize=stub
v=Variable("v")
s=Problem().minimize(v**2).subject_to(v<=1).solve(method="SLSQP")
print("stub:", s.status, s.values, s.objective_value)
ss.minimize=real
