import numpy as np, itertools, operator
from optyx import *
np.seterr(all="ignore")
x = VectorVariable("x", 3); y=VectorVariable("y",3); z2=VectorVariable("z",2); z1=VectorVariable("o",1)
X = MatrixVariable("X",2,3); Y=MatrixVariable("Y",2,3); W=MatrixVariable("W",3,2)
vals={f"x[{i}]":1.+i for i in range(3)}|{f"y[{i}]":4.+i for i in range(3)}|{f"z[{i}]":7.+i for i in range(2)}|{"o[0]":9.}
vals|={f"X[{i},{j}]":1.+i*3+j for i in range(2) for j in range(3)}|{f"Y[{i},{j}]":10.+i*3+j for i in range(2) for j in range(3)}|{f"W[{i},{j}]":20.+i*2+j for i in range(3) for j in range(2)}
def num(o):
    from optyx.core.vectors import VectorVariable as VV, VectorExpression as VE
    from optyx.core.matrices import MatrixVariable as MV, MatrixExpression as ME
    if isinstance(o,VV): return np.array([vals[v.name] for v in o])
    if isinstance(o,MV): return np.array([[vals[o[i,j].name] for j in range(o.cols)] for i in range(o.rows)])
    if isinstance(o,(VE,)): return np.array(o.evaluate(vals),dtype=float)
    if isinstance(o,ME): return o.evaluate(vals)
    return o
ops={"+":operator.add,"-":operator.sub,"*":operator.mul,"/":operator.truediv,"**":operator.pow}
operands={"x":x,"y":y,"z2":z2,"o1":z1,"x+1":x+1,"2.0":2.0,"3":3,"np64":np.float64(2.0),"npi":np.int64(3),"np32":np.float32(2.0),"0d":np.array(2.0),"arr3":np.array([1.,2,3]),"arr2":np.array([1.,2]),"arr1":np.array([5.]),"list3":[1.,2,3],"tuple3":(1.,2,3),
 "X":X,"Y":Y,"W":W,"X+1":X+1,"A23":np.arange(6.).reshape(2,3),"A32":np.arange(6.).reshape(3,2),"row3":np.array([[1.,2,3]]),"list23":[[1.,2,3],[4,5,6]]}
vecs=["x","x+1"]; mats=["X","X+1"]
rows=[]
for ln,rn in itertools.chain(itertools.product(vecs,operands),itertools.product(operands,vecs),itertools.product(mats,operands),itertools.product(operands,mats)):
    for on,op in ops.items():
        a,b=operands[ln],operands[rn]
        try:
            expect=op(np.asarray(num(a),dtype=float) if not isinstance(num(a),(int,float)) else num(a), np.asarray(num(b),dtype=float) if not isinstance(num(b),(int,float)) else num(b)); experr=None
        except Exception as e: expect=None; experr=type(e).__name__
        try:
            r=op(a,b)
            try:
                got=num(r); got=np.asarray(got,dtype=float)
                res="OK" if expect is not None and got.shape==np.shape(expect) and np.allclose(got,expect) else f"DIFF got{np.shape(got)} exp{np.shape(expect) if expect is not None else experr}"
            except Exception as e:
                res=f"EVALERR {type(e).__name__}"
        except Exception as e:
            res=f"raise:{type(e).__name__}" + ("" if experr else " (numpy accepts)")
        rows.append((ln,on,rn,res))
from collections import Counter
print(Counter(r[3].split()[0] for r in rows))
for r in rows:
    if r[3].startswith("DIFF") or r[3].startswith("EVALERR"): print(r)
