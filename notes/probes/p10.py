import numpy as np
from optyx import *
from optyx.core.autodiff import gradient, compile_jacobian, compile_hessian, compute_jacobian
from optyx.core.compiler import compile_gradient, compile_expression
np.seterr(all="ignore")
def H(e):
    try: e._hash
    except AttributeError: e._hash=None
    return e
x = VectorVariable("x", 3); y=Variable("y")
cases={"abs":H(abs_(x).sum()),"sqrt":H(sqrt(x).sum()),"log":H(log(x).sum()),"pow-1":H((x**-1).sum()),"pow0.5":H((x**0.5).sum()),"pow1.5":H((x**1.5).sum()),"pow3":H((x**3).sum()),
 "norm2":x.norm(),"norm1":x.norm(1),"tan":H(tan(x).sum())}
pt_own=np.array([0.0,1.0,0.0]); 
for k,e in cases.items():
    for Vn,VV,p in (("own",list(x),pt_own),("sup",[y]+list(x),np.array([2.0,0.0,1.0,0.0])),("perm",[x[1],x[0],x[2]],np.array([1.0,0.0,0.0]))):
        gen=[gradient(e,v) for v in VV]
        genf=[compile_expression(g,VV) for g in gen]
        raw=np.array([float(f(p)) for f in genf])
        exp_=np.nan_to_num(raw,nan=0.0,posinf=1e16,neginf=-1e16)
        g=compile_gradient(e,VV)(p); j=compile_jacobian([e],VV)(p).ravel(); h=compile_hessian(e,VV)(p)
        okg=np.array_equal(g,exp_); okj=np.array_equal(j,exp_); fin=np.all(np.isfinite(g)) and np.all(np.isfinite(j)) and np.all(np.isfinite(h))
        print(f"{k:7s}{Vn:5s} general={exp_.tolist()} grad={g.tolist()} jac={j.tolist()} finite={fin} agree={okg and okj} hdiag={np.diag(h).tolist()}")
