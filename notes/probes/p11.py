import numpy as np
from optyx import *
np.seterr(all="ignore")
def names(p): return [v.name for v in p.variables]
def t(name, f):
    try: print(name, '->', f())
    except Exception as e: print(name, 'EXC', type(e).__name__, str(e)[:160])
x = VectorVariable("x", 12); y=Variable("y"); z=VectorVariable("z",3)
t("single", lambda: names(Problem().minimize(x.sum()))[:4])
t("single + scalar constraint", lambda: names(Problem().minimize(x.sum()).subject_to(y>=1))[-3:])
t("single + other vec constraint", lambda: names(Problem().minimize(x.sum()).subject_to(z.sum()>=1))[-4:])
t("slice obj, full constraint", lambda: names(Problem().minimize(x[0:2].sum()).subject_to(x.sum()>=1)))
s=x[0:2]
t("slice obj, elem constraint x[5]", lambda: names(Problem().minimize(s.sum()).subject_to(x[5]>=1)))
t("slice obj + slice constraints (vector cmp)", lambda: names(Problem().minimize(s.sum()).subject_to(s>=0)))
t("dot(x,x)+ y*0", lambda: names(Problem().minimize(x.dot(x) + 0*y))[-2:])
t("LinearCombination of expr", lambda: names(Problem().minimize(np.ones(12)@x).subject_to((np.ones(3)@(z+1))<=3))[-3:])
t("stepped", lambda: names(Problem().minimize(x[::5].sum())))
t("obj const only", lambda: names(Problem().minimize(Constant(1.0)).subject_to(x[3]+x[10]>=1)))
A=MatrixVariable("A",2,11)
t("matrix natural", lambda: names(Problem().minimize(A.sum()))[:13])
t("col", lambda: names(Problem().minimize(A[:,10].sum()+A[:,2].sum())))
t("names digits", lambda: names(Problem().minimize(Variable("x10")+Variable("x2")+Variable("x_3")+Variable("10a")+Variable("2a")+Variable("x"))))
# vexprsum with lincomb elements  (A@x).sum()
M=np.arange(6.).reshape(2,3)
t("(M@z).sum", lambda: names(Problem().minimize((M@z).sum()).subject_to(z.sum()<=1)))
t("n_vars solution keys", lambda: sorted(Problem().minimize(s.sum()).subject_to(s>=0).subject_to(x[5]>=1).solve().values))
