import numpy as np, sys, time, traceback
from optyx import *
from optyx.core.autodiff import gradient, compile_jacobian
from optyx.core.compiler import compile_expression, compile_gradient
np.seterr(all="ignore")
x=VectorVariable("x",5); pt=np.linspace(0.5,1.5,5); d={f"x[{i}]":pt[i] for i in range(5)}
for n in (850,900):
  for op in "*/":
    e=1+0.001*x[0]
    for i in range(1,n):
        t_=1+0.001*x[i%5]
        e = e*t_ if op=="*" else e/t_
    for name,f in (("evaluate",lambda: e.evaluate(d)),("compile+call",lambda: compile_expression(e,list(x))(pt)),("gradient",lambda: gradient(e,x[2])),
                   ("grad eval",lambda: gradient(e,x[2]).evaluate(d)),("compile grad",lambda: compile_expression(gradient(e,x[2]),list(x))),("compile grad call",lambda: compile_expression(gradient(e,x[2]),list(x))(pt)),
                   ("jac",lambda: compile_jacobian([e],list(x))(pt))):
        t0=time.time()
        try: r=f(); print(n,op,name,"ok",f"{time.time()-t0:.2f}s")
        except RecursionError as ex:
            tb=traceback.extract_tb(ex.__traceback__); print(n,op,name,"RecursionError at",tb[-1].name, tb[-1].lineno, "first frames:", [f.name for f in tb[:4]])
