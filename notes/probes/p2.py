import numpy as np, warnings, traceback, sys
from optyx import *
from optyx.core.compiler import compile_expression, compile_gradient
from optyx.core.autodiff import gradient, compile_jacobian, compile_hessian
import optyx.core.autodiff as ad, optyx.core.compiler as cp
from optyx.analysis import LinearProgramExtractor

def t(name, f):
    try:
        print(name, '->', f())
    except Exception as e:
        print(name, 'EXC', type(e).__name__, str(e)[:150])

# C13 bounds after solve
v = Variable("v", lb=0, ub=10)
p = Problem().maximize(v)
t("C13 lp first", lambda: p.solve().values)
v.ub = 5
t("C13 lp after ub=5", lambda: p.solve().values)
w = Variable("w", lb=0, ub=10)
p2 = Problem().maximize(w - 0.001*w**2)
t("C13 nlp first", lambda: p2.solve().values)
w.ub = 5
t("C13 nlp after ub=5", lambda: p2.solve().values)
# C14
x = Variable("x")
p1 = Parameter("p", 2.0); pp = Parameter("p", 7.0)
g1 = compile_expression(gradient(p1*x, x), [x]); 
g2 = compile_expression(gradient(pp*x, x), [x])
t("C14 param alias", lambda: (g1(np.array([1.])), g2(np.array([1.]))))
# variables same name different bounds in different problems
xa = Variable("x", lb=0); xb = Variable("x", lb=5)
t("C14 var alias A", lambda: Problem().minimize(xa).solve().values)
t("C14 var alias B", lambda: Problem().minimize(xb).solve().values)
# C15
z = Variable("z")
e = atan(z)
for i in range(450): e = e + 1
t("C15 deep atan grad", lambda: gradient(e, z).evaluate({"z":1.0}))
xv = VectorVariable("xv", 3)
e2 = (xv**2).sum() if False else xv.norm()
for i in range(450): e2 = e2 + 1
t("C15 deep L2norm compile", lambda: compile_expression(e2, list(xv))(np.array([1.,2,2])))
# C16
u = VectorVariable("u", 3)
r = u[::-1]
t("C16 reversed", lambda: [v.name for v in Problem().minimize(r.sum()).variables])
# C18
bv = VectorVariable("bv", 2, domain="binary")
t("C18 bin bounds", lambda: [(q.lb,q.ub,q.domain) for q in bv[0:1]])
B = MatrixVariable("B",2,2,domain="binary")
t("C18 bin T", lambda: [(q.lb,q.ub,q.domain) for q in B.T[0,:]])
# C19
s = VectorVariable("s", 2)
t("C19 abs vec at 0", lambda: compile_gradient(abs_(s).sum() if False else s.norm(1), list(s))(np.zeros(2)))
t("C19 l2norm at 0", lambda: compile_gradient(s.norm(), list(s))(np.zeros(2)))
t("C19 hess sqrt at 0", lambda: compile_hessian(sqrt(s[0])+s[1], list(s))(np.zeros(2)))
t("C19 x**-1 at 0", lambda: compile_gradient(s[0]**-1, list(s))(np.zeros(2)))
t("C19 x**0.5 at 0", lambda: compile_jacobian([s[0]**0.5], list(s))(np.zeros(2)))
