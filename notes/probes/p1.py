import numpy as np, warnings, traceback
from optyx import *
from optyx.core.compiler import compile_expression, compile_gradient
from optyx.core.autodiff import gradient, compile_jacobian, compile_hessian
from optyx.analysis import LinearProgramExtractor

def t(name, f):
    try:
        print(name, '->', f())
    except Exception as e:
        print(name, 'EXC', type(e).__name__, str(e)[:150])

x = VectorVariable("x", 3)
# C01
t("C01 (x**2).sum compile", lambda: compile_expression((x**2).sum(), list(x))(np.array([1.,2,3])))
X = MatrixVariable("X",2,2)
t("C01 MatrixSum compile", lambda: compile_expression(X.sum(), X.get_variables())(np.array([1.,2,3,4])))
t("C01 Frobenius compile", lambda: compile_expression(frobenius_norm(X), X.get_variables())(np.array([1.,2,3,4])))
t("C01 solve (x**2).sum", lambda: Problem().minimize((x**2).sum()).subject_to(x.sum()>=1).solve())
t("C01 sin(x).sum compile", lambda: compile_expression(sin(x).sum(), list(x))(np.array([1.,2,3])))
t("C01 ElementwisePower compile", lambda: compile_expression((x**2), list(x))(np.array([1.,2,3])))
# C03
t("C03 overlap dot", lambda: compile_jacobian([x[0:2].dot(x[1:3])], list(x))(np.array([1.,2,3])))
t("C03 overlap dot grad", lambda: compile_gradient(x[0:2].dot(x[1:3]), list(x))(np.array([1.,2,3])))
# C04
y = VectorVariable("y",3)
t("C04 dot(sin x, y) degree", lambda: sin(x+0).dot(y).degree)
t("C04 VectorPowerSum 2.5", lambda: (x**2.5).sum().degree)
t("C04 VectorPowerSum -1", lambda: ((x**-1).sum().degree, (x**-1).sum().degree))
t("C04 ElementwisePower", lambda: (x**2.5).degree)
# C05
c = np.array([1.,1,1])
def lp(p):
    d = LinearProgramExtractor().extract(p); return d
p = Problem().minimize(x.sum()).subject_to(c @ (x+1) <= 10)
t("C05 c@(x+1)<=10", lambda: (lp(p).A_ub, lp(p).b_ub))
xs = Variable("xs")
p = Problem().minimize(xs).subject_to((xs+5)**1 <= 10)
t("C05 (x+5)**1", lambda: (lp(p).A_ub, lp(p).b_ub))
p = Problem().minimize((Constant(2)+3)*xs).subject_to(xs>=1)
t("C05 (2+3)*x", lambda: (lp(p).c,))
# C06
a = Variable("a")
t("C06 infeasible", lambda: Problem().minimize(a**2).subject_to(a>=1).subject_to(a<=0).solve())
t("C06 infeasible SLSQP", lambda: Problem().minimize(a**2).subject_to(a>=1).subject_to(a<=0).solve(method="SLSQP"))
# C07
b = Variable("b", lb=0)
t("C07 min x+5", lambda: Problem().minimize(b+5).solve())
