import math, random, sys, numpy as np, time
sys.path.insert(0,"/tmp/probe")
from proto_ref import gen, build, as_expr, NAMES, ref
from optyx import Variable
from optyx.core.autodiff import compile_hessian, compute_hessian
np.seterr(all="ignore")
rng=random.Random(11)
names=NAMES[:3]
env={k:Variable(k) for k in NAMES}
V=[env[k] for k in names]; idx={k:i for i,k in enumerate(NAMES)}; n=4
stats=dict(cases=0,maxerr=0.0,asym=0.0); bad=[]
t0=time.time()
for c in range(700):
    r=gen(rng, rng.randint(1,4))
    if "w" in str(r): continue
    try: e=as_expr(build(r,env))
    except Exception: continue
    pt=None
    for _ in range(30):
        cand={k:rng.uniform(0.3,1.7) if rng.random()<0.6 else rng.uniform(-1.7,1.7) for k in NAMES}
        try:
            d=ref(r,cand,idx,n)
            ok=True
            G=[]
            for j,k in enumerate(names):
                for sgn in (+1,-1):
                    q=dict(cand); q[k]+=sgn*1e-5; dd=ref(r,q,idx,n)
                    if dd.m<5e-2 or not np.all(np.isfinite(dd.g)): ok=False
                    G.append(dd.g[:3])
        except (ValueError,ZeroDivisionError,OverflowError,TypeError): continue
        if not ok or isinstance(d.v,complex) or d.m<5e-2 or abs(d.v)>1e4 or np.max(np.abs(d.g))>1e4: continue
        Hn=np.array([(G[2*j]-G[2*j+1])/2e-5 for j in range(3)])
        if not np.all(np.isfinite(Hn)) or np.max(np.abs(Hn))>1e5: continue
        pt=cand;break
    if pt is None: continue
    x=np.array([pt[k] for k in names])
    try:
        Ho=compile_hessian(e,V)(x)
        Hs=np.array([[float(h.evaluate(pt)) for h in row] for row in compute_hessian(e,V)])
    except Exception as ex:
        bad.append(("exc",r,repr(ex)[:100])); continue
    stats["cases"]+=1
    sc=np.maximum(1,np.abs(Hn))
    err=max(np.max(np.abs(Ho-Hn)/sc), np.max(np.abs(Hs-Hn)/sc))
    stats["asym"]=max(stats["asym"], float(np.max(np.abs(Hs-Hs.T)/sc)))
    if err>1e-4: bad.append(("mismatch",err,r,pt))
    else: stats["maxerr"]=max(stats["maxerr"],float(err))
print(stats, len(bad), f"{time.time()-t0:.1f}s")
for b in bad[:8]: print(str(b)[:400])
