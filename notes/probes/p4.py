import numpy as np, warnings
from optyx import *
from optyx.core.compiler import compile_expression
from optyx.core.autodiff import gradient, compile_jacobian
def t(name, f):
    try:
        print(name, '->', f())
    except Exception as e:
        print(name, 'EXC', type(e).__name__, str(e)[:200])
x = VectorVariable("x", 3, lb=0, ub=1)
prices = VectorParameter("prices", 3, values=[10,20,30])
e = prices @ x
vals = {"x[0]":1.,"x[1]":1.,"x[2]":1.}
t("eval prices@x", lambda: e.evaluate(vals))
t("coeffs dtype", lambda: e.coefficients.dtype)
t("compile", lambda: compile_expression(e, list(x))(np.ones(3)))
t("degree", lambda: e.degree)
t("solve max", lambda: Problem().maximize(e).subject_to(x.sum()<=1).solve())
prices.set([1,2,50])
t("eval after set", lambda: e.evaluate(vals))
t("solve after set", lambda: Problem().maximize(e).subject_to(x.sum()<=1).solve())
cov = MatrixParameter("Sigma", values=np.eye(3), symmetric=True)
r = x.dot(cov @ x)
t("risk eval", lambda: r.evaluate(vals))
q = QuadraticForm(x, cov.values)
t("qf eval", lambda: q.evaluate(vals))
cov.set(2*np.eye(3))
t("qf eval after set", lambda: q.evaluate(vals))
# sum of p_i x_i
e2 = sum(prices[i]*x[i] for i in range(3))
t("e2 eval", lambda: e2.evaluate(vals))
t("e2 degree", lambda: e2.degree)
t("grad e2", lambda: compile_jacobian([e2], list(x))(np.ones(3)))
prices.set([3,2,1])
t("e2 eval after", lambda: e2.evaluate(vals))
